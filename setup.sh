#!/bin/bash
# builds the harness binaries once (warms the Go build cache); every check rebuilds incrementally from /repo
set -u
cd "$(dirname "${BASH_SOURCE[0]}")"
export GOFLAGS=-mod=mod GOPROXY=off GOSUMDB=off GOTOOLCHAIN=local CGO_ENABLED=1
GO="$(ls -d /root/go/pkg/mod/golang.org/toolchain@v0.0.1-go1.25.6.linux-amd64/bin/go 2>/dev/null | head -1)"
[ -z "$GO" ] && GO="$(command -v go1.26)"
mkdir -p .build evidence replays
cd harness
"$GO" test -c -tags verif -o ../.build/checks.test ./checks || exit 1
"$GO" test -c -race -tags verif -o ../.build/checks.race.test ./checks || exit 1
# the CLI (no verif tag) used by the kernel-lab stages of C09 C10 C13 C17
(cd /repo && "$GO" build -o /verif/.build/datadog-traceroute . ) || exit 1
(cd /repo && "$GO" build -race -o /verif/.build/datadog-traceroute.race . ) || exit 1
echo setup ok
