#!/usr/bin/env python3
"""Turn a died test process (panic in a repository goroutine, runtime fatal error) into verdict lines.

usage: crash_report.py <prop> <seed> <tier> <outdir> <verifdir>
Reads <outdir>/journal (START/END lines written before/after each case) and <outdir>/stderr.
Every case that was in flight is a suspect; the signature is the first repository frame of the
crashing goroutine. Known findings (KNOWN_FINDINGS.txt) are honoured exactly like in the Go side.
"""
import json, os, re, sys, zlib

prop, seed, tier, out, verif = sys.argv[1:6]
started, ended = [], set()
try:
    for line in open(os.path.join(out, "journal")):
        parts = line.strip().split(" ", 1)
        if len(parts) != 2:
            continue
        if parts[0] == "START":
            started.append(parts[1])
        elif parts[0] == "END":
            ended.add(parts[1])
except FileNotFoundError:
    pass
inflight = [c for c in started if c not in ended]
stderr = ""
try:
    stderr = open(os.path.join(out, "stderr"), errors="replace").read()
except FileNotFoundError:
    pass
m = re.search(r"^(panic: .*|fatal error: .*)$", stderr, re.M)
headline = m.group(1) if m else "process died without verdict"
frame = "unknown"
if m:
    tail = stderr[m.start():]
    fm = re.search(r"^(github\.com/DataDog/datadog-traceroute/.+)\([^()]*\)$", tail, re.M)
    if fm:
        frame = fm.group(1).replace("github.com/DataDog/datadog-traceroute/", "")
sig = "crash/" + frame
known = []
try:
    for line in open(os.path.join(verif, "KNOWN_FINDINGS.txt")):
        km = re.match(r"^known:\s+property=(\S+)\s+sig=(\S+)\s+(.*)$", line.strip())
        if km:
            known.append(km.groups())
except FileNotFoundError:
    pass
for kp, ks, text in known:
    if kp == prop and re.fullmatch(ks, sig):
        print(f"KNOWN-FINDING: property={prop} {text} (sig={sig}; the process died, remaining cases of this run were not executed)")
        print(f"INCONCLUSIVE property={prop} run cut short by a known crash; fix or isolate it to explore further")
        sys.exit(0)
os.makedirs(os.path.join(verif, "replays"), exist_ok=True)
case = inflight[0] if inflight else (started[-1] if started else "")
rep = {
    "property": prop, "check": prop, "case_id": case, "seed": int(seed), "tier": tier if tier in ("quick", "thorough") else "quick",
    "sig": sig, "msg": headline, "in_flight": inflight, "stderr_tail": stderr[-6000:],
}
name = f"{prop}_{prop}_{seed}_crash_{zlib.crc32((case + sig).encode()) & 0xffffffff:08x}.json"
path = os.path.join(verif, "replays", name)
json.dump(rep, open(path, "w"), indent=1)
print(f"VIOLATION property={prop} replay={path}")
print(f"  sig={sig} case={case}: {headline} (cases in flight: {len(inflight)})")
sys.exit(1)
