#!/usr/bin/env python3
"""nfq_delay.py <queue-num> <delay-ms> [<family: 4|6>]

Userspace half of an `iptables -j NFQUEUE --queue-num N` rule: every queued packet is held for <delay-ms> and then
accepted unchanged. Gives the kernel-router labs real latency (this image has no sch_netem). Raw nfnetlink, no
third-party module. Prints "ready" once the queue is bound; per-packet verdicts are issued in arrival order."""
import heapq
import select
import socket
import struct
import sys
import time

NETLINK_NETFILTER = 12
NFNL_SUBSYS_QUEUE = 3
NFQNL_MSG_PACKET, NFQNL_MSG_VERDICT, NFQNL_MSG_CONFIG = 0, 1, 2
NFQA_PACKET_HDR, NFQA_VERDICT_HDR = 1, 2
NFQA_CFG_CMD, NFQA_CFG_PARAMS, NFQA_CFG_QUEUE_MAXLEN = 1, 2, 3
NFQNL_CFG_CMD_BIND, NFQNL_CFG_CMD_PF_BIND, NFQNL_CFG_CMD_PF_UNBIND = 1, 3, 4
NFQNL_COPY_META = 1
NLM_F_REQUEST, NLM_F_ACK = 1, 4
NF_ACCEPT = 1


def attr(t, payload):
    ln = 4 + len(payload)
    pad = (4 - ln % 4) % 4
    return struct.pack("HH", ln, t) + payload + b"\0" * pad


def msg(mtype, queue, family, attrs, seq):
    body = struct.pack("!BBH", family, 0, queue) + attrs
    return struct.pack("IHHII", 16 + len(body), (NFNL_SUBSYS_QUEUE << 8) | mtype, NLM_F_REQUEST, seq, 0) + body


def main():
    queue = int(sys.argv[1])
    delay = float(sys.argv[2]) / 1000.0
    fam = socket.AF_INET6 if len(sys.argv) > 3 and sys.argv[3] == "6" else socket.AF_INET
    s = socket.socket(socket.AF_NETLINK, socket.SOCK_RAW, NETLINK_NETFILTER)
    s.setsockopt(socket.SOL_SOCKET, socket.SO_RCVBUF, 4 << 20)
    s.bind((0, 0))
    seq = 1
    s.send(msg(NFQNL_MSG_CONFIG, 0, fam, attr(NFQA_CFG_CMD, struct.pack("!BxH", NFQNL_CFG_CMD_PF_UNBIND, fam)), seq)); seq += 1
    s.send(msg(NFQNL_MSG_CONFIG, 0, fam, attr(NFQA_CFG_CMD, struct.pack("!BxH", NFQNL_CFG_CMD_PF_BIND, fam)), seq)); seq += 1
    s.send(msg(NFQNL_MSG_CONFIG, queue, fam, attr(NFQA_CFG_CMD, struct.pack("!BxH", NFQNL_CFG_CMD_BIND, fam)), seq)); seq += 1
    s.send(msg(NFQNL_MSG_CONFIG, queue, fam, attr(NFQA_CFG_PARAMS, struct.pack("!IB", 0, NFQNL_COPY_META)), seq)); seq += 1
    s.send(msg(NFQNL_MSG_CONFIG, queue, fam, attr(NFQA_CFG_QUEUE_MAXLEN, struct.pack("!I", 65536)), seq)); seq += 1
    sys.stdout.write("ready\n")
    sys.stdout.flush()
    held = []  # (release instant, packet id)
    n = 0
    while True:
        now = time.monotonic()
        while held and held[0][0] <= now:
            _, pid = heapq.heappop(held)
            s.send(msg(NFQNL_MSG_VERDICT, queue, fam, attr(NFQA_VERDICT_HDR, struct.pack("!II", NF_ACCEPT, pid)), seq)); seq += 1
        timeout = None if not held else max(0.0, held[0][0] - time.monotonic())
        r, _, _ = select.select([s], [], [], timeout)
        if not r:
            continue
        try:
            data = s.recv(65536)
        except OSError:
            continue  # ENOBUFS: a burst overran the socket buffer; the kernel drops what it could not queue
        arrived = time.monotonic()
        off = 0
        while off + 16 <= len(data):
            ln, mtype, _, _, _ = struct.unpack_from("IHHII", data, off)
            if ln < 16:
                break
            if mtype == (NFNL_SUBSYS_QUEUE << 8) | NFQNL_MSG_PACKET:
                a = off + 16 + 4
                end = off + ln
                while a + 4 <= end:
                    al, at = struct.unpack_from("HH", data, a)
                    if al < 4:
                        break
                    if at & 0x7fff == NFQA_PACKET_HDR:
                        pid = struct.unpack_from("!I", data, a + 4)[0]
                        n += 1
                        heapq.heappush(held, (arrived + delay, pid))
                    a += (al + 3) & ~3
            off += (ln + 3) & ~3


if __name__ == "__main__":
    main()
