#!/usr/bin/env python3
"""Regenerates /verif/MANIFEST.json from the table below (kept in one place so it always validates)."""
import json, os, sys

ROOT = os.path.dirname(os.path.dirname(os.path.abspath(__file__)))
BASELINE_OFF = ("cd /repo && GOFLAGS=-mod=mod GOPROXY=off go test -json -vet=off -count=1 -timeout 25m ./...")

# id -> (level category, technique, level text, level note, design ref)
CHECKS = {}

def add(pid, cat, technique, text, note, ref):
    CHECKS[pid] = dict(cat=cat, technique=technique, text=text, note=note, ref=ref)

exec(open(os.path.join(ROOT, "tools", "manifest_table.py")).read())

ALL = ["C%02d" % i for i in range(1, 21)]
NA = {}
na_path = os.path.join(ROOT, "tools", "not_applicable.json")
if os.path.exists(na_path):
    NA = json.load(open(na_path))

checks = []
for pid in ALL:
    if pid not in CHECKS:
        continue
    c = CHECKS[pid]
    checks.append({
        "property_id": pid,
        "quick_cmd": f"./check {pid} quick",
        "thorough_cmd": f"./check {pid} thorough",
        "evidence_file": f"/verif/evidence/{pid}.json",
        "replay_cmd_template": f"./check {pid} --replay {{path}}",
        "engine": "harness",
        "level_claimed": {"category": c["cat"], "text": c["text"], "design_ref": c["ref"]},
        "level_note": c["note"],
        "technique": c["technique"],
    })
na = [{"property_id": p, "reason": NA.get(p, "check not built yet in this tree; nothing is claimed for it")} for p in ALL if p not in CHECKS]
hooks_commits = [l.strip() for l in open(os.path.join(ROOT, "MANIFEST.hooks")) if l.strip() and not l.startswith("#")] if os.path.exists(os.path.join(ROOT, "MANIFEST.hooks")) else []
m = {
    "version": 1,
    "setup_cmd": "./setup.sh",
    "hooks": {
        "guard": "verif",
        "enable": "go build tag: the harness builds /repo's working tree with `-tags verif` through a replace directive (harness/go.mod)",
        "baseline_off_cmd": BASELINE_OFF,
        "source_commits": [c.split()[0] for c in hooks_commits],
        "add_only": True,
    },
    "engines": [{
        "name": "harness",
        "path": "/verif/harness",
        "serves_properties": [c["property_id"] for c in checks],
        "kind_free_text": "Go test binary (runtime monitors over the real code: simulated wire behind the NewSourceSink seam, testing/synctest virtual clock, scripted driver, reference matcher/fold, race detector, kernel namespaces) driven by ./check",
    }],
    "checks": checks,
    "not_applicable": na,
    "notes": "Runtime monitoring only: every verdict is 'held on the executions observed'. Exit 2 + INCONCLUSIVE line = neither held nor violated (watchdog, too few non-trivial cases).",
}
json.dump(m, open(os.path.join(ROOT, "MANIFEST.json"), "w"), indent=1)
print("wrote MANIFEST.json with", len(checks), "checks;", len(na), "not applicable")
