#!/bin/bash
# seed_import.sh <srcdir> : copy a CONFIRMED seeded change into /verif/seeded/<Cxx>-<mN>/
SRC="$1"; ID="$(basename "$(dirname "$SRC")")-$(basename "$SRC")"
DST=/verif/seeded/$ID; mkdir -p "$DST/demo"
cp "$SRC/patch.rebased.diff" "$DST/patch.diff"
cp "$SRC"/demo/* "$DST/demo/"
cp "$SRC/meta.json" "$DST/meta.json"
echo "$ID"
