#!/usr/bin/env python3
"""mut_one.py <automut id> <check> [<check>...] : apply one mechanical mutation (mutants/automut.jsonl) to a scratch worktree
and run the named quick checks against it (VERIF_REPO); /repo is never touched."""
import json, os, subprocess, sys
ROOT = os.path.dirname(os.path.dirname(os.path.abspath(__file__)))
mid, checks = sys.argv[1], sys.argv[2:]
m = next(json.loads(l) for l in open(os.path.join(ROOT, "mutants", "automut.jsonl")) if json.loads(l)["id"] == mid)
wt = f"/tmp/mutone.{os.getpid()}"
subprocess.run(f"git -C /repo worktree add -q --detach {wt} HEAD", shell=True, check=True)
try:
    p = os.path.join(wt, m["file"]); b = open(p, "rb").read()
    assert b[m["off"]:m["end"]].decode() == m["old"], "stale offsets"
    open(p, "wb").write(b[:m["off"]] + m["new"].encode() + b[m["end"]:])
    for c in checks:
        r = subprocess.run(f"cd {ROOT} && VERIF_REPO={wt} VERIF_NOEVIDENCE=1 ./check {c} quick", shell=True, capture_output=True, text=True)
        sigs = sorted(set(l.split()[0] for l in r.stdout.splitlines() if l.strip().startswith("sig=")))[:4]
        print(f"{mid} {c} rc={r.returncode} {' '.join(sigs)}", flush=True)
finally:
    subprocess.run(f"git -C /repo worktree remove --force {wt}; rm -rf {ROOT}/.build/alt-*", shell=True)
