#!/bin/bash
# seed_all_wt.sh [P] : run every seeded change against the check of its own property (plus the extra checks below),
# each in its own scratch worktree (VERIF_REPO), P at a time; /repo is never touched. Rewrites seeded/RESULTS.txt.
cd "$(dirname "$0")/.."
P="${1:-4}"
extra() { case "$1" in C05-m2) echo "C01 C11";; C03-m1|C03-m2) echo "C07";; C14-r3m1) echo "C11";; esac; }
export -f extra
ls seeded | grep '^C[0-9][0-9]-' | xargs -P "$P" -I{} bash -c 'id={}; tools/seed_run_wt.sh "$id" ${id%%-*} $(extra "$id") > .out/seedres.$id.txt 2>&1'
cat $(ls .out/seedres.*.txt | sort) > seeded/RESULTS.txt; rm -f .out/seedres.*.txt
grep -c 'rc=1 violations=[1-9]' seeded/RESULTS.txt
