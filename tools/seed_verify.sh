#!/bin/bash
# seed_verify.sh <srcdir>   e.g. /tmp/seed/out/C07/m1  (patch.diff, demo/, meta.json)
# Confirms in a scratch worktree of /repo HEAD that the seeded change (1) applies, (2) builds,
# (3) passes the whole existing suite, (4) its demonstration fails with it and passes without it.
# Prints CONFIRMED or REJECTED:<reason>. The worktree is removed afterwards.
set -u
SRC="${1:?src dir}"
export GOFLAGS=-mod=mod GOPROXY=off GOSUMDB=off GOTOOLCHAIN=local
GO=/root/go/pkg/mod/golang.org/toolchain@v0.0.1-go1.25.6.linux-amd64/bin/go
WT="/tmp/sv.$$"
git -C /repo worktree add -q --detach "$WT" HEAD || { echo "REJECTED:worktree"; exit 1; }
cleanup() { git -C /repo worktree remove --force "$WT" >/dev/null 2>&1; rm -rf "$WT"; }
trap cleanup EXIT
cd "$WT"
DEMO_PATH="$(python3 -c 'import json,sys; print(json.load(open(sys.argv[1]))["demo_path_in_repo"])' "$SRC/meta.json")"
DEMO_CMD="$(python3 -c 'import json,sys; print(json.load(open(sys.argv[1]))["demo_cmd"])' "$SRC/meta.json")"
DEMO_CMD="${DEMO_CMD//\$GO/$GO}"
copy_demo() {
  for f in "$SRC"/demo/*; do
    if [ "$(ls "$SRC"/demo | wc -l)" = 1 ]; then mkdir -p "$(dirname "$DEMO_PATH")"; cp "$f" "$DEMO_PATH"; else mkdir -p "$(dirname "$DEMO_PATH")"; cp "$f" "$(dirname "$DEMO_PATH")/"; fi
  done
}
# (a) clean + demo passes
copy_demo
if ! bash -c "$DEMO_CMD" >/tmp/sv.$$.a.log 2>&1; then echo "REJECTED:demo fails on clean tree"; tail -5 /tmp/sv.$$.a.log; rm -f /tmp/sv.$$.*.log; exit 1; fi
git checkout -q -- . && git clean -qfd
# (b) apply
if ! git apply "$SRC/patch.diff" 2>/dev/null; then
  if ! git apply --3way "$SRC/patch.diff" >/dev/null 2>&1; then
    if ! patch -p1 --fuzz=3 -s < "$SRC/patch.diff" >/dev/null 2>&1; then echo "REJECTED:patch does not apply on current HEAD"; rm -f /tmp/sv.$$.*.log; exit 1; fi
  fi
fi
find . -name '*.orig' -delete; find . -name '*.rej' -delete
git diff HEAD > /tmp/sv.$$.rebased.diff
if ! $GO build ./... >/tmp/sv.$$.b.log 2>&1; then echo "REJECTED:does not build"; tail -5 /tmp/sv.$$.b.log; rm -f /tmp/sv.$$.*; exit 1; fi
if ! $GO test -vet=off -count=1 ./... >/tmp/sv.$$.t.log 2>&1; then echo "REJECTED:existing suite fails"; grep -v '^ok\|no test files' /tmp/sv.$$.t.log | tail -8; rm -f /tmp/sv.$$.*; exit 1; fi
copy_demo
if bash -c "$DEMO_CMD" >/tmp/sv.$$.d.log 2>&1; then echo "REJECTED:demo passes with the patch"; rm -f /tmp/sv.$$.*; exit 1; fi
# keep the (possibly re-based) patch next to the original
cp /tmp/sv.$$.rebased.diff "$SRC/patch.rebased.diff"
rm -f /tmp/sv.$$.*
echo "CONFIRMED"
