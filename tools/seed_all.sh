#!/bin/bash
# seed_all.sh : run every seeded change against the check of its own property (plus extra checks listed in seeded/EXTRA)
cd "$(dirname "$0")/.."
declare -A EXTRA=( [C05-m2]="C01 C11" [C03-m1]="C07" [C03-m2]="C07" )
for d in seeded/*/; do
  id=$(basename "$d"); prop=${id%%-*}
  tools/seed_run.sh "$id" $prop ${EXTRA[$id]:-}
done
