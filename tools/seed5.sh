#!/bin/bash
# seed5.sh <Cxx> [round]: verify, import and run the own-property check for /tmp/s<round>/out/<Cxx>/m1,m2
P="$1"; R="${2:-5}"
for m in m1 m2; do
  SRC=/tmp/s$R/out/$P/$m
  [ -f "$SRC/patch.diff" ] || { echo "$P-$m: no patch"; continue; }
  V="$(/verif/tools/seed_verify.sh "$SRC" 2>&1)"
  if ! echo "$V" | grep -q '^CONFIRMED'; then echo "$P-$m: $V" | head -5; continue; fi
  ID="$(ROUND=$R /verif/tools/seed_import2.sh "$SRC")"
  echo "$P-$m: CONFIRMED -> $ID"
  /verif/tools/seed_run_wt.sh "$ID" "$P"
done
