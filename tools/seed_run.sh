#!/bin/bash
# seed_run.sh <seeded-id> <check> [<check>...] : apply the seeded change to /repo, run the checks (quick), undo.
ID="$1"; shift
P=/verif/seeded/$ID/patch.diff
git -C /repo diff --quiet || { echo "repo dirty"; exit 2; }
git -C /repo apply "$P" || { echo "patch does not apply"; exit 2; }
trap 'git -C /repo checkout -- . ; git -C /repo clean -qfd' EXIT
for c in "$@"; do
  OUT="$(cd /verif && VERIF_NOEVIDENCE=1 ./check "$c" quick 2>&1)"; RC=$?
  N=$(echo "$OUT" | grep -c '^VIOLATION')
  echo "seed=$ID check=$c rc=$RC violations=$N :: $(echo "$OUT" | grep -A1 '^VIOLATION' | grep 'sig=' | sed 's/ case=.*//' | sort | uniq -c | sort -rn | head -4 | tr '\n' ';')"
done
