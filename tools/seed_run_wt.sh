#!/bin/bash
# seed_run_wt.sh <seeded-id|patchfile> <check> [<check>...] : like seed_run.sh but against a scratch worktree (VERIF_REPO), /repo untouched
ID="$1"; shift
P="$ID"; [ -f "$P" ] || P=/verif/seeded/$ID/patch.diff
WT=/tmp/seedwt.$$
git -C /repo worktree add -q --detach "$WT" HEAD || exit 2
trap 'git -C /repo worktree remove --force "$WT" >/dev/null 2>&1; rm -rf "$WT" /verif/.build/alt-$(echo "$WT" | md5sum | cut -c1-8)' EXIT
git -C "$WT" apply "$P" || { echo "patch does not apply"; exit 2; }
for c in "$@"; do
  OUT="$(cd /verif && VERIF_REPO="$WT" VERIF_NOEVIDENCE=1 ./check "$c" ${TIER:-quick} 2>&1)"; RC=$?
  N=$(echo "$OUT" | grep -c '^VIOLATION')
  echo "seed=$(basename "$ID") check=$c rc=$RC violations=$N :: $(echo "$OUT" | grep -A1 '^VIOLATION' | grep 'sig=' | sed 's/ case=.*//' | sort | uniq -c | sort -rn | head -4 | tr '\n' ';')"
done
