#!/bin/bash
# runall.sh <tier> [seed] : run every registered check, one summary line each (VERIF_NOEVIDENCE=1 unless KEEP_EVIDENCE=1)
TIER="${1:-quick}"; SEED="${2:-1}"
cd "$(dirname "$0")/.."
[ -z "${KEEP_EVIDENCE:-}" ] && export VERIF_NOEVIDENCE=1
for p in $(python3 -c "import json;print(' '.join(c['property_id'] for c in json.load(open('MANIFEST.json'))['checks']))"); do
  S=$(date +%s.%N)
  OUT="$(VERIF_SEED=$SEED ./check $p $TIER 2>&1)"; RC=$?
  E=$(date +%s.%N)
  printf "%s tier=%s seed=%s rc=%d wall=%.0fs %s\n" "$p" "$TIER" "$SEED" "$RC" "$(echo "$E - $S" | bc)" "$(echo "$OUT" | grep -E '^(VIOLATION|INCONCLUSIVE|KNOWN)' | head -3 | tr '\n' ';')"
done
