add("C03", "exploration", "runtime monitor: shape oracle over real engines + scripted driver in a synctest virtual-time bubble",
    "Every (engine, first TTL, last TTL) pair in the tier's list is driven through the real TracerouteParallel/TracerouteSerial/ToHops with seeded network behaviours; a shape monitor compares the returned list with what the scripted driver recorded handing out. Held = no refutation on the executions observed; the quantifier over pairs is complete in the thorough tier (all 32640 pairs), the network behaviours are sampled.",
    "Trusts the scripted driver's own event log and the Go synctest clock; behaviours are sampled, not enumerated; Linux build only.",
    "DESIGN.md section 5 C03")

add("C07", "exploration", "runtime monitor: reference merge fold over the scripted driver's hand-out log; exhaustive schedules to a bound in a virtual-time bubble + race-detector stress with injected yields",
    "All reply tuples up to the tier's bound (n TTLs, K replies, 2n+3 delivery slots incl. ties with send instants) are enumerated and executed against the real TracerouteParallel; random schedules beyond the bound; a real-goroutine stress tier runs under the race detector with yields injected at the engine's only suspension points. Held = result equalled clip(fold(hand-out order)) on every execution.",
    "Exhaustive only up to the stated bound; the fold oracle trusts the scripted driver's boundary log; the Go scheduler decides real interleavings in the stress tier.",
    "DESIGN.md section 5 C07")
