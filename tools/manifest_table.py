add("C03", "exploration", "runtime monitor: shape oracle over real engines + scripted driver in a synctest virtual-time bubble",
    "Every (engine, first TTL, last TTL) pair in the tier's list is driven through the real TracerouteParallel/TracerouteSerial/ToHops with seeded network behaviours; a shape monitor compares the returned list with what the scripted driver recorded handing out. Held = no refutation on the executions observed; the quantifier over pairs is complete in the thorough tier (all 32640 pairs), the network behaviours are sampled.",
    "Trusts the scripted driver's own event log and the Go synctest clock; behaviours are sampled, not enumerated; Linux build only.",
    "DESIGN.md section 5 C03")
