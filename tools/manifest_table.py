add("C03", "exploration", "runtime monitor: shape oracle over real engines + scripted driver in a synctest virtual-time bubble",
    "Every (engine, first TTL, last TTL) pair in the tier's list is driven through the real TracerouteParallel/TracerouteSerial/ToHops with seeded network behaviours; a shape monitor compares the returned list with what the scripted driver recorded handing out. Held = no refutation on the executions observed; the quantifier over pairs is complete in the thorough tier (all 32640 pairs), the network behaviours are sampled.",
    "Trusts the scripted driver's own event log and the Go synctest clock; behaviours are sampled, not enumerated; Linux build only.",
    "DESIGN.md section 5 C03")

add("C07", "exploration", "runtime monitor: reference merge fold over the scripted driver's hand-out log; exhaustive schedules to a bound in a virtual-time bubble + race-detector stress with injected yields",
    "All reply tuples up to the tier's bound (n TTLs, K replies, 2n+3 delivery slots incl. ties with send instants) are enumerated and executed against the real TracerouteParallel; random schedules beyond the bound; a real-goroutine stress tier runs under the race detector with yields injected at the engine's only suspension points. Held = result equalled clip(fold(hand-out order)) on every execution.",
    "Exhaustive only up to the stated bound; the fold oracle trusts the scripted driver's boundary log; the Go scheduler decides real interleavings in the stress tier.",
    "DESIGN.md section 5 C07")

SIM = "Trusts the independent wirefmt codec and the refmatch reference matcher/fold (harness code, cross-checked against kernel routers in C13), the Go testing/synctest virtual clock and the verif-tagged NewSourceSink seam; inputs are generated, not exhaustive; Linux build only."

add("C01", "exploration", "runtime monitor: reference matcher + reference fold over the ledger of a simulated wire (real entry points, synctest virtual clock)",
    "Every variant's real entry point runs on a simulated wire; around every probe the single-field perturbation lattice of every identifying field, perturbed direct replies, looped-back own probes, stale replies of a previous run and noise are injected ahead of the genuine replies, each from a unique source address. The monitor compares the returned path with the reference fold of what the handle actually read. Held = no hop without an acceptable backing frame on the executions observed.",
    SIM, "DESIGN.md section 5 C01")
add("C02", "exploration", "runtime monitor: reference fold / per-hop completeness over the device-behaviour catalogue on a simulated wire",
    "Each reply form of the catalogue (quote styles, outer options, rewritten quoted TTL/checksum/TOS, NAT-rewritten source, unreachable codes, echo replies, SYN-ACK option mixes, RST, RST-ACK, SACK block layouts, ISN bases at wrap) answers every TTL of a window through the real code with loss/duplication/late arrival of other replies; every must-accept frame read inside its window must appear as its hop.",
    SIM, "DESIGN.md section 5 C02")
add("C04", "exploration", "runtime monitor: reference fold with the statement's destination table over a responder-class product",
    "Reply form x responder class (target, on-path router, off-path host with the same identifiers, local address) x position x arrival order through the real entry points; the destination flag of every hop is compared with the table in the property statement.",
    SIM, "DESIGN.md section 5 C04")
add("C05", "exploration", "runtime monitor: virtual-clock RTT oracle (read instant of first accepted reply minus WriteTo instant of that TTL's probe)",
    "Delay plans incl. overtaking, duplicates, near-budget and window-crossing replies at production and discriminating timing scales; on the virtual clock the expected RTT is exact, so the oracle is equality within 2 us and the property's one-poll tolerance is never needed; end-to-end samples are compared with the destination-hop RTT of their own probe in the C15 workload.",
    SIM + " A send timestamp taken after WriteTo is not detectable on a virtual clock.", "DESIGN.md section 5 C05")
add("C06", "exploration", "runtime monitor: independent packet verifier + emission automaton on Sink.WriteTo",
    "Every byte string handed to the sink in every simulated run of this and all other wire checks is decoded and verified (lengths, all checksums, TTL sequence, flow constancy, identifier uniqueness, pacing on the virtual clock incl. after an injected slow send, stop rule, reported endpoints).",
    SIM + " Paris-mode random identifiers: collisions counted, not flagged.", "DESIGN.md section 5 C06")
add("C09", "exploration", "runtime monitor: abort/crash freedom + noise-free twin equality under truncation, structure-aware mutation, near-miss and random frames",
    "Hostile byte strings are injected at every phase of real runs; the run must not abort or crash, hops must stay justified, and when the reference matcher rejects every injected frame the result must equal the noise-free twin run exactly. A crash of the process is attributed to the journaled case.",
    SIM + " Frames larger than the tool's buffer are truncated like the kernel does.", "DESIGN.md section 5 C09")
add("C10", "fault_enumeration", "fault injection at every k-th call of every capture/send operation + life-cycle, goroutine-leak and fd monitors",
    "Census of operation counts per variant, then one run per (operation, k, error class) and SACK dial refusal; exhaustive over single faults for the census of the chosen scenarios, sampled pairs in the thorough tier.",
    SIM + " MustClosePort branches are unreachable on Linux.", "DESIGN.md section 5 C10")
add("C11", "exploration", "runtime monitor: per-flow reference fold on a shared wire + live-range overlap monitor on the allocators under the race detector",
    "K concurrent runs and whole requests share one wire on which every handle sees every frame; each run must equal the fold of its own flow and carry no other flow's router; identifiers on the wire and allocator blocks of live runs must be pairwise disjoint (window interpretation: fewer than 65536 identifiers handed out between two live blocks).",
    SIM + " Relaxed UDP/TCP source checking is outside the claim (no entry point enables it).", "DESIGN.md section 5 C11")
add("C14", "exploration", "Go race detector over an unsynchronised pre-seeded wire, concurrent runs and whole requests, repeated",
    "The built-in race detector observes real goroutines; the wire adds no happens-before edge between sender and receiver and makes every TTL's reply arrive both before and after its probe is recorded. Held = no report with repository frames on the interleavings the scheduler produced; a run without both orders is inconclusive.",
    "A silent detector is not race freedom; interleavings are chosen by the Go scheduler; Linux build only.", "DESIGN.md section 5 C14")
add("C15", "exploration", "runtime monitor: all-or-error / exact-count oracle over RunTraceroute with per-role failure injection, bubble + race detector",
    "Query counts x failing subsets x completion orders x fetcher behaviours x cancellation instants through the real RunTraceroute over a shared simulated wire; errors.Is must reach every injected per-flow sentinel.",
    SIM, "DESIGN.md section 5 C15")
add("C16", "exploration", "reference computations over generated result documents through the real Normalize() and encoding/json",
    "Small documents enumerated exhaustively, larger ones seeded random; relations of the statement, permutation invariance, id freshness over the whole run, golden JSON key paths and round trip.",
    "Floating-point rounding of the mean is tolerated (8n+8 ulp); golden key list embedded in the harness.", "DESIGN.md section 5 C16")
add("C17", "exploration", "twin-run comparison (skip-private-hops off/on) against a reference private-range predicate: documents, simulated wire, HTTP handler",
    "Hop addresses on every private block boundary in every encoding through RemovePrivateHops, through RunTraceroute on a simulated wire whose routers have those addresses with a scripted resolver, and through the HTTP handler with an independent JSON decoder.",
    SIM, "DESIGN.md section 5 C17")
add("C18", "exploration", "scripted resolver / RoundTripper oracles, exact reference cache map, porcupine linearizability check of recorded cache histories",
    "Enrichment field-by-field against the resolver script; sequential cache programs against an exact reference; concurrent cache histories recorded at the call boundary and checked per key with porcupine against a register-with-expiry that stores only successes; provider scripts judged on the recorded request sequence.",
    "Cache replaced by a janitor-less instance on the bubble clock; get-or-compute atomicity is not claimed.", "DESIGN.md section 5 C18")
add("C19", "exploration", "parameter grid through RunTraceroute and the HTTP handler on a silent simulated wire; wire TTL/address/port/kind oracle; crash attribution by journal",
    "Every grid point is either rejected or must put exactly the requested TTL set, address, port and probe kind on the wire; unrepresentable values must be rejected.",
    SIM, "DESIGN.md section 5 C19")
add("C20", "exploration", "decision-table oracle over method x target capability x injected failure with a real listener in a peer namespace",
    "Observes probe kinds per handle, listener accepts, error chain (errors.As NotSupportedError / errors.Is injected cause) and result for every combination.",
    SIM + " Faults are combined only with a SACK-capable target.", "DESIGN.md section 5 C20")
add("C08", "exploration", "virtual-clock bound monitors + cancellation grid + stalled-service responders with an in-bubble watchdog",
    "Closed-form virtual-time bounds are checked on every simulated run under floods, bursts and valid duplicate streams; engine runs and the context-taking entry points are cancelled on a grid of instants; scripted HTTP/DNS responders stall exactly like http.Transport would. A hang is what the 4x watchdog observes; unbounded liveness is restated as these bounds.",
    SIM + " UDP/TCP entry points take no context and are not judged for cancellation.", "DESIGN.md section 5 C08")
add("C12", "exploration", "emitted cBPF programs vs reference predicate over the complete class product in the x/net/bpf VM and the running kernel; filter-on/off twin runs",
    "The exact programs SetPacketFilter installs are evaluated on the finite product of the equivalence classes of every field they load, in the VM and by the kernel (SO_ATTACH_FILTER), against a predicate written from the statement (exhaustive over the class product for the full-product programs); simulated runs with the real programs enforced must equal their unfiltered twins and no used frame may have a reject verdict.",
    "Unfragmented = fragment offset 0 (MF-only outside the verdict); kernel verdicts are those of the sandbox kernel.", "DESIGN.md section 5 C12")
add("C13", "exploration", "real CLI / library caller in kernel-router network namespaces; address-chain oracle",
    "Replies come from the Linux kernel's IP/ICMP/TCP stack in a chain of namespaces; only addresses, flags and RTT sign are judged; a mismatch must reproduce three times to be reported (kernel timing noise is not a verdict).",
    "Needs CAP_NET_ADMIN; Linux routers answer from the interface facing the source; the AF_PACKET source, raw sink and BPF attach path are only executed here.", "DESIGN.md section 5 C13")
