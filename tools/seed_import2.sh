#!/bin/bash
# seed_import2.sh <srcdir> : round-N import -> /verif/seeded/<Cxx>-r2mN/
SRC="$1"; ID="$(basename "$(dirname "$SRC")")-r${ROUND:-2}$(basename "$SRC")"
DST=/verif/seeded/$ID; mkdir -p "$DST/demo"
cp "$SRC/patch.rebased.diff" "$DST/patch.diff"; cp "$SRC"/demo/* "$DST/demo/"; cp "$SRC/meta.json" "$DST/meta.json"
python3 - "$DST/meta.json" <<'PY'
import json,sys
p=sys.argv[1]; m=json.load(open(p))
m.setdefault('confirmed_by','tools/seed_verify.sh: scratch worktree of /repo HEAD; patch applies, go build ./... ok, go test -vet=off -count=1 ./... all ok with the patch, demo_cmd fails with the patch and passes without it')
m['breaks_property']=m.get('property'); m["round"]=int(__import__("os").environ.get("ROUND","2"))
json.dump(m,open(p,'w'),indent=1)
PY
echo "$ID"
