// automut enumerates small, mechanical mutations of Go source files (comparison/boolean/arithmetic operator
// swaps, integer literal +1, negated conditions, deleted statements, swapped bool literals) and prints them as
// JSON lines {id,file,line,off,end,old,new,kind}. The driver (mutants/automut.py) applies one at a time to a
// scratch worktree by byte offsets. Used only to measure the monitors, never applied to /repo.
package main

import (
	"encoding/json"
	"fmt"
	"go/ast"
	"go/parser"
	"go/token"
	"os"
	"path/filepath"
	"strconv"
	"strings"
)

type mut struct {
	ID   string `json:"id"`
	File string `json:"file"`
	Line int    `json:"line"`
	Off  int    `json:"off"`
	End  int    `json:"end"`
	Old  string `json:"old"`
	New  string `json:"new"`
	Kind string `json:"kind"`
	Func string `json:"func"`
}

var swaps = map[token.Token]string{
	token.EQL: "!=", token.NEQ: "==", token.LSS: "<=", token.LEQ: "<", token.GTR: ">=", token.GEQ: ">",
	token.LAND: "||", token.LOR: "&&", token.ADD: "-", token.SUB: "+",
}

func main() {
	root := os.Args[1]
	enc := json.NewEncoder(os.Stdout)
	for _, rel := range os.Args[2:] {
		path := filepath.Join(root, rel)
		src, err := os.ReadFile(path)
		if err != nil {
			fmt.Fprintln(os.Stderr, err)
			continue
		}
		fset := token.NewFileSet()
		f, err := parser.ParseFile(fset, path, src, parser.ParseComments)
		if err != nil {
			fmt.Fprintln(os.Stderr, err)
			continue
		}
		n := 0
		emit := func(fn string, pos, end token.Pos, nw, kind string) {
			o, e := fset.Position(pos).Offset, fset.Position(end).Offset
			n++
			enc.Encode(mut{ID: fmt.Sprintf("%s:%d:%s:%d", rel, fset.Position(pos).Line, kind, n), File: rel, Line: fset.Position(pos).Line, Off: o, End: e, Old: string(src[o:e]), New: nw, Kind: kind, Func: fn})
		}
		for _, d := range f.Decls {
			fd, ok := d.(*ast.FuncDecl)
			if !ok || fd.Body == nil {
				continue
			}
			fn := fd.Name.Name
			if strings.HasPrefix(fn, "Verif") {
				continue
			}
			ast.Inspect(fd.Body, func(x ast.Node) bool {
				switch v := x.(type) {
				case *ast.BinaryExpr:
					if nw, ok := swaps[v.Op]; ok {
						emit(fn, v.OpPos, v.OpPos+token.Pos(len(v.Op.String())), nw, "op")
					}
				case *ast.BasicLit:
					if v.Kind == token.INT {
						if i, err := strconv.ParseInt(v.Value, 0, 64); err == nil {
							emit(fn, v.Pos(), v.End(), strconv.FormatInt(i+1, 10), "lit+1")
							if i > 0 {
								emit(fn, v.Pos(), v.End(), strconv.FormatInt(i-1, 10), "lit-1")
							}
						}
					}
				case *ast.IfStmt:
					c := string(src[fset.Position(v.Cond.Pos()).Offset:fset.Position(v.Cond.End()).Offset])
					emit(fn, v.Cond.Pos(), v.Cond.End(), "!("+c+")", "negcond")
				case *ast.Ident:
					if v.Name == "true" {
						emit(fn, v.Pos(), v.End(), "false", "bool")
					} else if v.Name == "false" {
						emit(fn, v.Pos(), v.End(), "true", "bool")
					}
				case *ast.BlockStmt:
					for _, s := range v.List {
						del := false
						switch st := s.(type) {
						case *ast.ExprStmt:
							_, del = st.X.(*ast.CallExpr)
						case *ast.AssignStmt:
							del = st.Tok != token.DEFINE
						case *ast.IncDecStmt:
							del = true
						case *ast.DeferStmt:
							del = true
						case *ast.BranchStmt:
							del = st.Tok == token.BREAK || st.Tok == token.CONTINUE
						}
						if del {
							emit(fn, s.Pos(), s.End(), "{}", "delstmt")
						}
					}
				case *ast.CaseClause:
					for _, s := range v.Body {
						if as, ok := s.(*ast.AssignStmt); ok && as.Tok != token.DEFINE {
							emit(fn, s.Pos(), s.End(), "{}", "delstmt")
						}
					}
				}
				return true
			})
		}
	}
}
