// trhelper is a tiny library caller for the kernel-conformance check: JSON params on stdin, JSON result
// (including the internal IsDest flag the CLI does not print) on stdout. Built WITHOUT the verif tag.
package main

import (
	"context"
	"encoding/json"
	"fmt"
	"os"
	"time"

	"github.com/DataDog/datadog-traceroute/traceroute"
)

type in struct {
	Hostname  string `json:"hostname"`
	Port      int    `json:"port"`
	Protocol  string `json:"protocol"`
	MinTTL    int    `json:"min_ttl"`
	MaxTTL    int    `json:"max_ttl"`
	TimeoutMs int    `json:"timeout_ms"`
	TCPMethod string `json:"tcp_method"`
	WantV6    bool   `json:"want_v6"`
	Queries   int    `json:"queries"`
	E2e       int    `json:"e2e"`
	Paris     bool   `json:"paris"`
}

type hop struct {
	TTL    int     `json:"ttl"`
	IP     string  `json:"ip"`
	RTT    float64 `json:"rtt"`
	IsDest bool    `json:"is_dest"`
}

type out struct {
	Error string    `json:"error,omitempty"`
	Runs  [][]hop   `json:"runs"`
	RTTs  []float64 `json:"rtts"`
}

func main() {
	var p in
	if err := json.NewDecoder(os.Stdin).Decode(&p); err != nil {
		fmt.Fprintln(os.Stderr, err)
		os.Exit(2)
	}
	params := traceroute.TracerouteParams{Hostname: p.Hostname, Port: p.Port, Protocol: p.Protocol, MinTTL: p.MinTTL, MaxTTL: p.MaxTTL, Delay: 50,
		Timeout: time.Duration(p.TimeoutMs) * time.Millisecond, TCPMethod: traceroute.TCPMethod(p.TCPMethod), WantV6: p.WantV6, TracerouteQueries: p.Queries, E2eQueries: p.E2e, TCPSynParisTracerouteMode: p.Paris}
	res, err := traceroute.NewTraceroute().RunTraceroute(context.Background(), params)
	var o out
	if err != nil {
		o.Error = err.Error()
	} else {
		for _, r := range res.Traceroute.Runs {
			var hs []hop
			for _, h := range r.Hops {
				s := ""
				if len(h.IPAddress) > 0 {
					s = h.IPAddress.String()
				}
				hs = append(hs, hop{TTL: h.TTL, IP: s, RTT: h.RTT, IsDest: h.IsDest})
			}
			o.Runs = append(o.Runs, hs)
		}
		o.RTTs = res.E2eProbe.RTTs
	}
	json.NewEncoder(os.Stdout).Encode(o)
}
