// trhelper is a tiny library caller for the kernel-conformance check: JSON params on stdin, JSON result
// (including the internal IsDest flag the CLI does not print) on stdout. Built WITHOUT the verif tag.
package main

import (
	"context"
	"encoding/json"
	"fmt"
	"os"
	"runtime/debug"
	"strconv"
	"strings"
	"time"

	"github.com/DataDog/datadog-traceroute/traceroute"
	"golang.org/x/sys/unix"
)

type in struct {
	Hostname  string `json:"hostname"`
	Port      int    `json:"port"`
	Protocol  string `json:"protocol"`
	MinTTL    int    `json:"min_ttl"`
	MaxTTL    int    `json:"max_ttl"`
	TimeoutMs int    `json:"timeout_ms"`
	TCPMethod string `json:"tcp_method"`
	WantV6    bool   `json:"want_v6"`
	Queries   int    `json:"queries"`
	E2e       int    `json:"e2e"`
	Paris     bool   `json:"paris"`
	// FdLimit: "fd exhaustion" mode. The request is run several times while RLIMIT_NOFILE allows 1, 2, 3 ... more
	// descriptors than are open; for every run the descriptors left open afterwards are counted (GC disabled, so no
	// finaliser tidies up behind the code under test).
	FdLimit bool `json:"fd_limit"`
}

type fdRun struct {
	Extra  int    `json:"extra"`
	Error  string `json:"error"`
	Result bool   `json:"result"`
	Leaked int    `json:"leaked"`
	Which  string `json:"which,omitempty"`
}

func openFds() map[string]string {
	m := map[string]string{}
	ents, _ := os.ReadDir("/proc/self/fd")
	for _, e := range ents {
		if t, err := os.Readlink("/proc/self/fd/" + e.Name()); err == nil {
			m[e.Name()] = t
		}
	}
	return m
}

func fdExhaustion(params traceroute.TracerouteParams) {
	debug.SetGCPercent(-1)
	var old unix.Rlimit
	unix.Getrlimit(unix.RLIMIT_NOFILE, &old)
	// one warm-up run so that lazily created descriptors of the runtime (epoll, event fds) exist already
	traceroute.NewTraceroute().RunTraceroute(context.Background(), params)
	var runs []fdRun
	for extra := 1; extra <= 6; extra++ {
		before := openFds()
		hi := 0
		for k := range before {
			if n, _ := strconv.Atoi(k); n > hi {
				hi = n
			}
		}
		lim := unix.Rlimit{Cur: uint64(hi + 1 + extra), Max: old.Max}
		unix.Setrlimit(unix.RLIMIT_NOFILE, &lim)
		res, err := traceroute.NewTraceroute().RunTraceroute(context.Background(), params)
		unix.Setrlimit(unix.RLIMIT_NOFILE, &old)
		time.Sleep(50 * time.Millisecond)
		after := openFds()
		r := fdRun{Extra: extra, Result: res != nil}
		if err != nil {
			r.Error = err.Error()
		}
		for k, t := range after {
			if _, ok := before[k]; !ok && !strings.Contains(t, "/proc/") {
				r.Leaked++
				r.Which += k + "->" + t + " "
			}
		}
		runs = append(runs, r)
	}
	json.NewEncoder(os.Stdout).Encode(map[string]any{"fd_runs": runs})
}

type hop struct {
	TTL    int     `json:"ttl"`
	IP     string  `json:"ip"`
	RTT    float64 `json:"rtt"`
	IsDest bool    `json:"is_dest"`
}

type out struct {
	Error string    `json:"error,omitempty"`
	Runs  [][]hop   `json:"runs"`
	RTTs  []float64 `json:"rtts"`
}

func main() {
	var p in
	if err := json.NewDecoder(os.Stdin).Decode(&p); err != nil {
		fmt.Fprintln(os.Stderr, err)
		os.Exit(2)
	}
	params := traceroute.TracerouteParams{Hostname: p.Hostname, Port: p.Port, Protocol: p.Protocol, MinTTL: p.MinTTL, MaxTTL: p.MaxTTL, Delay: 50,
		Timeout: time.Duration(p.TimeoutMs) * time.Millisecond, TCPMethod: traceroute.TCPMethod(p.TCPMethod), WantV6: p.WantV6, TracerouteQueries: p.Queries, E2eQueries: p.E2e, TCPSynParisTracerouteMode: p.Paris}
	if p.FdLimit {
		fdExhaustion(params)
		return
	}
	res, err := traceroute.NewTraceroute().RunTraceroute(context.Background(), params)
	var o out
	if err != nil {
		o.Error = err.Error()
	} else {
		for _, r := range res.Traceroute.Runs {
			var hs []hop
			for _, h := range r.Hops {
				s := ""
				if len(h.IPAddress) > 0 {
					s = h.IPAddress.String()
				}
				hs = append(hs, hop{TTL: h.TTL, IP: s, RTT: h.RTT, IsDest: h.IsDest})
			}
			o.Runs = append(o.Runs, hs)
		}
		o.RTTs = res.E2eProbe.RTTs
	}
	json.NewEncoder(os.Stdout).Encode(o)
}
