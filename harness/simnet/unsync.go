package simnet

import (
	"net/netip"
	"os"
	"time"

	"github.com/DataDog/datadog-traceroute/packets"
)

// The unsynchronised wire for C14: Sink and Source share NO lock, atomic or channel, so the harness adds
// no happens-before edge between the sender and the receiver goroutine of the code under test. Each side
// only touches its own private memory; the check reads both logs after the run has returned.

// UnsyncSink records write instants privately.
type UnsyncSink struct {
	Writes []UnsyncWrite
	Closed int
	// FailAt > 0: the FailAt-th write stalls for FailStall (the receiver keeps matching replies meanwhile) and then
	// fails with FailErr - the error path of a send runs concurrently with the receive path. Private to the sender.
	FailAt    int
	FailStall time.Duration
	FailErr   error
}

// UnsyncWrite is one packet handed to the sink.
type UnsyncWrite struct {
	At    time.Time
	Bytes []byte
}

func (s *UnsyncSink) WriteTo(buf []byte, _ netip.AddrPort) error {
	s.Writes = append(s.Writes, UnsyncWrite{At: time.Now(), Bytes: append([]byte(nil), buf...)})
	if s.FailAt > 0 && len(s.Writes) == s.FailAt {
		time.Sleep(s.FailStall)
		return s.FailErr
	}
	return nil
}

func (s *UnsyncSink) Close() error { s.Closed++; return nil }

// UnsyncSource hands out frames produced by a private generator.
type UnsyncSource struct {
	// Next returns the next frame (nil = nothing right now) and how long to pause before handing it out.
	Next     func(n int) ([]byte, time.Duration)
	OnFilter func(spec packets.PacketFilterSpec)
	Reads    []UnsyncRead
	Closed   int
	deadline time.Time
	n        int
}

// UnsyncRead is one frame handed to the code under test.
type UnsyncRead struct {
	At  time.Time
	Tag int
}

func (s *UnsyncSource) SetReadDeadline(t time.Time) error { s.deadline = t; return nil }

func (s *UnsyncSource) Read(buf []byte) (int, error) {
	b, pause := s.Next(s.n)
	s.n++
	if pause > 0 {
		time.Sleep(pause)
	}
	if b == nil {
		if d := time.Until(s.deadline); d > 0 {
			time.Sleep(d)
		}
		return 0, os.ErrDeadlineExceeded
	}
	s.Reads = append(s.Reads, UnsyncRead{At: time.Now(), Tag: s.n - 1})
	return copy(buf, b), nil
}

func (s *UnsyncSource) Close() error { s.Closed++; return nil }

func (s *UnsyncSource) SetPacketFilter(spec packets.PacketFilterSpec) error {
	if s.OnFilter != nil {
		s.OnFilter(spec)
	}
	return nil
}

// RegisterUnsync routes NewSourceSink(target) to the given pair until the returned func is called.
func RegisterUnsync(target netip.Addr, src *UnsyncSource, snk *UnsyncSink) func() {
	w := NewWire()
	w.unsync = func() (packets.SourceSinkHandle, bool, error) {
		return packets.SourceSinkHandle{Source: src, Sink: snk}, true, nil
	}
	return Register(w, target)
}
