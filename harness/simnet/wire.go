// Package simnet is the simulated wire handed to the real traceroute code through the verif-tagged
// factory seam in packets.NewSourceSink. It works on whatever clock package time provides: inside a
// testing/synctest bubble that is the virtual clock.
package simnet

import (
	"container/heap"
	"errors"
	"fmt"
	"net/netip"
	"os"
	"sync"
	"time"

	"github.com/DataDog/datadog-traceroute/packets"
	"golang.org/x/net/bpf"

	"verif/harness/wirefmt"
)

// Frame is one inbound frame (starting at the IP header) with harness metadata.
type Frame struct {
	ID    int
	Bytes []byte
	Class string // genuine / perturbed / foreign / noise / own-probe / handshake ...
	Meta  any
}

// Delivery is one frame scheduled for one handle.
type Delivery struct {
	Frame    *Frame
	Handle   int
	At       time.Time
	seq      int
	Read     bool
	ReadAt   time.Time
	ReadTick int64
	// FilteredAt / FilteredTick: when an enforced capture filter dropped the frame instead of handing it out
	FilteredAt   time.Time
	FilteredTick int64
	Drained      bool // removed by a filter installation (SetBPFAndDrain semantics)
	// Filtered is set when an installed (emulated) filter program rejected the frame.
	Filtered    bool
	FilterKnown bool
	FilterType  packets.PacketFilterType
}

// Emission is one packet the code under test wrote to a Sink.
type Emission struct {
	Seq      int
	Tick     int64
	Handle   int
	At       time.Time
	Bytes    []byte
	Dst      netip.AddrPort
	Pkt      *wirefmt.Packet
	ParseErr error
}

// Call is one entry of a handle's call log (life-cycle monitor).
type Call struct {
	Op  string // factory filter write deadline read close_source close_sink
	At  time.Time
	Err string
	N   int
}

// Fault describes an injected failure.
type Fault struct {
	Err     error
	ZeroLen bool // Read returns (0, nil)
	// Stall > 0: the call takes this long (virtual time) and then proceeds normally
	Stall time.Duration
	// StallAfter > 0: the packet goes out (and causes its replies) at once but the call only returns after this long
	// (a sender descheduled inside the syscall)
	StallAfter time.Duration
	// Persist: the fault also applies to every later call of the same op on the same handle
	Persist bool
}

type inFlight struct {
	f  *Frame
	at time.Time
}

// FaultKey addresses the K-th (1-based) call of Op on handle Handle (-1 = counted across the wire).
type FaultKey struct {
	Handle int
	Op     string
	K      int
}

// MaxEmissionsPerHandle stops a runaway sender (a run can legitimately emit at most 255 probes).
const MaxEmissionsPerHandle = 600

// MaxReadsPerHandle stops a runaway reader (legitimate floods in the checks stay far below).
const MaxReadsPerHandle = 400000

// FilterMode selects BPF emulation.
type FilterMode int

const (
	FilterOff FilterMode = iota
	FilterShadow
	FilterEnforce
)

type dq []*Delivery

func (q dq) Len() int { return len(q) }
func (q dq) Less(i, j int) bool {
	if !q[i].At.Equal(q[j].At) {
		return q[i].At.Before(q[j].At)
	}
	return q[i].seq < q[j].seq
}
func (q dq) Swap(i, j int) { q[i], q[j] = q[j], q[i] }
func (q *dq) Push(x any)   { *q = append(*q, x.(*Delivery)) }
func (q *dq) Pop() any {
	old := *q
	n := len(old)
	x := old[n-1]
	*q = old[:n-1]
	return x
}

// Handle is one capture/send handle pair.
type Handle struct {
	w      *Wire
	Idx    int
	Target netip.Addr
	Opened time.Time

	q        dq
	notify   chan struct{}
	deadline time.Time

	SourceClosed, SinkClosed int
	UseAfterClose            []string
	Calls                    []Call
	Filters                  []packets.PacketFilterSpec
	FilterTimes              []time.Time
	vm                       *bpf.VM
	curFilter                packets.PacketFilterType
	opCount                  map[string]int
	FirstReadAt              time.Time
	// Poison, when set, makes every later WriteTo/Read/SetReadDeadline/SetPacketFilter of this handle fail with it.
	Poison error
	// ReadOverrun is set when the code under test called Read more than MaxReadsPerHandle times.
	ReadOverrun bool
	// Overrun is set when the code under test wrote more than MaxEmissionsPerHandle packets.
	Overrun bool
	// User is free for scenarios (e.g. the flow bound to this handle).
	User any
}

// Wire is the shared medium. Every handle receives every delivered frame (AF_PACKET semantics).
type Wire struct {
	mu         sync.Mutex
	Handles    []*Handle
	Emissions  []*Emission
	Deliveries []*Delivery
	Frames     []*Frame
	seq        int
	tick       int64

	// OnOpen is called when the code under test opens a handle (after fault injection).
	OnOpen func(h *Handle)
	// OnEmit is called (without the wire lock) for every packet written to a Sink.
	OnEmit func(h *Handle, e *Emission)
	// OnFilter is called (without the wire lock) after a filter was installed.
	OnFilter func(h *Handle, spec packets.PacketFilterSpec)
	// OnFirstRead is called (without the lock) at the start of the first Read after each filter install.
	OnReadStart func(h *Handle)
	// OnBeforeFilter runs at the start of every SetPacketFilter call, before the queue is drained: what the network
	// delivered up to this moment (e.g. the SYN-ACK of a dial that has already returned) is in the queue by then
	OnBeforeFilter func(h *Handle, spec packets.PacketFilterSpec)
	// Loopback delivers every emitted probe to every handle, like AF_PACKET/ETH_P_ALL does.
	Loopback bool
	Mode     FilterMode
	Faults   map[FaultKey]Fault
	Fired    []FaultKey
	inFlight []inFlight // frames scheduled for every open handle, kept for handles opened before they arrive
	wireOps  map[string]int
	unsync   func() (packets.SourceSinkHandle, bool, error)
}

// NewWire creates an empty wire.
func NewWire() *Wire {
	return &Wire{Faults: map[FaultKey]Fault{}, wireOps: map[string]int{}}
}

func (w *Wire) fault(h *Handle, op string) (Fault, bool) {
	// caller holds w.mu
	w.wireOps[op]++
	if h != nil && h.Poison != nil && (op == "write" || op == "read" || op == "deadline" || op == "filter") {
		h.opCount[op]++
		return Fault{Err: h.Poison}, true
	}
	hk := -2
	cnt := 0
	if h != nil {
		h.opCount[op]++
		hk = h.Idx
		cnt = h.opCount[op]
	}
	if f, ok := w.Faults[FaultKey{hk, op, cnt}]; ok && h != nil {
		w.Fired = append(w.Fired, FaultKey{hk, op, cnt})
		if f.Persist {
			w.Faults[FaultKey{hk, op, cnt + 1}] = f
		}
		return f, true
	}
	if f, ok := w.Faults[FaultKey{-1, op, w.wireOps[op]}]; ok {
		w.Fired = append(w.Fired, FaultKey{-1, op, w.wireOps[op]})
		return f, true
	}
	return Fault{}, false
}

// Factory is the packets.VerifSourceSinkFactoryFn of this wire.
func (w *Wire) Factory(addr netip.Addr, _ bool) (packets.SourceSinkHandle, bool, error) {
	if w.unsync != nil {
		return w.unsync()
	}
	w.mu.Lock()
	if f, ok := w.fault(nil, "factory"); ok {
		w.mu.Unlock()
		return packets.SourceSinkHandle{}, true, f.Err
	}
	h := &Handle{w: w, Idx: len(w.Handles), Target: addr, Opened: time.Now(), notify: make(chan struct{}, 1), opCount: map[string]int{}}
	h.Calls = append(h.Calls, Call{Op: "factory", At: h.Opened})
	w.Handles = append(w.Handles, h)
	// frames that are still in flight when the handle opens reach it like every other open handle (a capture socket
	// sees whatever arrives after it was opened, whenever the frame was sent)
	keep := w.inFlight[:0]
	for _, fl := range w.inFlight {
		if !fl.at.After(h.Opened) {
			continue
		}
		keep = append(keep, fl)
		w.seq++
		d := &Delivery{Frame: fl.f, Handle: h.Idx, At: fl.at, seq: w.seq}
		w.Deliveries = append(w.Deliveries, d)
		heap.Push(&h.q, d)
	}
	w.inFlight = keep
	cb := w.OnOpen
	w.mu.Unlock()
	if cb != nil {
		cb(h)
	}
	return packets.SourceSinkHandle{Source: &simSource{h}, Sink: &simSink{h}}, true, nil
}

// NewFrame registers a frame.
func (w *Wire) NewFrame(b []byte, class string, meta any) *Frame {
	w.mu.Lock()
	defer w.mu.Unlock()
	f := &Frame{ID: len(w.Frames), Bytes: b, Class: class, Meta: meta}
	w.Frames = append(w.Frames, f)
	return f
}

// DeliverAt schedules f for every currently open handle (or only `only` when non-nil) at instant at.
func (w *Wire) DeliverAt(f *Frame, at time.Time, only *Handle) {
	w.mu.Lock()
	defer w.mu.Unlock()
	if only == nil {
		w.inFlight = append(w.inFlight, inFlight{f, at})
	}
	for _, h := range w.Handles {
		if only != nil && h != only {
			continue
		}
		if h.SourceClosed > 0 {
			continue
		}
		w.seq++
		d := &Delivery{Frame: f, Handle: h.Idx, At: at, seq: w.seq}
		w.Deliveries = append(w.Deliveries, d)
		heap.Push(&h.q, d)
		select {
		case h.notify <- struct{}{}:
		default:
		}
	}
}

// Deliver schedules f after delay from now.
func (w *Wire) Deliver(f *Frame, delay time.Duration, only *Handle) {
	w.DeliverAt(f, time.Now().Add(delay), only)
}

// PoisonHandle makes every later operation on h fail with err.
func (w *Wire) PoisonHandle(h *Handle, err error) {
	w.mu.Lock()
	h.Poison = err
	select {
	case h.notify <- struct{}{}:
	default:
	}
	w.mu.Unlock()
}

// Lock/Unlock give scenarios access to a consistent snapshot.
func (w *Wire) Lock()   { w.mu.Lock() }
func (w *Wire) Unlock() { w.mu.Unlock() }

type simSink struct{ h *Handle }
type simSource struct{ h *Handle }

func (s *simSink) WriteTo(buf []byte, addrPort netip.AddrPort) error {
	h, w := s.h, s.h.w
	w.mu.Lock()
	now := time.Now()
	if h.SinkClosed > 0 {
		h.UseAfterClose = append(h.UseAfterClose, "write")
	}
	var stallAfter time.Duration
	if f, ok := w.fault(h, "write"); ok {
		if f.StallAfter > 0 {
			stallAfter = f.StallAfter
		} else if f.Stall > 0 {
			// a slow send: the probe was handed to the network at `now` (that instant is the RTT reference and the
			// pacing reference); the call only returns - and replies are only caused - after the stall
			w.mu.Unlock()
			time.Sleep(f.Stall)
			w.mu.Lock()
		} else {
			h.Calls = append(h.Calls, Call{Op: "write", At: now, Err: errStr(f.Err)})
			w.mu.Unlock()
			return f.Err
		}
	}
	if h.opCount["write"] > MaxEmissionsPerHandle {
		h.Overrun = true
		w.mu.Unlock()
		return errors.New("simnet: emission cap exceeded (runaway sender)")
	}
	w.tick++
	e := &Emission{Seq: len(w.Emissions), Tick: w.tick, Handle: h.Idx, At: now, Bytes: append([]byte(nil), buf...), Dst: addrPort}
	e.Pkt, e.ParseErr = wirefmt.Parse(e.Bytes)
	w.Emissions = append(w.Emissions, e)
	h.Calls = append(h.Calls, Call{Op: "write", At: now, N: len(buf)})
	cb := w.OnEmit
	loop := w.Loopback
	w.mu.Unlock()
	if loop {
		f := w.NewFrame(e.Bytes, "own-probe", e)
		w.DeliverAt(f, now, nil)
	}
	if cb != nil {
		cb(h, e)
	}
	if stallAfter > 0 {
		time.Sleep(stallAfter)
	}
	return nil
}

func (s *simSink) Close() error {
	h, w := s.h, s.h.w
	w.mu.Lock()
	defer w.mu.Unlock()
	h.SinkClosed++
	h.Calls = append(h.Calls, Call{Op: "close_sink", At: time.Now()})
	if f, ok := w.fault(h, "close_sink"); ok {
		return f.Err
	}
	return nil
}

func (s *simSource) Close() error {
	h, w := s.h, s.h.w
	w.mu.Lock()
	defer w.mu.Unlock()
	h.SourceClosed++
	h.Calls = append(h.Calls, Call{Op: "close_source", At: time.Now()})
	select {
	case h.notify <- struct{}{}:
	default:
	}
	if f, ok := w.fault(h, "close_source"); ok {
		return f.Err
	}
	return nil
}

func (s *simSource) SetReadDeadline(t time.Time) error {
	h, w := s.h, s.h.w
	w.mu.Lock()
	defer w.mu.Unlock()
	if h.SourceClosed > 0 {
		h.UseAfterClose = append(h.UseAfterClose, "deadline")
	}
	if f, ok := w.fault(h, "deadline"); ok {
		h.Calls = append(h.Calls, Call{Op: "deadline", At: time.Now(), Err: errStr(f.Err)})
		return f.Err
	}
	h.deadline = t
	h.Calls = append(h.Calls, Call{Op: "deadline", At: time.Now()})
	return nil
}

func (s *simSource) SetPacketFilter(spec packets.PacketFilterSpec) error {
	h, w := s.h, s.h.w
	if cb := w.OnBeforeFilter; cb != nil {
		cb(h, spec)
	}
	// the program is generated before the wire's lock is taken, as the real capture source generates it without any lock:
	// two handles generating their programs at the same time must not share state (race detector)
	var raw []bpf.RawInstruction
	var genErr error
	if w.Mode != FilterOff && spec.FilterType != packets.FilterTypeNone {
		raw, genErr = packets.VerifClassicBPFFilter(spec)
		raw = append([]bpf.RawInstruction(nil), raw...) // the kernel copies the program when it is attached
	}
	w.mu.Lock()
	now := time.Now()
	if h.SourceClosed > 0 {
		h.UseAfterClose = append(h.UseAfterClose, "filter")
	}
	if f, ok := w.fault(h, "filter"); ok {
		h.Calls = append(h.Calls, Call{Op: "filter", At: now, Err: errStr(f.Err)})
		w.mu.Unlock()
		return f.Err
	}
	h.Calls = append(h.Calls, Call{Op: "filter", At: now, N: int(spec.FilterType)})
	h.Filters = append(h.Filters, spec)
	h.FilterTimes = append(h.FilterTimes, now)
	h.curFilter = spec.FilterType
	// SetBPFAndDrain: everything already queued is discarded
	for h.q.Len() > 0 && !h.q[0].At.After(now) {
		d := heap.Pop(&h.q).(*Delivery)
		d.Drained = true
	}
	h.vm = nil
	var ferr error
	if w.Mode != FilterOff && spec.FilterType != packets.FilterTypeNone {
		if err := genErr; err != nil {
			ferr = fmt.Errorf("SetPacketFilter failed to get BPF filter program: %w", err)
		} else {
			insns, ok := bpf.Disassemble(raw)
			if !ok {
				ferr = errors.New("simnet: program does not disassemble")
			} else if vm, err := bpf.NewVM(insns); err != nil {
				ferr = fmt.Errorf("simnet: bpf vm: %w", err)
			} else {
				h.vm = vm
			}
		}
	}
	cb := w.OnFilter
	w.mu.Unlock()
	if ferr != nil {
		return ferr
	}
	if cb != nil {
		cb(h, spec)
	}
	return nil
}

// EthFrame prepends an Ethernet header matching the IP version nibble.
func EthFrame(ip []byte) []byte {
	b := make([]byte, 14+len(ip))
	copy(b[0:6], []byte{2, 0, 0, 0, 0, 2})
	copy(b[6:12], []byte{2, 0, 0, 0, 0, 1})
	et := uint16(0x0800)
	if len(ip) > 0 && ip[0]>>4 == 6 {
		et = 0x86dd
	}
	b[12], b[13] = byte(et>>8), byte(et)
	copy(b[14:], ip)
	return b
}

func (s *simSource) Read(buf []byte) (int, error) {
	h, w := s.h, s.h.w
	w.mu.Lock()
	if h.FirstReadAt.IsZero() {
		h.FirstReadAt = time.Now()
	}
	cbStart := w.OnReadStart
	w.mu.Unlock()
	if cbStart != nil {
		cbStart(h)
	}
	w.mu.Lock()
	if h.SourceClosed > 0 {
		h.UseAfterClose = append(h.UseAfterClose, "read")
	}
	if h.opCount["read"] > MaxReadsPerHandle {
		// a run that keeps reading forever (e.g. a retry loop that ignores its deadline): stop it and flag it
		h.ReadOverrun = true
		w.mu.Unlock()
		// (virtual) time passes: a reader that treats even this as "nothing there, try again" still reaches its deadline
		time.Sleep(time.Millisecond)
		return 0, errors.New("simnet: read cap exceeded (runaway reader)")
	}
	if f, ok := w.fault(h, "read"); ok {
		if len(h.Calls) < 100000 {
			h.Calls = append(h.Calls, Call{Op: "read", At: time.Now(), Err: errStr(f.Err)})
		}
		w.mu.Unlock()
		if f.ZeroLen {
			if f.Persist {
				// a source that keeps returning nothing still lets (virtual) time pass: no zero-time spin
				time.Sleep(time.Millisecond)
			}
			return 0, nil
		}
		if f.Stall > 0 {
			time.Sleep(f.Stall) // the failing read blocks that long first (an error that surfaces at the end of a poll)
		} else if f.Persist {
			// a source that fails every read still lets (virtual) time pass: a caller that retries spins, it does not freeze
			time.Sleep(time.Millisecond)
		}
		return 0, f.Err
	}
	for {
		now := time.Now()
		if h.Poison != nil {
			err := h.Poison
			w.mu.Unlock()
			return 0, err
		}
		if h.SourceClosed > 0 {
			h.Calls = append(h.Calls, Call{Op: "read", At: now, Err: "closed"})
			w.mu.Unlock()
			return 0, os.ErrClosed
		}
		for h.q.Len() > 0 && !h.q[0].At.After(now) {
			d := heap.Pop(&h.q).(*Delivery)
			if h.vm != nil {
				n, err := h.vm.Run(EthFrame(d.Frame.Bytes))
				d.FilterKnown = true
				d.FilterType = h.curFilter
				d.Filtered = err != nil || n == 0
				if d.Filtered && w.Mode == FilterEnforce {
					d.FilteredAt, d.FilteredTick = now, w.tick+1 // the tick it would have been read at
					continue
				}
			}
			w.tick++
			d.Read, d.ReadAt, d.ReadTick = true, now, w.tick
			n := copy(buf, d.Frame.Bytes)
			h.Calls = append(h.Calls, Call{Op: "read", At: now, N: n})
			w.mu.Unlock()
			return n, nil
		}
		dl := h.deadline
		if !dl.IsZero() && !now.Before(dl) {
			h.Calls = append(h.Calls, Call{Op: "read", At: now, Err: "deadline"})
			w.mu.Unlock()
			return 0, os.ErrDeadlineExceeded
		}
		var wait time.Duration
		switch {
		case h.q.Len() > 0 && (dl.IsZero() || h.q[0].At.Before(dl)):
			wait = h.q[0].At.Sub(now)
		case !dl.IsZero():
			wait = dl.Sub(now)
		default:
			wait = time.Second // production default read timeout
		}
		w.mu.Unlock()
		t := time.NewTimer(wait)
		select {
		case <-t.C:
		case <-h.notify:
			t.Stop()
		}
		w.mu.Lock()
		if dl.IsZero() && h.q.Len() == 0 {
			// emulate the 1 s default timeout of the AF_PACKET source when no deadline is set
			if time.Since(now) >= time.Second {
				w.mu.Unlock()
				return 0, os.ErrDeadlineExceeded
			}
		}
	}
}

func errStr(err error) string {
	if err == nil {
		return ""
	}
	return err.Error()
}

// Lifecycle checks the handle life-cycle automaton of C10 and returns the violations.
func (w *Wire) Lifecycle() []string {
	w.mu.Lock()
	defer w.mu.Unlock()
	var out []string
	for _, h := range w.Handles {
		if h.SourceClosed != 1 {
			out = append(out, fmt.Sprintf("handle %d: Source.Close called %d times", h.Idx, h.SourceClosed))
		}
		if h.SinkClosed != 1 {
			out = append(out, fmt.Sprintf("handle %d: Sink.Close called %d times", h.Idx, h.SinkClosed))
		}
		for _, u := range h.UseAfterClose {
			out = append(out, fmt.Sprintf("handle %d: %s after Close", h.Idx, u))
		}
	}
	return out
}

// OpCounts returns per-handle op counts (census for fault enumeration).
func (w *Wire) OpCounts() []map[string]int {
	w.mu.Lock()
	defer w.mu.Unlock()
	var out []map[string]int
	for _, h := range w.Handles {
		m := map[string]int{}
		for k, v := range h.opCount {
			m[k] = v
		}
		out = append(out, m)
	}
	return out
}

// ---------------------------------------------------------------------------------------------
// dispatcher: the process-wide factory maps a target address to the wire of the case using it.

var (
	dispMu   sync.Mutex
	dispMap  = map[netip.Addr]*Wire{}
	dispOnce sync.Once
)

// Register routes NewSourceSink(target) to w until the returned func is called.
func Register(w *Wire, targets ...netip.Addr) func() {
	dispOnce.Do(func() {
		packets.VerifSetSourceSinkFactory(func(addr netip.Addr, useDriver bool) (packets.SourceSinkHandle, bool, error) {
			dispMu.Lock()
			w := dispMap[addr.Unmap()]
			dispMu.Unlock()
			if w == nil {
				return packets.SourceSinkHandle{}, true, fmt.Errorf("simnet: no wire registered for %s", addr)
			}
			return w.Factory(addr, useDriver)
		})
	})
	dispMu.Lock()
	for _, t := range targets {
		dispMap[t.Unmap()] = w
	}
	dispMu.Unlock()
	return func() {
		dispMu.Lock()
		for _, t := range targets {
			delete(dispMap, t.Unmap())
		}
		dispMu.Unlock()
	}
}
