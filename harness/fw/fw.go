// Package fw is the small case-running framework shared by all checks: deterministic case lists,
// worker pool, journaling (crash attribution), violations with replay files, known findings, evidence.
package fw

import (
	"bufio"
	"encoding/json"
	"flag"
	"fmt"
	"math/rand"
	"os"
	"path/filepath"
	"regexp"
	"runtime/debug"
	"runtime/pprof"
	"sort"
	"strings"
	"sync"
	"testing"
	"testing/synctest"
	"time"
)

var (
	FlagProp    = flag.String("prop", "", "property id to run (C01..C20)")
	FlagTier    = flag.String("tier", "quick", "quick|thorough")
	FlagSeed    = flag.Int64("seed", 1, "VERIF_SEED")
	FlagCase    = flag.String("case", "", "run only the case with this id (replay)")
	FlagOut     = flag.String("out", "", "output directory for journal/result/replays")
	FlagWorkers = flag.Int("workers", 0, "worker goroutines (0 = check default)")
	FlagVerif   = flag.String("verifdir", "/verif", "verif root (KNOWN_FINDINGS.txt, evidence, replays)")
	FlagMaxViol = flag.Int("maxviol", 40, "stop printing after this many violations")
)

// Violation is one refutation witness.
type Violation struct {
	Property string `json:"property"`
	CaseID   string `json:"case_id"`
	Sig      string `json:"sig"`
	Msg      string `json:"msg"`
	Detail   any    `json:"detail,omitempty"`
	Seed     int64  `json:"seed"`
	Tier     string `json:"tier"`
	Check    string `json:"check"`
	Known    string `json:"known,omitempty"`
}

// Ctx is the per-case context.
type Ctx struct {
	Worker int
	Check  string
	ID     string
	Seed   int64
	Tier   string
	Rng    *rand.Rand
	T      *testing.T

	mu         sync.Mutex
	violations []Violation
	counters   map[string]int64
	nontrivial map[string]bool
	samples    []any
	inconcl    []string
	inconclRun []string
}

func (c *Ctx) Violate(prop, sig, msg string, detail any) {
	c.mu.Lock()
	defer c.mu.Unlock()
	for _, v := range c.violations {
		if v.Property == prop && v.Sig == sig {
			return // one witness per signature per case
		}
	}
	c.violations = append(c.violations, Violation{Property: prop, CaseID: c.ID, Sig: sig, Msg: msg, Detail: detail, Seed: c.Seed, Tier: c.Tier, Check: c.Check})
}

func (c *Ctx) Violated() bool {
	c.mu.Lock()
	defer c.mu.Unlock()
	return len(c.violations) > 0
}

func (c *Ctx) Count(key string, n int) {
	c.mu.Lock()
	c.counters[key] += int64(n)
	c.mu.Unlock()
}

// Nontrivial records that the monitored behaviour was actually exercised for signature sig.
func (c *Ctx) Nontrivial(sig string) {
	c.mu.Lock()
	c.nontrivial[sig] = true
	c.mu.Unlock()
}

func (c *Ctx) Sample(v any) {
	c.mu.Lock()
	if len(c.samples) < 2 {
		c.samples = append(c.samples, v)
	}
	c.mu.Unlock()
}

// Inconclusive: this CASE could not be judged (its environment could not be set up, a helper did not start). The case
// counts as not executed; see the tolerance in RunCheck.
func (c *Ctx) Inconclusive(why string) {
	c.mu.Lock()
	c.inconcl = append(c.inconcl, c.ID+": "+why)
	c.mu.Unlock()
}

// InconclusiveRun: something puts the whole run in doubt (a race inside the harness, ...): never tolerated.
func (c *Ctx) InconclusiveRun(why string) {
	c.mu.Lock()
	c.inconclRun = append(c.inconclRun, why)
	c.mu.Unlock()
}

// NewCtx builds a stand-alone context (used by the native fuzz target, which runs outside RunCheck).
func NewCtx(check, id string, t *testing.T) *Ctx {
	return &Ctx{Check: check, ID: id, Seed: 1, Tier: "fuzz", T: t, Rng: rand.New(rand.NewSource(1)), counters: map[string]int64{}, nontrivial: map[string]bool{}}
}

// Violations returns the violations recorded so far.
func (c *Ctx) Violations() []Violation {
	c.mu.Lock()
	defer c.mu.Unlock()
	return append([]Violation(nil), c.violations...)
}

// Case is one deterministic case.
type Case struct {
	ID     string
	Bubble bool // run inside a synctest bubble (virtual clock)
	Run    func(c *Ctx)
}

// Check describes one property check.
type Check struct {
	Prop        string
	Level       string // exploration | fault_enumeration
	Rule        string
	Workers     int
	Gen         func(tier string, seed int64) []Case
	Assumptions []string
	// MinNontrivial: fewer distinct non-trivial signatures than this makes the run inconclusive.
	MinNontrivial int
	Exhaustive    bool
	// Finish runs once after all cases (e.g. race log collection); may add violations/counters.
	Finish func(c *Ctx)
}

type known struct {
	prop string
	sig  *regexp.Regexp
	text string
	used bool
}

func loadKnown(dir string) []*known {
	f, err := os.Open(filepath.Join(dir, "KNOWN_FINDINGS.txt"))
	if err != nil {
		return nil
	}
	defer f.Close()
	var out []*known
	sc := bufio.NewScanner(f)
	re := regexp.MustCompile(`^known:\s+property=(\S+)\s+sig=(\S+)\s+(.*)$`)
	for sc.Scan() {
		m := re.FindStringSubmatch(strings.TrimSpace(sc.Text()))
		if m == nil {
			continue
		}
		// sig is a glob-free exact signature or a regexp anchored by us
		r, err := regexp.Compile("^" + m[2] + "$")
		if err != nil {
			continue
		}
		out = append(out, &known{prop: m[1], sig: r, text: m[3]})
	}
	return out
}

type result struct {
	cases      int
	violations []Violation
	counters   map[string]int64
	nontrivial map[string]bool
	samples    []any
	inconcl    []string // cases that could not be judged
	inconclRun []string // reasons that put the whole run in doubt
}

// RunCheck executes chk according to the command-line flags and writes evidence + verdict lines.
// It returns the process exit code (0 held, 1 violation, 2 inconclusive).
func RunCheck(t *testing.T, chk Check) int {
	start := time.Now()
	tier, seed := *FlagTier, *FlagSeed
	out := *FlagOut
	if out == "" {
		out = filepath.Join(os.TempDir(), "verif-out")
	}
	os.MkdirAll(out, 0o755)
	cases := chk.Gen(tier, seed)
	if *FlagCase != "" {
		var sel []Case
		for _, c := range cases {
			if c.ID == *FlagCase {
				sel = append(sel, c)
			}
		}
		if len(sel) == 0 {
			// the id may belong to the other tier
			other := "thorough"
			if tier == "thorough" {
				other = "quick"
			}
			for _, c := range chk.Gen(other, seed) {
				if c.ID == *FlagCase {
					sel = append(sel, c)
				}
			}
		}
		cases = sel
		if len(cases) == 0 {
			fmt.Printf("INCONCLUSIVE property=%s no case with id %q\n", chk.Prop, *FlagCase)
			return 2
		}
	}
	workers := chk.Workers
	if *FlagWorkers > 0 {
		workers = *FlagWorkers
	}
	if workers < 1 {
		workers = 1
	}
	jf, _ := os.OpenFile(filepath.Join(out, "journal"), os.O_CREATE|os.O_WRONLY|os.O_APPEND, 0o644)
	var jmu sync.Mutex
	journal := func(s string) {
		jmu.Lock()
		fmt.Fprintln(jf, s)
		jmu.Unlock()
	}
	res := result{counters: map[string]int64{}, nontrivial: map[string]bool{}}
	var rmu sync.Mutex
	merge := func(c *Ctx) {
		rmu.Lock()
		defer rmu.Unlock()
		res.cases++
		res.violations = append(res.violations, c.violations...)
		for k, v := range c.counters {
			res.counters[k] += v
		}
		for k := range c.nontrivial {
			res.nontrivial[k] = true
		}
		if len(res.samples) < 3 && len(c.samples) > 0 {
			res.samples = append(res.samples, c.samples[0])
		}
		res.inconcl = append(res.inconcl, c.inconcl...)
		res.inconclRun = append(res.inconclRun, c.inconclRun...)
	}
	var finMu sync.Mutex
	finalized := false
	finalize := func() int {
		finMu.Lock()
		defer finMu.Unlock()
		if finalized {
			select {} // another goroutine is already writing the verdict and will exit the process
		}
		finalized = true
		rmu.Lock()
		defer rmu.Unlock()
		// verdict
		kn := loadKnown(*FlagVerif)
		sort.SliceStable(res.violations, func(i, j int) bool { return res.violations[i].CaseID < res.violations[j].CaseID })
		newViol := 0
		knownSeen := map[string]bool{}
		repdir := filepath.Join(*FlagVerif, "replays")
		os.MkdirAll(repdir, 0o755)
		for i := range res.violations {
			v := &res.violations[i]
			matched := false
			for _, k := range kn {
				if k.prop == v.Property && k.sig.MatchString(v.Sig) {
					matched = true
					v.Known = k.text
					if !knownSeen[k.prop+k.sig.String()] {
						knownSeen[k.prop+k.sig.String()] = true
						fmt.Printf("KNOWN-FINDING: property=%s %s (sig=%s, e.g. case %s)\n", v.Property, k.text, v.Sig, v.CaseID)
					}
					break
				}
			}
			if matched {
				continue
			}
			newViol++
			if newViol > *FlagMaxViol {
				continue
			}
			name := fmt.Sprintf("%s_%s_%d_%08x.json", v.Property, chk.Prop, seed, hash(v.CaseID+v.Sig))
			path := filepath.Join(repdir, name)
			b, _ := json.MarshalIndent(v, "", " ")
			os.WriteFile(path, b, 0o644)
			fmt.Printf("VIOLATION property=%s replay=%s\n", v.Property, path)
			fmt.Printf("  sig=%s case=%s: %s\n", v.Sig, v.CaseID, v.Msg)
		}
		nontriv := len(res.nontrivial)
		// Verdict of the run: a violation wins; otherwise the run is inconclusive when anything puts the whole run in doubt
		// (watchdog, harness race, too little non-trivial coverage) or when more than a hundredth of its cases (at least
		// one is allowed) could not be judged because their environment did not come up (a helper process that did not
		// start on a loaded machine, a port that was taken). The few unjudged cases of an otherwise complete run are
		// listed (UNJUDGED lines, coverage.unjudged_cases in the evidence) and counted as not executed: the verdict "held"
		// speaks about the executed cases only, and the non-trivial coverage minimum is checked without them.
		tolerated := res.cases / 100
		if tolerated < 1 {
			tolerated = 1
		}
		if *FlagCase != "" {
			tolerated = 0
		}
		unjudged := res.inconcl
		if len(unjudged) > tolerated {
			res.inconclRun = append(res.inconclRun, fmt.Sprintf("%d of %d cases could not be judged", len(unjudged), res.cases))
			res.inconclRun = append(res.inconclRun, unjudged...)
			unjudged = nil
		}
		if *FlagCase == "" && nontriv < chk.MinNontrivial {
			res.inconclRun = append(res.inconclRun, fmt.Sprintf("only %d distinct non-trivial cases (< %d)", nontriv, chk.MinNontrivial))
		}
		inconclusive := len(res.inconclRun) > 0
		// evidence
		if *FlagCase == "" && os.Getenv("VERIF_NOEVIDENCE") == "" && chk.Level != "" && len(chk.Prop) == 3 {
			cov := map[string]any{
				"evaluations":         res.cases,
				"distinct_nontrivial": nontriv,
				"rule":                chk.Rule,
				"samples":             res.samples,
				"counters":            res.counters,
				"known_findings_seen": len(knownSeen),
			}
			if chk.Exhaustive {
				cov["exhaustive"] = true
			}
			if len(res.samples) == 0 {
				cov["samples"] = []any{"(no sample recorded)"}
			}
			if len(res.inconclRun) > 0 {
				cov["inconclusive"] = res.inconclRun
			}
			if len(unjudged) > 0 {
				cov["unjudged_cases"] = unjudged
			}
			assumptions := chk.Assumptions
			if assumptions == nil {
				assumptions = []string{}
			}
			ev := map[string]any{
				"property_id": chk.Prop,
				"tier":        tier,
				"seed":        seed,
				"level":       chk.Level,
				"coverage":    cov,
				"assumptions": assumptions,
				"wall_s":      time.Since(start).Seconds(),
				"violations":  newViol,
			}
			b, _ := json.MarshalIndent(ev, "", " ")
			os.MkdirAll(filepath.Join(*FlagVerif, "evidence"), 0o755)
			os.WriteFile(filepath.Join(*FlagVerif, "evidence", chk.Prop+".json"), b, 0o644)
		}
		keys := make([]string, 0, len(res.counters))
		for k := range res.counters {
			keys = append(keys, k)
		}
		sort.Strings(keys)
		var sb strings.Builder
		for _, k := range keys {
			fmt.Fprintf(&sb, " %s=%d", k, res.counters[k])
		}
		fmt.Printf("OBSERVED property=%s tier=%s seed=%d cases=%d nontrivial=%d%s wall=%.1fs\n", chk.Prop, tier, seed, res.cases, nontriv, sb.String(), time.Since(start).Seconds())
		switch {
		case newViol > 0:
			fmt.Printf("VERIF-DONE property=%s verdict=violated new=%d\n", chk.Prop, newViol)
			return 1
		case inconclusive:
			for _, s := range res.inconclRun {
				fmt.Printf("INCONCLUSIVE property=%s %s\n", chk.Prop, s)
			}
			fmt.Printf("VERIF-DONE property=%s verdict=inconclusive\n", chk.Prop)
			return 2
		}
		for _, s := range unjudged {
			fmt.Printf("UNJUDGED property=%s %s\n", chk.Prop, s)
		}
		fmt.Printf("VERIF-DONE property=%s verdict=held\n", chk.Prop)
		return 0
	}
	// wall-clock watchdog per case: a case that does not finish (e.g. goroutines of the code under test blocked on a
	// mutex inside a bubble, which virtual time cannot resolve) ends the run as inconclusive - after the verdict lines
	// of everything found so far were written.
	caseLimit := 300 * time.Second
	if v := os.Getenv("VERIF_CASE_WATCHDOG"); v != "" {
		if d, err := time.ParseDuration(v); err == nil {
			caseLimit = d
		}
	}
	var runMu sync.Mutex
	running := map[string]time.Time{}
	stopWatch := make(chan struct{})
	go func() {
		tk := time.NewTicker(2 * time.Second)
		defer tk.Stop()
		for {
			select {
			case <-stopWatch:
				return
			case <-tk.C:
				runMu.Lock()
				stuck := ""
				for id, t0 := range running {
					if time.Since(t0) > caseLimit {
						stuck = id
					}
				}
				runMu.Unlock()
				if stuck != "" {
					dump := filepath.Join(*FlagVerif, "replays", fmt.Sprintf("%s_stuck_goroutines.txt", chk.Prop))
					os.MkdirAll(filepath.Dir(dump), 0o755)
					if f, err := os.Create(dump); err == nil {
						pprof.Lookup("goroutine").WriteTo(f, 2)
						f.Close()
					}
					rmu.Lock()
					res.inconclRun = append(res.inconclRun, fmt.Sprintf("case %s did not finish within %v of wall-clock time (watchdog; goroutine dump in %s); remaining cases not executed", stuck, caseLimit, dump))
					rmu.Unlock()
					if raceEnabled {
						// what the race detector reported before the run got stuck is still a verdict (a stuck run is often the
						// visible end of an unsynchronised access, e.g. a mutex copied while it was held)
						rc := &Ctx{Check: chk.Prop, ID: "finish", Seed: seed, Tier: tier, T: t, Rng: rand.New(rand.NewSource(seed)),
							counters: map[string]int64{}, nontrivial: map[string]bool{}}
						wl := chk.Prop
						if chk.Prop == "C14" {
							wl = ""
						}
						ReportRaces(rc, wl)
						merge(rc)
					}
					code := finalize()
					os.Exit(code)
				}
			}
		}
	}()
	ch := make(chan int)
	var wg sync.WaitGroup
	runOne := func(t *testing.T, cs Case, worker int) {
		c := &Ctx{Worker: worker, Check: chk.Prop, ID: cs.ID, Seed: seed, Tier: tier, T: t,
			Rng:      rand.New(rand.NewSource(seed*1_000_003 + int64(hash(cs.ID)))),
			counters: map[string]int64{}, nontrivial: map[string]bool{}}
		journal("START " + cs.ID)
		runMu.Lock()
		running[cs.ID] = time.Now()
		runMu.Unlock()
		body := func() {
			defer func() {
				if r := recover(); r != nil {
					c.Violate(chk.Prop, "panic", fmt.Sprintf("panic in case goroutine: %v", r), string(debug.Stack()))
				}
			}()
			if fake := os.Getenv("VERIF_FAKE_UNJUDGED"); fake != "" && strings.HasPrefix(cs.ID, fake) {
				// self-test of the verdict protocol: pretend the environment of these cases did not come up
				c.Inconclusive("environment did not come up (VERIF_FAKE_UNJUDGED)")
				return
			}
			cs.Run(c)
		}
		if cs.Bubble {
			// own subtest: synctest.Test ends the calling goroutine (FailNow) when the bubbled test failed, e.g.
			// "race detected during execution of test"; the worker must survive that
			if ok := t.Run("b", func(t *testing.T) { synctest.Test(t, func(t *testing.T) { c.T = t; body() }) }); !ok {
				c.Count("bubble_tests_failed", 1)
			}
		} else {
			body()
		}
		journal("END " + cs.ID)
		runMu.Lock()
		delete(running, cs.ID)
		runMu.Unlock()
		merge(c)
	}
	t.Run("cases", func(t *testing.T) {
		for w := 0; w < workers; w++ {
			wg.Add(1)
			w := w
			go func() {
				defer wg.Done()
				t.Run(fmt.Sprintf("w%d", w), func(t *testing.T) {
					for i := range ch {
						runOne(t, cases[i], w)
					}
				})
			}()
		}
		for i := range cases {
			ch <- i
		}
		close(ch)
		wg.Wait()
	})
	if chk.Finish != nil || raceEnabled {
		c := &Ctx{Check: chk.Prop, ID: "finish", Seed: seed, Tier: tier, T: t, Rng: rand.New(rand.NewSource(seed)),
			counters: map[string]int64{}, nontrivial: map[string]bool{}}
		if chk.Finish != nil {
			chk.Finish(c)
		}
		if raceEnabled && chk.Prop != "C14" {
			// every check built with the race detector reads its reports: the workload of this check produced a
			// schedule on which two goroutines touched the same state without synchronisation
			ReportRaces(c, chk.Prop)
		}
		res.cases--
		merge(c)
	}
	close(stopWatch)
	return finalize()
}

// RaceReport is one "WARNING: DATA RACE" block of a race-detector log.
type RaceReport struct {
	Text       string
	RepoFrames []string // first repository frame of each stack section
	Owners     []string // "repo" / "harness" / "" per stack section: whose code made the access
	Harness    bool
}

// ParseRaceLogs reads the race-detector logs (GORACE log_path=<dir>/race) written by this process.
func ParseRaceLogs(dir string) []RaceReport {
	files, _ := filepath.Glob(filepath.Join(dir, "race.*"))
	var out []RaceReport
	for _, f := range files {
		b, err := os.ReadFile(f)
		if err != nil {
			continue
		}
		blocks := strings.Split(string(b), "==================")
		for _, bl := range blocks {
			if !strings.Contains(bl, "WARNING: DATA RACE") {
				continue
			}
			rep := RaceReport{Text: bl}
			// sections: "Read at", "Previous write at", "Write at", "Previous read at" ... each followed by a stack
			secs := regexp.MustCompile(`(?m)^(Read|Write|Previous read|Previous write|Atomic.*) at .*$`).FindAllStringIndex(bl, -1)
			for i, s := range secs {
				end := len(bl)
				if i+1 < len(secs) {
					end = secs[i+1][0]
				}
				if g := strings.Index(bl[s[1]:end], "\nGoroutine "); g >= 0 {
					end = s[1] + g
				}
				stack := bl[s[1]:end]
				// owner of the access = the innermost frame that is repository or harness code (frames of the
				// standard library and of third-party modules above it act on its behalf)
				frame, owner := "", ""
				for _, line := range strings.Split(stack, "\n") {
					line = strings.TrimSpace(line)
					if owner == "" && strings.HasPrefix(line, "verif/harness/") {
						owner = "harness"
					}
					if strings.HasPrefix(line, "github.com/DataDog/datadog-traceroute/") {
						if owner == "" {
							owner = "repo"
						}
						frame = strings.TrimPrefix(line, "github.com/DataDog/datadog-traceroute/")
						if p := strings.LastIndex(frame, "("); p > 0 {
							frame = frame[:p]
						}
						break
					}
				}
				rep.RepoFrames = append(rep.RepoFrames, frame)
				rep.Owners = append(rep.Owners, owner)
			}
			// a report is the repository's when at least one of the two accesses is made by repository code (or by a
			// library on its behalf); two harness-owned accesses are a harness race even below repository frames
			n := 0
			for i, fr := range rep.RepoFrames {
				if fr != "" && rep.Owners[i] == "repo" {
					n++
				}
			}
			rep.Harness = n == 0
			out = append(out, rep)
		}
	}
	return out
}

// ReportRaces turns the race-detector reports of this process into verdicts: a report with a repository frame in
// one of its stacks is a violation of C14 (de-duplicated by the pair of first repository frames), a report without
// any makes the run inconclusive (a race inside the harness). workload names the check whose workload produced the
// schedule when that is not C14 itself.
func ReportRaces(c *Ctx, workload string) {
	reps := ParseRaceLogs(*FlagOut)
	seen := map[string]bool{}
	harnessOnly := 0
	for _, r := range reps {
		if r.Harness {
			harnessOnly++
			continue
		}
		fr := append([]string(nil), r.RepoFrames...)
		sort.Strings(fr)
		sig := "race/" + strings.Join(fr, "|")
		if seen[sig] {
			continue
		}
		seen[sig] = true
		msg := "data race reported by the race detector between " + strings.Join(fr, " and ")
		if workload != "" {
			msg += " (while running the " + workload + " workload)"
		}
		c.Violate("C14", sig, msg, r.Text)
	}
	c.Count("race_reports", len(reps))
	c.Count("race_signatures", len(seen))
	if harnessOnly > 0 {
		c.InconclusiveRun(fmt.Sprintf("%d race report(s) without repository frames (harness race)", harnessOnly))
	}
}

func hash(s string) uint32 {
	h := uint32(2166136261)
	for i := 0; i < len(s); i++ {
		h ^= uint32(s[i])
		h *= 16777619
	}
	return h
}

// Hash32 exposes the FNV hash for deterministic sub-seeding.
func Hash32(s string) uint32 { return hash(s) }
