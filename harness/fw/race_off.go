//go:build !race

package fw

const raceEnabled = false
