//go:build race

package fw

const raceEnabled = true
