// Package drive runs the real entry points of each protocol variant over a simulated wire and
// extracts the flow identity from what was seen on the wire.
package drive

import (
	"context"
	"fmt"
	"net"
	"net/netip"
	"os"
	"runtime"
	"sync"
	"time"

	"github.com/DataDog/datadog-traceroute/common"
	"github.com/DataDog/datadog-traceroute/icmp"
	"github.com/DataDog/datadog-traceroute/packets"
	"github.com/DataDog/datadog-traceroute/result"
	"github.com/DataDog/datadog-traceroute/sack"
	"github.com/DataDog/datadog-traceroute/tcp"
	"github.com/DataDog/datadog-traceroute/udp"
	"github.com/vishvananda/netns"

	"verif/harness/refmatch"
	"verif/harness/simnet"
	"verif/harness/wirefmt"
)

// Spec is one run request.
type Spec struct {
	V                refmatch.Variant
	Target           netip.Addr
	Port             uint16
	MinTTL, MaxTTL   uint8
	Timeout          time.Duration
	Delay            time.Duration
	Poll             time.Duration // only icmp/sack honour it; udp/syn use the production 100 ms
	HandshakeTimeout time.Duration
	Ctx              context.Context
	// Obj, when non-nil, holds the protocol object (*udp.UDPv4 / *tcp.TCPv4) across calls: the first Run stores the
	// object it built, later Runs call Traceroute() on that same object again (library callers that keep one around)
	Obj *any
	// Target16: hand the IPv4 target to the constructor in its 16-byte form (what net.ParseIP returns)
	Target16 bool
}

// Result of one run.
type Result struct {
	Run        *result.TracerouteRun
	Err        error
	Start, End time.Time
}

// Local addresses of the main namespace (see checks/main_test.go).
var (
	Local4 = netip.MustParseAddr("10.203.0.2")
	Local6 = netip.MustParseAddr("fd00:203::2")
)

// Target4 / Target6 return the per-worker target address.
func Target4(worker int) netip.Addr {
	return netip.AddrFrom4([4]byte{10, 204, byte(worker), 9})
}
func Target6(worker int) netip.Addr {
	return netip.MustParseAddr(fmt.Sprintf("fd00:204:%x::9", worker))
}

// TargetFor picks the target of a variant for a worker.
func TargetFor(v refmatch.Variant, worker int) netip.Addr {
	if v.V6 {
		return Target6(worker)
	}
	return Target4(worker)
}

// EffectivePoll is the poll interval the variant really uses.
func (s Spec) EffectivePoll() time.Duration {
	if s.V.Proto == "icmp" || s.V.Proto == "sack" {
		return s.Poll
	}
	return 100 * time.Millisecond
}

// Run executes the variant's real entry point.
func Run(s Spec) Result {
	ctx := s.Ctx
	if ctx == nil {
		ctx = context.Background()
	}
	pp := common.TracerouteParallelParams{TracerouteParams: common.TracerouteParams{
		MinTTL: s.MinTTL, MaxTTL: s.MaxTTL, TracerouteTimeout: s.Timeout, PollFrequency: s.Poll, SendDelay: s.Delay}}
	r := Result{Start: time.Now()}
	switch s.V.Proto {
	case "icmp":
		r.Run, r.Err = icmp.RunICMPTraceroute(ctx, icmp.Params{Target: s.Target, ParallelParams: pp})
	case "udp":
		var u *udp.UDPv4
		if s.Obj != nil && *s.Obj != nil {
			u = (*s.Obj).(*udp.UDPv4)
		} else {
			u = udp.NewUDPv4(targetIP(s), s.Port, s.MinTTL, s.MaxTTL, s.Delay, s.Timeout, false)
			u.LoosenICMPSrc = s.V.Relaxed
			if s.Obj != nil {
				*s.Obj = u
			}
		}
		r.Run, r.Err = u.Traceroute()
	case "syn":
		var t *tcp.TCPv4
		if s.Obj != nil && *s.Obj != nil {
			t = (*s.Obj).(*tcp.TCPv4)
		} else {
			t = tcp.NewTCPv4(targetIP(s), s.Port, s.MinTTL, s.MaxTTL, s.Delay, s.Timeout, s.V.Paris, false)
			t.LoosenICMPSrc = s.V.Relaxed
			if s.Obj != nil {
				*s.Obj = t
			}
		}
		r.Run, r.Err = t.Traceroute()
	case "sack":
		hs := s.HandshakeTimeout
		if hs == 0 {
			hs = s.Timeout
		}
		r.Run, r.Err = sack.RunSackTraceroute(ctx, sack.Params{Target: netip.AddrPortFrom(s.Target, s.Port), HandshakeTimeout: hs,
			FinTimeout: 500 * time.Millisecond, ParallelParams: pp, LoosenICMPSrc: s.V.Relaxed})
	default:
		panic("unknown proto " + s.V.Proto)
	}
	r.End = time.Now()
	return r
}

func targetIP(s Spec) net.IP {
	if s.Target16 && s.Target.Is4() {
		return net.IP(netip.AddrFrom16(s.Target.As16()).AsSlice())
	}
	return net.IP(s.Target.AsSlice())
}

// BuildFlow derives the flow identity from the emissions of handle h.
func BuildFlow(w *simnet.Wire, h *simnet.Handle, s Spec, isn uint32) *refmatch.Flow {
	f := &refmatch.Flow{V: s.V, Target: s.Target, TargetPort: s.Port, MinTTL: int(s.MinTTL), MaxTTL: int(s.MaxTTL), ISN: isn}
	if s.V.V6 {
		f.Local = Local6
	} else {
		f.Local = Local4
	}
	w.Lock()
	defer w.Unlock()
	for _, e := range w.Emissions {
		if e.Handle != h.Idx || e.Pkt == nil {
			continue
		}
		p := e.Pkt
		pr := &refmatch.Probe{TTL: int(p.TTL), SentAt: e.At, Tick: e.Tick, IPID: p.ID, Raw: e.Bytes}
		if len(f.Probes) == 0 {
			f.Local = p.Src
			f.LocalPort = p.SrcPort
			f.EchoID = p.EchoID
		}
		switch s.V.Proto {
		case "icmp":
			pr.Seq = uint32(p.EchoSeq)
			f.LocalPort = 0
		case "udp":
			pr.PLen = uint16(p.TotalLen - 40)
		case "syn", "sack":
			pr.Seq = p.Seq
		}
		f.Probes = append(f.Probes, pr)
	}
	return f
}

// ---------------------------------------------------------------------------------------------
// SACK peer: a real listener in the peer namespace plus the simulated SYN-ACK shown to the capture handle.

// SackPeer models the target of a SACK run.
type SackPeer struct {
	Addr netip.AddrPort
	ln   *net.TCPListener

	// behaviour
	ISN uint32 // becomes the driver's localInitSeq (the SYN-ACK's ack number)
	// ISNForPort, when set, gives each connection (identified by the tool's local port) its own initial sequence number
	ISNForPort func(port uint16) uint32
	// NoBlocks: handles listed here get plain ACKs (the harness model consults it)
	ISNs       map[int]uint32
	ServerISN  uint32
	SackPerm   bool
	TS         bool
	TSVal      uint32
	TSEcr      uint32
	ShowSynAck bool
	ExtraOpts  []byte
	// SynAckDelay delays the moment the SYN-ACK of the handshake reaches the capture handles
	SynAckDelay time.Duration
	// ExtraFlags are OR-ed into the SYN-ACK's flag byte (e.g. ECE 0x40 for an ECN-setup SYN-ACK)
	ExtraFlags uint8
	// BSDOptionOrder: timestamps come BEFORE SACK-permitted in the SYN-ACK (see synAckBytes)
	BSDOptionOrder bool

	mu       sync.Mutex
	conns    []net.Conn
	Accepted int
	pending  map[int]bool // handle idx awaiting the handshake
	// LocalPort learned from the accepted connection, per handle
	LocalPorts map[int]uint16
	SynAcks    map[int]*simnet.Frame
}

// inPeerNS runs fn on a locked OS thread switched to the peer namespace.
func inPeerNS(fn func() error) error {
	name := os.Getenv("VERIF_NS_PEER")
	if name == "" {
		return fn() // fallback: same namespace (loopback listener)
	}
	errc := make(chan error, 1)
	go func() {
		runtime.LockOSThread()
		orig, err := netns.Get()
		if err != nil {
			errc <- err
			return
		}
		defer orig.Close()
		peer, err := netns.GetFromName(name)
		if err != nil {
			errc <- err
			return
		}
		defer peer.Close()
		if err := netns.Set(peer); err != nil {
			errc <- err
			return
		}
		ferr := fn()
		if err := netns.Set(orig); err != nil {
			// thread is poisoned: never unlock it so the runtime kills it
			errc <- fmt.Errorf("cannot restore namespace: %w (fn err %v)", err, ferr)
			return
		}
		runtime.UnlockOSThread()
		errc <- ferr
	}()
	return <-errc
}

// ListenPeer opens a real TCP listener on addr in the peer namespace.
func ListenPeer(addr netip.AddrPort) (*SackPeer, error) {
	p := &SackPeer{Addr: addr, SackPerm: true, ShowSynAck: true, pending: map[int]bool{}, LocalPorts: map[int]uint16{}, SynAcks: map[int]*simnet.Frame{}}
	err := inPeerNS(func() error {
		ln, err := net.ListenTCP("tcp4", net.TCPAddrFromAddrPort(addr))
		if err != nil {
			return err
		}
		p.ln = ln
		return nil
	})
	if err != nil {
		return nil, err
	}
	return p, nil
}

// Close closes the listener and every accepted connection.
func (p *SackPeer) Close() {
	p.mu.Lock()
	defer p.mu.Unlock()
	if p.ln != nil {
		p.ln.Close()
	}
	for _, c := range p.conns {
		c.Close()
	}
}

// AcceptedCount drains the accept queue (non-blocking) and returns how many connections arrived in total.
func (p *SackPeer) AcceptedCount() int {
	p.mu.Lock()
	defer p.mu.Unlock()
	for {
		p.ln.SetDeadline(time.Now().Add(-time.Second))
		c, err := p.ln.Accept()
		if err != nil {
			break
		}
		p.conns = append(p.conns, c)
		p.Accepted++
	}
	return p.Accepted
}

// AcceptOne accepts one connection (blocking up to d) and returns the tool's local port.
func (p *SackPeer) AcceptOne(d time.Duration) (uint16, error) {
	p.ln.SetDeadline(time.Now().Add(d))
	c, err := p.ln.Accept()
	if err != nil {
		return 0, err
	}
	p.mu.Lock()
	p.conns = append(p.conns, c)
	p.Accepted++
	p.mu.Unlock()
	return c.RemoteAddr().(*net.TCPAddr).AddrPort().Port(), nil
}

// OnFilter must be chained into Wire.OnFilter.
func (p *SackPeer) OnFilter(h *simnet.Handle, spec packets.PacketFilterSpec) {
	if spec.FilterType == packets.FilterTypeSYNACK && h.Target == p.Addr.Addr() {
		p.mu.Lock()
		p.pending[h.Idx] = true
		p.mu.Unlock()
	}
}

// SynAckBytes builds the simulated SYN-ACK for local port lp.
func (p *SackPeer) SynAckBytes(local netip.Addr, lp uint16) []byte {
	return p.synAckBytes(local, lp, p.ISN)
}

func (p *SackPeer) synAckBytes(local netip.Addr, lp uint16, isn uint32) []byte {
	var opts []byte
	if p.BSDOptionOrder {
		// the order BSD-derived stacks (macOS, FreeBSD) use: MSS, NOP, window scale, NOP, NOP, timestamps, SACK-permitted, EOL
		opts = append(opts, wirefmt.OptMSS(1460)...)
		opts = append(opts, 1)
		opts = append(opts, wirefmt.OptWS(6)...)
		opts = append(opts, 1, 1)
		opts = append(opts, wirefmt.OptTS(p.TSVal, p.TSEcr)...)
		if p.SackPerm {
			opts = append(opts, wirefmt.OptSackPerm()...)
		}
		opts = append(opts, 0, 0)
		seg := wirefmt.TCP{SrcPort: p.Addr.Port(), DstPort: lp, Seq: p.ServerISN, Ack: isn, Flags: wirefmt.TCPSyn | wirefmt.TCPAck | p.ExtraFlags, Window: 65535, Options: opts}.Marshal(p.Addr.Addr(), local)
		return wirefmt.IPv4{TTL: 64, Proto: wirefmt.ProtoTCP, Src: p.Addr.Addr(), Dst: local, Flags: 2}.Marshal(seg)
	}
	opts = append(opts, wirefmt.OptMSS(1460)...)
	if p.SackPerm {
		opts = append(opts, wirefmt.OptSackPerm()...)
	}
	if p.TS {
		opts = append(opts, wirefmt.OptTS(p.TSVal, p.TSEcr)...)
	}
	opts = append(opts, wirefmt.OptNop()...)
	opts = append(opts, wirefmt.OptWS(7)...)
	opts = append(opts, p.ExtraOpts...)
	seg := wirefmt.TCP{SrcPort: p.Addr.Port(), DstPort: lp, Seq: p.ServerISN, Ack: isn, Flags: wirefmt.TCPSyn | wirefmt.TCPAck | p.ExtraFlags, Window: 65160, Options: opts}.Marshal(p.Addr.Addr(), local)
	return wirefmt.IPv4{TTL: 64, Proto: wirefmt.ProtoTCP, Src: p.Addr.Addr(), Dst: local, Flags: 2}.Marshal(seg)
}

// LocalPort returns the tool's local port of the connection accepted for handle idx (0 when none was accepted).
func (p *SackPeer) LocalPort(idx int) uint16 {
	p.mu.Lock()
	defer p.mu.Unlock()
	return p.LocalPorts[idx]
}

// OnReadStart must be chained into Wire.OnReadStart: at the first read after the SYN-ACK filter was
// installed the dial has completed, so the connection is in the accept queue; its remote address is
// the tool's local address and port.
func (p *SackPeer) OnReadStart(w *simnet.Wire, h *simnet.Handle) { p.synAckNow(w, h) }

// OnBeforeFilter must be chained into Wire.OnBeforeFilter: when the tool replaces the SYN-ACK filter, the dial has
// returned, so on a real interface the SYN-ACK has long been queued on the capture socket - it is queued here before
// the new filter (and the drain that goes with installing it) takes effect.
func (p *SackPeer) OnBeforeFilter(w *simnet.Wire, h *simnet.Handle, spec packets.PacketFilterSpec) {
	if spec.FilterType != packets.FilterTypeSYNACK {
		p.synAckNow(w, h)
	}
}

func (p *SackPeer) synAckNow(w *simnet.Wire, h *simnet.Handle) {
	p.mu.Lock()
	if !p.pending[h.Idx] {
		p.mu.Unlock()
		return
	}
	delete(p.pending, h.Idx)
	p.ln.SetDeadline(time.Now().Add(2 * time.Second))
	c, err := p.ln.Accept()
	if err != nil {
		p.mu.Unlock()
		return
	}
	p.conns = append(p.conns, c)
	p.Accepted++
	ra := c.RemoteAddr().(*net.TCPAddr).AddrPort()
	p.LocalPorts[h.Idx] = ra.Port()
	show := p.ShowSynAck
	p.mu.Unlock()
	isn := p.ISN
	if p.ISNForPort != nil {
		isn = p.ISNForPort(ra.Port())
	}
	if show {
		// the accepted connection is not necessarily the one of the handle that is reading right now (several
		// SACK runs at once): like on a real interface, every capture handle sees the SYN-ACK
		f := w.NewFrame(p.synAckBytes(ra.Addr().Unmap(), ra.Port(), isn), "handshake", nil)
		p.mu.Lock()
		p.SynAcks[h.Idx] = f
		p.mu.Unlock()
		w.Deliver(f, p.SynAckDelay, nil)
	}
}
