// Package wirefmt is an independent (no gopacket) encoder, decoder and checksum verifier for the
// IPv4/IPv6/ICMPv4/ICMPv6/UDP/TCP subset that traceroute probes and replies use. It is the trusted
// bridge between the abstract reply descriptions of the reference matcher and the bytes the real
// code parses, and the verifier of every probe the real code emits.
package wirefmt

import (
	"encoding/binary"
	"errors"
	"fmt"
	"net/netip"
)

const (
	ProtoICMP   = 1
	ProtoTCP    = 6
	ProtoUDP    = 17
	ProtoICMPv6 = 58
	ProtoFrag6  = 44
)

const (
	TCPFin = 0x01
	TCPSyn = 0x02
	TCPRst = 0x04
	TCPPsh = 0x08
	TCPAck = 0x10
	TCPUrg = 0x20
)

// Sum16 is the Internet checksum accumulator over data (not folded/complemented).
func sum16(data []byte, acc uint32) uint32 {
	n := len(data)
	for i := 0; i+1 < n; i += 2 {
		acc += uint32(data[i])<<8 | uint32(data[i+1])
	}
	if n%2 == 1 {
		acc += uint32(data[n-1]) << 8
	}
	return acc
}

func fold(acc uint32) uint16 {
	for acc>>16 != 0 {
		acc = (acc & 0xffff) + (acc >> 16)
	}
	return ^uint16(acc)
}

// Checksum computes the Internet checksum of data.
func Checksum(data []byte) uint16 { return fold(sum16(data, 0)) }

func pseudoSum(src, dst netip.Addr, proto uint8, l4len int) uint32 {
	var acc uint32
	acc = sum16(src.AsSlice(), acc)
	acc = sum16(dst.AsSlice(), acc)
	if src.Is4() {
		acc += uint32(proto)
		acc += uint32(l4len)
	} else {
		acc += uint32(l4len>>16) + uint32(l4len&0xffff)
		acc += uint32(proto)
	}
	return acc
}

// L4Checksum computes the checksum of an L4 segment (checksum field must be zero in seg) with pseudo header.
func L4Checksum(src, dst netip.Addr, proto uint8, seg []byte) uint16 {
	return fold(sum16(seg, pseudoSum(src, dst, proto, len(seg))))
}

// IPv4 describes an IPv4 header to encode.
type IPv4 struct {
	TOS      uint8
	ID       uint16
	Flags    uint8 // 3 bits: bit1 = DF (0x2), bit0 = MF (0x1)
	FragOff  uint16
	TTL      uint8
	Proto    uint8
	Src, Dst netip.Addr
	Options  []byte // padded with EOL(0) to multiple of 4 by Marshal
	// Overrides for hostile/rewritten headers
	TotalLen *uint16
	Checksum *uint16
	IHL      *uint8
	Version  *uint8
}

// Marshal encodes header+payload.
func (h IPv4) Marshal(payload []byte) []byte {
	opts := append([]byte(nil), h.Options...)
	for len(opts)%4 != 0 {
		opts = append(opts, 0)
	}
	hl := 20 + len(opts)
	b := make([]byte, hl+len(payload))
	ihl := uint8(hl / 4)
	if h.IHL != nil {
		ihl = *h.IHL
	}
	ver := uint8(4)
	if h.Version != nil {
		ver = *h.Version
	}
	b[0] = ver<<4 | ihl&0xf
	b[1] = h.TOS
	tl := uint16(hl + len(payload))
	if h.TotalLen != nil {
		tl = *h.TotalLen
	}
	binary.BigEndian.PutUint16(b[2:], tl)
	binary.BigEndian.PutUint16(b[4:], h.ID)
	binary.BigEndian.PutUint16(b[6:], uint16(h.Flags&7)<<13|h.FragOff&0x1fff)
	b[8] = h.TTL
	b[9] = h.Proto
	s4 := h.Src.As4()
	d4 := h.Dst.As4()
	copy(b[12:16], s4[:])
	copy(b[16:20], d4[:])
	copy(b[20:], opts)
	if h.Checksum != nil {
		binary.BigEndian.PutUint16(b[10:], *h.Checksum)
	} else {
		binary.BigEndian.PutUint16(b[10:], Checksum(b[:hl]))
	}
	copy(b[hl:], payload)
	return b
}

// IPv6 describes an IPv6 fixed header to encode.
type IPv6 struct {
	TC         uint8
	Flow       uint32
	NextHeader uint8
	HopLimit   uint8
	Src, Dst   netip.Addr
	PayloadLen *uint16
	Version    *uint8
}

// Marshal encodes header+payload.
func (h IPv6) Marshal(payload []byte) []byte {
	b := make([]byte, 40+len(payload))
	ver := uint8(6)
	if h.Version != nil {
		ver = *h.Version
	}
	binary.BigEndian.PutUint32(b[0:], uint32(ver)<<28|uint32(h.TC)<<20|h.Flow&0xfffff)
	pl := uint16(len(payload))
	if h.PayloadLen != nil {
		pl = *h.PayloadLen
	}
	binary.BigEndian.PutUint16(b[4:], pl)
	b[6] = h.NextHeader
	b[7] = h.HopLimit
	s := h.Src.As16()
	d := h.Dst.As16()
	copy(b[8:24], s[:])
	copy(b[24:40], d[:])
	copy(b[40:], payload)
	return b
}

// ICMPv4 builds an ICMPv4 message with a correct checksum. rest is the 4 bytes after the checksum.
func ICMPv4(typ, code uint8, rest [4]byte, body []byte) []byte {
	b := make([]byte, 8+len(body))
	b[0], b[1] = typ, code
	copy(b[4:8], rest[:])
	copy(b[8:], body)
	binary.BigEndian.PutUint16(b[2:], Checksum(b))
	return b
}

// ICMPv6 builds an ICMPv6 message with a correct pseudo-header checksum.
func ICMPv6(src, dst netip.Addr, typ, code uint8, rest [4]byte, body []byte) []byte {
	b := make([]byte, 8+len(body))
	b[0], b[1] = typ, code
	copy(b[4:8], rest[:])
	copy(b[8:], body)
	binary.BigEndian.PutUint16(b[2:], L4Checksum(src, dst, ProtoICMPv6, b))
	return b
}

// TCP describes a TCP segment.
type TCP struct {
	SrcPort, DstPort uint16
	Seq, Ack         uint32
	Flags            uint8
	Window           uint16
	Urgent           uint16
	Options          []byte // padded with NOP... EOL by Marshal to multiple of 4
	Payload          []byte
	DataOff          *uint8
	Checksum         *uint16
}

// Marshal encodes the segment with pseudo header checksum for src/dst.
func (t TCP) Marshal(src, dst netip.Addr) []byte {
	opts := append([]byte(nil), t.Options...)
	for len(opts)%4 != 0 {
		opts = append(opts, 0)
	}
	hl := 20 + len(opts)
	b := make([]byte, hl+len(t.Payload))
	binary.BigEndian.PutUint16(b[0:], t.SrcPort)
	binary.BigEndian.PutUint16(b[2:], t.DstPort)
	binary.BigEndian.PutUint32(b[4:], t.Seq)
	binary.BigEndian.PutUint32(b[8:], t.Ack)
	do := uint8(hl / 4)
	if t.DataOff != nil {
		do = *t.DataOff
	}
	b[12] = do << 4
	b[13] = t.Flags
	binary.BigEndian.PutUint16(b[14:], t.Window)
	binary.BigEndian.PutUint16(b[18:], t.Urgent)
	copy(b[20:], opts)
	copy(b[hl:], t.Payload)
	if t.Checksum != nil {
		binary.BigEndian.PutUint16(b[16:], *t.Checksum)
	} else {
		binary.BigEndian.PutUint16(b[16:], L4Checksum(src, dst, ProtoTCP, b))
	}
	return b
}

// TCP option builders.
func OptMSS(v uint16) []byte { return []byte{2, 4, byte(v >> 8), byte(v)} }
func OptWS(s uint8) []byte   { return []byte{3, 3, s} }
func OptSackPerm() []byte    { return []byte{4, 2} }
func OptNop() []byte         { return []byte{1} }
func OptTS(val, ecr uint32) []byte {
	b := make([]byte, 10)
	b[0], b[1] = 8, 10
	binary.BigEndian.PutUint32(b[2:], val)
	binary.BigEndian.PutUint32(b[6:], ecr)
	return b
}

// OptSack builds a SACK option with the given (left,right) edges.
func OptSack(blocks [][2]uint32) []byte {
	b := make([]byte, 2+8*len(blocks))
	b[0], b[1] = 5, byte(len(b))
	for i, bl := range blocks {
		binary.BigEndian.PutUint32(b[2+8*i:], bl[0])
		binary.BigEndian.PutUint32(b[6+8*i:], bl[1])
	}
	return b
}

// UDP builds a UDP datagram with checksum.
func UDP(src, dst netip.Addr, sport, dport uint16, payload []byte) []byte {
	b := make([]byte, 8+len(payload))
	binary.BigEndian.PutUint16(b[0:], sport)
	binary.BigEndian.PutUint16(b[2:], dport)
	binary.BigEndian.PutUint16(b[4:], uint16(len(b)))
	copy(b[8:], payload)
	ck := L4Checksum(src, dst, ProtoUDP, b)
	if ck == 0 {
		ck = 0xffff
	}
	binary.BigEndian.PutUint16(b[6:], ck)
	return b
}

// ---------------------------------------------------------------------------------------------
// Decoder / verifier

// Packet is a decoded IP packet (first fragment only matters here).
type Packet struct {
	Raw     []byte
	Version int
	IHL     int // bytes (v4) / 40 (v6)
	TOS     uint8
	// FlowLabel: the 20-bit IPv6 flow label (0 for IPv4): with the addresses it is what IPv6 routers hash a flow on
	FlowLabel uint32
	TotalLen  int // v4 total length; v6 40+payload length
	ID        uint16
	Flags     uint8
	FragOff   uint16
	TTL       uint8
	Proto     uint8
	Src, Dst  netip.Addr
	IPOpts    []byte
	Payload   []byte // L4 bytes

	// L4 (filled when recognised)
	ICMPType, ICMPCode uint8
	ICMPRest           [4]byte
	ICMPBody           []byte
	EchoID, EchoSeq    uint16

	SrcPort, DstPort uint16
	UDPLen           int
	UDPPayload       []byte

	Seq, Ack   uint32
	TCPFlags   uint8
	TCPDataOff int
	TCPOpts    []byte
	TCPPayload []byte
	Window     uint16
}

// Parse decodes an IP packet strictly; any structural problem is an error (used to verify probes).
func Parse(b []byte) (*Packet, error) {
	if len(b) < 1 {
		return nil, errors.New("empty")
	}
	p := &Packet{Raw: append([]byte(nil), b...)}
	b = p.Raw
	p.Version = int(b[0] >> 4)
	switch p.Version {
	case 4:
		if len(b) < 20 {
			return nil, errors.New("short ipv4 header")
		}
		p.IHL = int(b[0]&0xf) * 4
		if p.IHL < 20 || p.IHL > len(b) {
			return nil, fmt.Errorf("bad ihl %d", p.IHL)
		}
		p.TOS = b[1]
		p.TotalLen = int(binary.BigEndian.Uint16(b[2:]))
		if p.TotalLen != len(b) {
			return nil, fmt.Errorf("ipv4 total length %d != buffer %d", p.TotalLen, len(b))
		}
		p.ID = binary.BigEndian.Uint16(b[4:])
		fo := binary.BigEndian.Uint16(b[6:])
		p.Flags = uint8(fo >> 13)
		p.FragOff = fo & 0x1fff
		p.TTL = b[8]
		p.Proto = b[9]
		if Checksum(b[:p.IHL]) != 0 {
			return nil, errors.New("bad ipv4 header checksum")
		}
		p.Src = netip.AddrFrom4([4]byte(b[12:16]))
		p.Dst = netip.AddrFrom4([4]byte(b[16:20]))
		p.IPOpts = b[20:p.IHL]
		p.Payload = b[p.IHL:]
	case 6:
		if len(b) < 40 {
			return nil, errors.New("short ipv6 header")
		}
		p.IHL = 40
		w := binary.BigEndian.Uint32(b[0:])
		p.TOS = uint8(w >> 20)
		p.FlowLabel = w & 0xfffff
		pl := int(binary.BigEndian.Uint16(b[4:]))
		p.TotalLen = 40 + pl
		if p.TotalLen != len(b) {
			return nil, fmt.Errorf("ipv6 payload length %d != buffer-40 %d", pl, len(b)-40)
		}
		p.Proto = b[6]
		p.TTL = b[7]
		p.Src = netip.AddrFrom16([16]byte(b[8:24]))
		p.Dst = netip.AddrFrom16([16]byte(b[24:40]))
		p.Payload = b[40:]
	default:
		return nil, fmt.Errorf("bad ip version %d", p.Version)
	}
	l4 := p.Payload
	switch p.Proto {
	case ProtoICMP:
		if p.Version != 4 {
			return nil, errors.New("icmpv4 in ipv6")
		}
		if len(l4) < 8 {
			return nil, errors.New("short icmp")
		}
		if Checksum(l4) != 0 {
			return nil, errors.New("bad icmp checksum")
		}
		p.parseICMP(l4)
	case ProtoICMPv6:
		if p.Version != 6 {
			return nil, errors.New("icmpv6 in ipv4")
		}
		if len(l4) < 8 {
			return nil, errors.New("short icmpv6")
		}
		if fold(sum16(l4, pseudoSum(p.Src, p.Dst, ProtoICMPv6, len(l4)))) != 0 {
			return nil, errors.New("bad icmpv6 checksum")
		}
		p.parseICMP(l4)
	case ProtoUDP:
		if len(l4) < 8 {
			return nil, errors.New("short udp")
		}
		p.SrcPort = binary.BigEndian.Uint16(l4[0:])
		p.DstPort = binary.BigEndian.Uint16(l4[2:])
		p.UDPLen = int(binary.BigEndian.Uint16(l4[4:]))
		if p.UDPLen != len(l4) {
			return nil, fmt.Errorf("udp length %d != %d", p.UDPLen, len(l4))
		}
		ck := binary.BigEndian.Uint16(l4[6:])
		if ck == 0 && p.Version == 6 {
			return nil, errors.New("zero udp checksum over ipv6")
		}
		if ck != 0 {
			if s := fold(sum16(l4, pseudoSum(p.Src, p.Dst, ProtoUDP, len(l4)))); s != 0 {
				return nil, errors.New("bad udp checksum")
			}
		}
		p.UDPPayload = l4[8:]
	case ProtoTCP:
		if len(l4) < 20 {
			return nil, errors.New("short tcp")
		}
		p.SrcPort = binary.BigEndian.Uint16(l4[0:])
		p.DstPort = binary.BigEndian.Uint16(l4[2:])
		p.Seq = binary.BigEndian.Uint32(l4[4:])
		p.Ack = binary.BigEndian.Uint32(l4[8:])
		p.TCPDataOff = int(l4[12]>>4) * 4
		if p.TCPDataOff < 20 || p.TCPDataOff > len(l4) {
			return nil, fmt.Errorf("bad tcp data offset %d", p.TCPDataOff)
		}
		p.TCPFlags = l4[13]
		p.Window = binary.BigEndian.Uint16(l4[14:])
		if fold(sum16(l4, pseudoSum(p.Src, p.Dst, ProtoTCP, len(l4)))) != 0 {
			return nil, errors.New("bad tcp checksum")
		}
		p.TCPOpts = l4[20:p.TCPDataOff]
		p.TCPPayload = l4[p.TCPDataOff:]
		if err := checkTCPOptions(p.TCPOpts); err != nil {
			return nil, err
		}
	default:
		return nil, fmt.Errorf("unexpected protocol %d", p.Proto)
	}
	return p, nil
}

func (p *Packet) parseICMP(l4 []byte) {
	p.ICMPType, p.ICMPCode = l4[0], l4[1]
	copy(p.ICMPRest[:], l4[4:8])
	p.ICMPBody = l4[8:]
	p.EchoID = binary.BigEndian.Uint16(l4[4:])
	p.EchoSeq = binary.BigEndian.Uint16(l4[6:])
}

func checkTCPOptions(o []byte) error {
	for i := 0; i < len(o); {
		switch o[i] {
		case 0:
			return nil
		case 1:
			i++
		default:
			if i+1 >= len(o) {
				return errors.New("truncated tcp option")
			}
			l := int(o[i+1])
			if l < 2 || i+l > len(o) {
				return fmt.Errorf("bad tcp option length %d", l)
			}
			i += l
		}
	}
	return nil
}

// TCPOption returns the data of the first option of the given kind.
func TCPOption(o []byte, kind uint8) ([]byte, bool) {
	for i := 0; i < len(o); {
		switch o[i] {
		case 0:
			return nil, false
		case 1:
			i++
		default:
			if i+1 >= len(o) {
				return nil, false
			}
			l := int(o[i+1])
			if l < 2 || i+l > len(o) {
				return nil, false
			}
			if o[i] == kind {
				return o[i+2 : i+l], true
			}
			i += l
		}
	}
	return nil, false
}
