// Package scripted is a harness implementation of common.TracerouteDriver whose replies follow a
// script; it records, at its own boundary, every send and every reply it hands to the engine.
package scripted

import (
	"errors"
	"fmt"
	"net/netip"
	"os"
	"runtime"
	"sort"
	"sync"
	"time"

	"github.com/DataDog/datadog-traceroute/common"
)

// Reply is one scripted reply.
type Reply struct {
	At   time.Duration // offset from driver start (absolute mode) or from the send of TTL (relative mode)
	Rel  bool          // At is relative to the send instant of probe TTL (never handed out before that send)
	TTL  uint8
	Dest bool
	Addr netip.Addr
	// RTT, when > 0, is the round-trip time the driver reports for this reply instead of (now - send): what a driver
	// reports is its own business (kernel timestamps, a second responder that is nearer), the engine must not look at it
	RTT time.Duration
	// Err, when set, is returned instead of a reply (fatal error injection)
	Err error
	// Bad makes ReceiveProbe return a retryable BadPacketError / no-match instead of a reply
	Bad  int // 0 none, 1 BadPacketError, 2 ErrPacketDidNotMatchTraceroute, 3 / 4 the same wrapped with %w
	seq  int
	used bool
	due  time.Time
}

// Event is one boundary event.
type Event struct {
	Kind string // send, reply, nopkt, bad, err
	At   time.Duration
	TTL  uint8
	Dest bool
	Addr netip.Addr
	RTT  time.Duration
}

// Driver is the scripted driver.
type Driver struct {
	Parallel bool
	// Jitter > 0 inserts Gosched/µs sleeps at the driver boundaries (real-goroutine schedule stress)
	Jitter  func() time.Duration
	SendErr map[uint8]error
	// SendCost > 0: every SendProbe takes that long (a sink that blocks: full send buffer, slow raw socket)
	SendCost time.Duration
	// BlockSend, when non-nil, makes SendProbe wait for the channel (stall injection)
	mu      sync.Mutex
	start   time.Time
	started bool
	script  []*Reply
	sends   map[uint8]time.Time
	Events  []Event
	wake    chan struct{}
}

func New(parallel bool, script []Reply) *Driver {
	d := &Driver{Parallel: parallel, sends: map[uint8]time.Time{}, wake: make(chan struct{}, 1)}
	for i := range script {
		r := script[i]
		r.seq = i
		d.script = append(d.script, &r)
	}
	return d
}

func (d *Driver) begin() {
	if !d.started {
		d.started = true
		d.start = time.Now()
		for _, r := range d.script {
			if !r.Rel {
				r.due = d.start.Add(r.At)
			}
		}
	}
}

func (d *Driver) GetDriverInfo() common.TracerouteDriverInfo {
	return common.TracerouteDriverInfo{SupportsParallel: d.Parallel}
}

func (d *Driver) jitter() {
	if d.Jitter != nil {
		if j := d.Jitter(); j > 0 {
			time.Sleep(j)
		} else {
			runtime.Gosched()
		}
	}
}

func (d *Driver) SendProbe(ttl uint8) error {
	d.jitter()
	d.mu.Lock()
	defer d.mu.Unlock()
	d.begin()
	now := time.Now()
	if err := d.SendErr[ttl]; err != nil {
		d.Events = append(d.Events, Event{Kind: "senderr", At: now.Sub(d.start), TTL: ttl})
		return err
	}
	if _, dup := d.sends[ttl]; dup {
		d.Events = append(d.Events, Event{Kind: "dupsend", At: now.Sub(d.start), TTL: ttl})
		return fmt.Errorf("scripted: TTL %d sent twice", ttl)
	}
	d.sends[ttl] = now
	for _, r := range d.script {
		if r.Rel && r.TTL == ttl && r.due.IsZero() {
			r.due = now.Add(r.At)
		}
	}
	d.Events = append(d.Events, Event{Kind: "send", At: now.Sub(d.start), TTL: ttl})
	select {
	case d.wake <- struct{}{}:
	default:
	}
	if d.SendCost > 0 {
		d.mu.Unlock()
		time.Sleep(d.SendCost)
		d.mu.Lock()
	}
	return nil
}

func (d *Driver) next() *Reply {
	var cand []*Reply
	for _, r := range d.script {
		if !r.used && !r.due.IsZero() {
			cand = append(cand, r)
		}
	}
	if len(cand) == 0 {
		return nil
	}
	sort.SliceStable(cand, func(i, j int) bool {
		if !cand[i].due.Equal(cand[j].due) {
			return cand[i].due.Before(cand[j].due)
		}
		return cand[i].seq < cand[j].seq
	})
	return cand[0]
}

func (d *Driver) ReceiveProbe(timeout time.Duration) (*common.ProbeResponse, error) {
	d.jitter()
	d.mu.Lock()
	d.begin()
	deadline := time.Now().Add(timeout)
	for {
		now := time.Now()
		r := d.next()
		if r != nil && !r.due.After(now) {
			r.used = true
			at := now.Sub(d.start)
			if r.Err != nil {
				d.Events = append(d.Events, Event{Kind: "err", At: at})
				d.mu.Unlock()
				return nil, r.Err
			}
			if r.Bad == 1 {
				d.Events = append(d.Events, Event{Kind: "bad", At: at})
				d.mu.Unlock()
				return nil, &common.BadPacketError{Err: errors.New("scripted bad packet")}
			}
			if r.Bad == 2 {
				d.Events = append(d.Events, Event{Kind: "bad", At: at})
				d.mu.Unlock()
				return nil, common.ErrPacketDidNotMatchTraceroute
			}
			if r.Bad == 3 || r.Bad == 4 {
				// the same two retryable classes with context added by an intermediate layer (%w), as the capture
				// layers of some platforms and any driver that annotates its errors produce them
				d.Events = append(d.Events, Event{Kind: "bad", At: at})
				d.mu.Unlock()
				if r.Bad == 3 {
					return nil, fmt.Errorf("scripted driver: read: %w", &common.BadPacketError{Err: errors.New("scripted bad packet")})
				}
				return nil, fmt.Errorf("scripted driver: read: %w", common.ErrPacketDidNotMatchTraceroute)
			}
			rtt := time.Duration(0)
			if s, ok := d.sends[r.TTL]; ok {
				rtt = now.Sub(s)
			}
			if r.RTT > 0 {
				rtt = r.RTT
			}
			d.Events = append(d.Events, Event{Kind: "reply", At: at, TTL: r.TTL, Dest: r.Dest, Addr: r.Addr, RTT: rtt})
			d.mu.Unlock()
			d.jitter()
			return &common.ProbeResponse{TTL: r.TTL, IP: r.Addr, RTT: rtt, IsDest: r.Dest}, nil
		}
		if !now.Before(deadline) {
			d.Events = append(d.Events, Event{Kind: "nopkt", At: now.Sub(d.start)})
			d.mu.Unlock()
			return nil, &common.ReceiveProbeNoPktError{Err: os.ErrDeadlineExceeded}
		}
		wait := deadline.Sub(now)
		if r != nil && r.due.Before(deadline) {
			wait = r.due.Sub(now)
		}
		d.mu.Unlock()
		// relative replies may become due through a later send: SendProbe wakes us
		t := time.NewTimer(wait)
		select {
		case <-t.C:
		case <-d.wake:
			t.Stop()
		}
		d.mu.Lock()
	}
}

// Unused returns the scripted replies that were never handed out although they were due at or before `by`
// (offset from the driver start).
func (d *Driver) Unused(by time.Duration) []Reply {
	d.mu.Lock()
	defer d.mu.Unlock()
	var out []Reply
	for _, r := range d.script {
		if !r.used && !r.due.IsZero() && !r.due.After(d.start.Add(by)) && r.Err == nil && r.Bad == 0 {
			out = append(out, *r)
		}
	}
	return out
}

// Snapshot returns a copy of the event log.
func (d *Driver) Snapshot() []Event {
	d.mu.Lock()
	defer d.mu.Unlock()
	return append([]Event(nil), d.Events...)
}

// Fold is the reference merge: first accepted reply per TTL wins, a destination reply replaces a
// non-destination one; then clip after the lowest destination TTL and below first.
// serial=true uses the serial engine's documented behaviour (latest reply for a TTL is kept).
func Fold(events []Event, first, last uint8, serial bool) []*Event {
	res := make([]*Event, int(last)+1)
	for i := range events {
		e := &events[i]
		if e.Kind != "reply" {
			continue
		}
		prev := res[e.TTL]
		if serial {
			res[e.TTL] = e
			continue
		}
		if prev == nil || (!prev.Dest && e.Dest) {
			res[e.TTL] = e
		}
	}
	end := int(last)
	for t := 0; t <= int(last); t++ {
		if res[t] != nil && res[t].Dest {
			end = t
			break
		}
	}
	return res[int(first) : end+1]
}
