// Package gen builds the reply frames real devices produce (and perturbations of them) with wirefmt.
package gen

import (
	"encoding/binary"
	"net/netip"

	"verif/harness/refmatch"
	"verif/harness/wirefmt"
)

// QuoteBytes returns probe p as a router at the expiry hop would quote it: TTL/hop-limit rewritten,
// IPv4 header checksum per mode ("fix" recomputed, "stale" left as sent, "zero").
func QuoteBytes(p *refmatch.Probe, ttl uint8, cksum string) []byte {
	q := append([]byte(nil), p.Raw...)
	if len(q) == 0 {
		return q
	}
	if q[0]>>4 == 4 {
		q[8] = ttl
		FixIPv4Checksum(q, cksum)
	} else {
		q[7] = ttl
	}
	return q
}

// FixIPv4Checksum rewrites the header checksum of an IPv4 datagram in place.
func FixIPv4Checksum(q []byte, mode string) {
	if len(q) < 20 || q[0]>>4 != 4 {
		return
	}
	hl := int(q[0]&0xf) * 4
	if hl < 20 || hl > len(q) {
		return
	}
	switch mode {
	case "stale":
	case "zero":
		q[10], q[11] = 0, 0
	default:
		q[10], q[11] = 0, 0
		ck := wirefmt.Checksum(q[:hl])
		binary.BigEndian.PutUint16(q[10:], ck)
	}
}

// quoteHL returns the header length of the quoted datagram.
func quoteHL(q []byte) int {
	if len(q) > 0 && q[0]>>4 == 6 {
		return 40
	}
	if len(q) > 0 {
		return int(q[0]&0xf) * 4
	}
	return 0
}

// mplsExt is an RFC 4950 MPLS label stack object inside an RFC 4884 extension structure.
func mplsExt() []byte {
	ext := []byte{0x20, 0x00, 0x00, 0x00, 0x00, 0x08, 0x01, 0x01, 0x00, 0x3e, 0x81, 0x01}
	ck := wirefmt.Checksum(ext)
	binary.BigEndian.PutUint16(ext[2:], ck)
	return ext
}

// Error type selectors.
const (
	TimeExceeded = iota
	DestUnreach
)

// WrapError builds an ICMP error (v4 or v6 by from's family) quoting `quote`.
// style: "min" (header + 8 bytes), "full" (whole datagram), "ext" (128-byte padded original datagram +
// RFC 4884 length field + MPLS extension object).
func WrapError(from, to netip.Addr, kind int, code uint8, quote []byte, style string, outerOpts []byte, outerTTL uint8) []byte {
	v6 := from.Is6() && !from.Is4In6()
	q := quote
	var rest [4]byte
	switch style {
	case "min":
		if n := quoteHL(q) + 8; n < len(q) {
			q = q[:n]
		}
	case "ext":
		orig := make([]byte, 128)
		copy(orig, q)
		if v6 {
			rest[0] = 128 / 8
		} else {
			rest[1] = 128 / 4
		}
		q = append(orig, mplsExt()...)
	}
	if outerTTL == 0 {
		outerTTL = 250
	}
	if v6 {
		typ := uint8(3)
		if kind == DestUnreach {
			typ = 1
		}
		msg := wirefmt.ICMPv6(from, to, typ, code, rest, q)
		return wirefmt.IPv6{NextHeader: wirefmt.ProtoICMPv6, HopLimit: outerTTL, Src: from, Dst: to}.Marshal(msg)
	}
	typ := uint8(11)
	if kind == DestUnreach {
		typ = 3
	}
	msg := wirefmt.ICMPv4(typ, code, rest, q)
	return wirefmt.IPv4{TOS: 0xc0, ID: 0x1234, TTL: outerTTL, Proto: wirefmt.ProtoICMP, Src: from, Dst: to, Options: outerOpts}.Marshal(msg)
}

// EchoReply builds an echo reply.
func EchoReply(from, to netip.Addr, id, seq uint16, payload []byte, outerOpts []byte) []byte {
	var rest [4]byte
	binary.BigEndian.PutUint16(rest[0:], id)
	binary.BigEndian.PutUint16(rest[2:], seq)
	if from.Is6() && !from.Is4In6() {
		msg := wirefmt.ICMPv6(from, to, 129, 0, rest, payload)
		return wirefmt.IPv6{NextHeader: wirefmt.ProtoICMPv6, HopLimit: 60, Src: from, Dst: to}.Marshal(msg)
	}
	msg := wirefmt.ICMPv4(0, 0, rest, payload)
	return wirefmt.IPv4{ID: 0x4321, TTL: 60, Proto: wirefmt.ProtoICMP, Src: from, Dst: to, Options: outerOpts}.Marshal(msg)
}

// TCPReply builds an IPv4 TCP segment from -> to.
func TCPReply(from, to netip.Addr, sport, dport uint16, seq, ack uint32, flags uint8, opts, payload, outerOpts []byte) []byte {
	seg := wirefmt.TCP{SrcPort: sport, DstPort: dport, Seq: seq, Ack: ack, Flags: flags, Window: 64240, Options: opts, Payload: payload}.Marshal(from, to)
	return wirefmt.IPv4{ID: 0, Flags: 2, TTL: 61, Proto: wirefmt.ProtoTCP, Src: from, Dst: to, Options: outerOpts}.Marshal(seg)
}

// Outer IPv4 option sets (IHL 6, 8, 15).
func OuterOpts(kind int) []byte {
	switch kind {
	case 1:
		return []byte{1, 1, 1, 1} // 4 NOPs, IHL 6
	case 2:
		return []byte{7, 11, 4, 0, 0, 0, 0, 0, 0, 0, 0, 0} // record route with room for 2, IHL 8
	case 3:
		o := make([]byte, 40) // timestamp option filling the header, IHL 15
		o[0], o[1], o[2], o[3] = 68, 40, 5, 0
		return o
	}
	return nil
}

// Field names an identifying field inside a reply frame by its offset in the *quoted* datagram (Where
// "q"), in the outer IP header ("o") or in the outer L4 header ("l").
type Field struct {
	Name  string
	Where string
	Off   int
	Len   int
	// Strict: only identifying with strict quoted-source checking
	Strict bool
	// PerProbe: this is the per-probe identifier
	PerProbe bool
}

// QuoteFields lists the identifying fields of a quoted probe for variant v (quote offsets, IHL 5).
func QuoteFields(v refmatch.Variant) []Field {
	var f []Field
	if v.V6 {
		f = append(f, Field{Name: "qsrc", Where: "q", Off: 8, Len: 16, Strict: v.Proto != "icmp"}, Field{Name: "qdst", Where: "q", Off: 24, Len: 16})
		switch v.Proto {
		case "icmp":
			f = append(f, Field{Name: "qechoid", Where: "q", Off: 44, Len: 2}, Field{Name: "qechoseq", Where: "q", Off: 46, Len: 2, PerProbe: true})
		case "udp":
			f = append(f, Field{Name: "qsport", Where: "q", Off: 40, Len: 2, Strict: true}, Field{Name: "qdport", Where: "q", Off: 42, Len: 2},
				Field{Name: "qplen", Where: "q", Off: 4, Len: 2, PerProbe: true},
				// the quoted next header: the payload-length identifier only exists for a quoted UDP datagram
				Field{Name: "qnexthdr", Where: "q", Off: 6, Len: 1})
		}
		return f
	}
	f = append(f, Field{Name: "qsrc", Where: "q", Off: 12, Len: 4, Strict: v.Proto != "icmp"}, Field{Name: "qdst", Where: "q", Off: 16, Len: 4})
	switch v.Proto {
	case "icmp":
		f = append(f, Field{Name: "qechoid", Where: "q", Off: 24, Len: 2}, Field{Name: "qechoseq", Where: "q", Off: 26, Len: 2, PerProbe: true})
	case "udp":
		f = append(f, Field{Name: "qsport", Where: "q", Off: 20, Len: 2, Strict: true}, Field{Name: "qdport", Where: "q", Off: 22, Len: 2},
			Field{Name: "qipid", Where: "q", Off: 4, Len: 2, PerProbe: true})
	case "syn":
		f = append(f, Field{Name: "qsport", Where: "q", Off: 20, Len: 2, Strict: true}, Field{Name: "qdport", Where: "q", Off: 22, Len: 2},
			Field{Name: "qipid", Where: "q", Off: 4, Len: 2, PerProbe: !v.Paris}, Field{Name: "qseq", Where: "q", Off: 24, Len: 4, PerProbe: v.Paris})
	case "sack":
		f = append(f, Field{Name: "qsport", Where: "q", Off: 20, Len: 2, Strict: true}, Field{Name: "qdport", Where: "q", Off: 22, Len: 2},
			Field{Name: "qseq", Where: "q", Off: 24, Len: 4, PerProbe: true})
	}
	return f
}

// Get/Set big-endian field values (Len 1,2,4; longer fields are handled by XOR helpers).
func Get(b []byte, f Field) uint64 {
	switch f.Len {
	case 1:
		return uint64(b[f.Off])
	case 2:
		return uint64(binary.BigEndian.Uint16(b[f.Off:]))
	case 4:
		return uint64(binary.BigEndian.Uint32(b[f.Off:]))
	}
	// addresses: last 4 bytes
	return uint64(binary.BigEndian.Uint32(b[f.Off+f.Len-4:]))
}

func Set(b []byte, f Field, v uint64) {
	switch f.Len {
	case 1:
		b[f.Off] = byte(v)
	case 2:
		binary.BigEndian.PutUint16(b[f.Off:], uint16(v))
	case 4:
		binary.BigEndian.PutUint32(b[f.Off:], uint32(v))
	default:
		binary.BigEndian.PutUint32(b[f.Off+f.Len-4:], uint32(v))
	}
}

// ValueClass is one perturbation of a field value.
type ValueClass struct {
	Name string
	F    func(x uint64, width int) uint64
}

func mask(w int) uint64 {
	if w >= 8 {
		return ^uint64(0)
	}
	return (uint64(1) << (8 * uint(w))) - 1
}

// Classes are the generic single-field perturbations.
var Classes = []ValueClass{
	{"plus1", func(x uint64, w int) uint64 { return (x + 1) & mask(w) }},
	{"minus1", func(x uint64, w int) uint64 { return (x - 1) & mask(w) }},
	{"plus256", func(x uint64, w int) uint64 { return (x + 256) & mask(w) }},
	{"fliphi", func(x uint64, w int) uint64 { return x ^ (uint64(0x80) << (8 * uint(w-1))) }},
	{"fliplo", func(x uint64, w int) uint64 { return x ^ 0x01 }},
	{"zero", func(x uint64, w int) uint64 { return 0 }},
	{"ones", func(x uint64, w int) uint64 { return mask(w) }},
	{"hibyte", func(x uint64, w int) uint64 { return x ^ (uint64(0x01) << (8 * uint(w-1))) }},
}
