// Package refself holds self-tests of the harness's reference machinery (not property checks).
package refself

import (
	"net/netip"
	"testing"

	"verif/harness/gen"
	"verif/harness/refmatch"
	"verif/harness/wirefmt"
)

// Two Paris-mode probes of one run drew the same random sequence number: a time-exceeded quoting that identity is a
// reply to either; the reference must say so (Maybe + Alt) instead of insisting on one of them.
func TestSharedParisIdentity(t *testing.T) {
	local, target := netip.MustParseAddr("10.1.1.1"), netip.MustParseAddr("10.9.9.9")
	f := &refmatch.Flow{V: refmatch.VariantByName("synP"), Local: local, LocalPort: 40000, Target: target, TargetPort: 443, MinTTL: 1, MaxTTL: 9}
	mk := func(ttl int, seq uint32, tick int64) *refmatch.Probe {
		seg := wirefmt.TCP{SrcPort: 40000, DstPort: 443, Seq: seq, Flags: wirefmt.TCPSyn, Window: 1024}.Marshal(local, target)
		raw := wirefmt.IPv4{TTL: uint8(ttl), Proto: wirefmt.ProtoTCP, Src: local, Dst: target, ID: 41821, Flags: 2}.Marshal(seg)
		return &refmatch.Probe{TTL: ttl, Tick: tick, IPID: 41821, Seq: seq, Raw: raw}
	}
	f.Probes = []*refmatch.Probe{mk(1, 111, 1), mk(2, 777, 2), mk(3, 333, 3), mk(4, 777, 4)}
	frame := gen.WrapError(netip.MustParseAddr("100.65.0.4"), local, gen.TimeExceeded, 0, gen.QuoteBytes(f.Probes[3], 1, "fix"), "min", nil, 0)
	o := refmatch.Ref(f, frame, 10)
	if o.Kind != refmatch.Maybe || len(o.Alt) != 1 || !((o.TTL == 4 && o.Alt[0] == 2) || (o.TTL == 2 && o.Alt[0] == 4)) {
		t.Fatalf("shared identity: %+v", o)
	}
	frame = gen.WrapError(netip.MustParseAddr("100.65.0.3"), local, gen.TimeExceeded, 0, gen.QuoteBytes(f.Probes[2], 1, "fix"), "min", nil, 0)
	if o := refmatch.Ref(f, frame, 10); o.Kind != refmatch.Accept || o.TTL != 3 || len(o.Alt) != 0 {
		t.Fatalf("unique identity: %+v", o)
	}
}
