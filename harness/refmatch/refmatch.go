// Package refmatch is the reference matcher and reference fold, written from the statements of
// C01/C02/C04 with its own lenient decoder (no gopacket, no repository code).
package refmatch

import (
	"encoding/binary"
	"fmt"
	"net/netip"
	"time"
)

// Variant identifies a protocol variant of the tool.
type Variant struct {
	Name    string
	Proto   string // icmp udp syn sack
	V6      bool
	Relaxed bool
	Paris   bool
	Serial  bool
}

var Variants = []Variant{
	{Name: "icmp4", Proto: "icmp"},
	{Name: "icmp6", Proto: "icmp", V6: true},
	{Name: "udp4", Proto: "udp"},
	{Name: "udp6", Proto: "udp", V6: true},
	{Name: "udp4r", Proto: "udp", Relaxed: true},
	{Name: "udp6r", Proto: "udp", V6: true, Relaxed: true},
	{Name: "syn", Proto: "syn", Serial: true},
	{Name: "synP", Proto: "syn", Serial: true, Paris: true},
	{Name: "synR", Proto: "syn", Serial: true, Relaxed: true},
	{Name: "synPR", Proto: "syn", Serial: true, Paris: true, Relaxed: true}, // both options at once: the random sequence number is then the only per-probe identity AND the quoted source is not compared
	{Name: "sackR", Proto: "sack", Relaxed: true},
	{Name: "sackS", Proto: "sack"},
}

func VariantByName(n string) Variant {
	for _, v := range Variants {
		if v.Name == n {
			return v
		}
	}
	panic("unknown variant " + n)
}

// Probe is one probe seen on the wire.
type Probe struct {
	TTL    int
	SentAt time.Time
	Tick   int64 // logical clock of the wire at emission
	IPID   uint16
	Seq    uint32 // tcp sequence / echo sequence
	PLen   uint16 // ipv6 payload length (udp6 identifier)
	Raw    []byte
}

// Flow is the identity of one run as seen on the wire.
type Flow struct {
	V          Variant
	Local      netip.Addr
	LocalPort  uint16
	Target     netip.Addr
	TargetPort uint16
	EchoID     uint16
	ISN        uint32 // sack: probe seq = ISN + ttl
	MinTTL     int
	MaxTTL     int
	Probes     []*Probe // emission order
}

// Kind of outcome.
type Kind int

const (
	Reject Kind = iota // must not create or change a hop
	Accept             // must be recognised as (TTL, Dest)
	Maybe              // may be recognised as (TTL, Dest) or rejected; property does not decide
	Abort              // SACK: plain ACK on the probed connection, the run may end with an error
)

func (k Kind) String() string { return [...]string{"reject", "accept", "maybe", "abort"}[k] }

// Outcome is the verdict of the reference matcher for one frame.
type Outcome struct {
	Kind Kind
	TTL  int
	Dest bool
	// OrLater: the reply carries no per-probe identifier (TCP SYN-ACK/RST in default mode); the
	// property allows crediting it to any probe sent at or after TTL, never to an earlier one.
	OrLater bool
	// Alt: further TTLs whose probes carry exactly the same wire identity as TTL's (Paris mode draws a random 32-bit
	// sequence number per probe: two probes of one run can draw the same value). The frame answers any of them.
	Alt []int
	Why string
}

func rej(why string, a ...any) Outcome { return Outcome{Kind: Reject, Why: fmt.Sprintf(why, a...)} }

// lenient outer view
type ipView struct {
	v6       bool
	hl       int
	proto    uint8
	src, dst netip.Addr
	payload  []byte
	wellForm bool // lengths consistent, checksum right, not fragmented
	fragOff  uint16
	mf       bool
	id       uint16
	plen     uint16 // v6 payload length field
}

func csum(b []byte) uint16 {
	var acc uint32
	for i := 0; i+1 < len(b); i += 2 {
		acc += uint32(b[i])<<8 | uint32(b[i+1])
	}
	if len(b)%2 == 1 {
		acc += uint32(b[len(b)-1]) << 8
	}
	for acc>>16 != 0 {
		acc = acc&0xffff + acc>>16
	}
	return ^uint16(acc)
}

// parseIP decodes an IP header leniently. outer=true additionally judges well-formedness against len(b).
func parseIP(b []byte, outer bool) (ipView, bool) {
	var v ipView
	if len(b) < 1 {
		return v, false
	}
	switch b[0] >> 4 {
	case 4:
		if len(b) < 20 {
			return v, false
		}
		v.hl = int(b[0]&0xf) * 4
		if v.hl < 20 || v.hl > len(b) {
			return v, false
		}
		tl := int(binary.BigEndian.Uint16(b[2:]))
		v.id = binary.BigEndian.Uint16(b[4:])
		fo := binary.BigEndian.Uint16(b[6:])
		v.fragOff = fo & 0x1fff
		v.mf = fo&0x2000 != 0
		v.proto = b[9]
		v.src = netip.AddrFrom4([4]byte(b[12:16]))
		v.dst = netip.AddrFrom4([4]byte(b[16:20]))
		v.payload = b[v.hl:]
		v.wellForm = true
		if outer {
			// bytes behind the datagram are link-layer padding when the whole frame payload is no longer than the Ethernet
			// minimum (46 bytes): a real NIC delivers every short reply that way (echo reply 29, RST 40, MSS-only SYN-ACK 44
			// bytes), so such a frame is as well-formed as its datagram
			padded := tl >= v.hl && tl < len(b) && len(b) <= 46
			if (tl != len(b) && !padded) || csum(b[:v.hl]) != 0 || v.mf {
				v.wellForm = false
			}
			if tl >= v.hl && tl < len(b) {
				v.payload = b[v.hl:tl]
			}
		}
		return v, true
	case 6:
		if len(b) < 40 {
			return v, false
		}
		v.v6 = true
		v.hl = 40
		v.plen = binary.BigEndian.Uint16(b[4:])
		v.proto = b[6]
		v.src = netip.AddrFrom16([16]byte(b[8:24]))
		v.dst = netip.AddrFrom16([16]byte(b[24:40]))
		v.payload = b[40:]
		v.wellForm = true
		if outer && int(v.plen) != len(b)-40 {
			v.wellForm = false
			if int(v.plen) < len(b)-40 {
				v.payload = b[40 : 40+int(v.plen)]
			}
		}
		return v, true
	}
	return v, false
}

func sumWords(b []byte, acc uint32) uint32 {
	for i := 0; i+1 < len(b); i += 2 {
		acc += uint32(b[i])<<8 | uint32(b[i+1])
	}
	if len(b)%2 == 1 {
		acc += uint32(b[len(b)-1]) << 8
	}
	return acc
}

func foldSum(acc uint32) uint16 {
	for acc>>16 != 0 {
		acc = acc&0xffff + acc>>16
	}
	return ^uint16(acc)
}

// l4WellFormed verifies the transport checksum (with pseudo header where the protocol has one) and the TCP data offset.
func l4WellFormed(ip ipView) bool {
	l4 := ip.payload
	pseudo := func(proto uint8) uint32 {
		acc := sumWords(ip.src.AsSlice(), 0)
		acc = sumWords(ip.dst.AsSlice(), acc)
		acc += uint32(proto) + uint32(len(l4)&0xffff) + uint32(len(l4)>>16)
		return acc
	}
	switch ip.proto {
	case 1:
		return len(l4) >= 8 && foldSum(sumWords(l4, 0)) == 0
	case 58:
		return len(l4) >= 8 && foldSum(sumWords(l4, pseudo(58))) == 0
	case 6:
		if len(l4) < 20 {
			return false
		}
		doff := int(l4[12]>>4) * 4
		if doff < 20 || doff > len(l4) {
			return false
		}
		return foldSum(sumWords(l4, pseudo(6))) == 0
	}
	return true
}

func (f *Flow) sent(ttl int, at int64) *Probe {
	for _, p := range f.Probes {
		if p.TTL == ttl && p.Tick < at {
			return p
		}
	}
	return nil
}

func (f *Flow) lastSent(at int64) *Probe {
	var last *Probe
	for _, p := range f.Probes {
		if p.Tick < at {
			last = p
		}
	}
	return last
}

// Ref classifies frame b as processed by flow f at logical instant `at` (probes emitted at a smaller tick count as sent).
func Ref(f *Flow, b []byte, at int64) Outcome {
	ip, ok := parseIP(b, true)
	if !ok {
		return rej("no parsable IP header")
	}
	if ip.v6 != f.V.V6 {
		return rej("other address family")
	}
	if ip.fragOff != 0 {
		return rej("non-first fragment")
	}
	o := refInner(f, ip, at)
	if o.Kind == Accept && !l4WellFormed(ip) {
		// a reply whose transport header is inconsistent (checksum, data offset) is not something a real
		// device sends; whether the tool uses it is not decided by the property
		o.Kind = Maybe
		o.Why += " (transport header not well-formed)"
	}
	if o.Kind == Accept && (!ip.wellForm || ip.dst != f.Local) {
		// outer destination / outer length+checksum consistency are not identifying fields: undecided
		o.Kind = Maybe
		o.Why += " (outer header not well-formed or outer destination differs)"
	}
	return o
}

func refInner(f *Flow, ip ipView, at int64) Outcome {
	icmpProto := uint8(1)
	teType, duType, erType, eqType := uint8(11), uint8(3), uint8(0), uint8(8)
	if f.V.V6 {
		icmpProto = 58
		teType, duType, erType, eqType = 3, 1, 129, 128
	}
	l4 := ip.payload
	switch {
	case ip.proto == icmpProto:
		if len(l4) < 8 {
			return rej("short icmp")
		}
		typ, code := l4[0], l4[1]
		body := l4[8:]
		switch {
		case typ == erType:
			if f.V.Proto != "icmp" {
				return rej("echo reply for non-icmp run")
			}
			id := binary.BigEndian.Uint16(l4[4:])
			seq := binary.BigEndian.Uint16(l4[6:])
			if id != f.EchoID {
				return rej("echo id %d != %d", id, f.EchoID)
			}
			if int(seq) < f.MinTTL || int(seq) > f.MaxTTL {
				return rej("echo seq %d outside window", seq)
			}
			if f.sent(int(seq), at) == nil {
				return rej("echo seq %d not sent yet", seq)
			}
			if ip.src != f.Target {
				return rej("echo reply from %s, not the target", ip.src)
			}
			return Outcome{Kind: Accept, TTL: int(seq), Dest: true, Why: "echo reply"}
		case typ == teType || typ == duType:
			isTE := typ == teType
			if !isTE && f.V.Proto != "udp" {
				// destination unreachable is only a stated reply form for UDP probes
				o := refQuote(f, ip, body, at, eqType).demote()
				// whether such a sender is reported as a hop is not decided; that it is not the DESTINATION is (C04 lists the
				// forms that prove arrival per protocol: an unreachable error is one for UDP only)
				o.Dest = false
				o.Why += " (dest-unreachable for non-udp run)"
				return o
			}
			o := refQuote(f, ip, body, at, eqType)
			if o.Kind == Accept && isTE && code != 0 {
				o.Kind = Maybe
				o.Why += " (time-exceeded code != 0)"
			}
			return o
		default:
			return rej("icmp type %d", typ)
		}
	case ip.proto == 6 && !f.V.V6:
		if f.V.Proto != "syn" && f.V.Proto != "sack" {
			return rej("tcp for non-tcp run")
		}
		if len(l4) < 20 {
			return rej("short tcp")
		}
		sport := binary.BigEndian.Uint16(l4[0:])
		dport := binary.BigEndian.Uint16(l4[2:])
		ack := binary.BigEndian.Uint32(l4[8:])
		doff := int(l4[12]>>4) * 4
		flags := l4[13]
		if ip.src != f.Target || ip.dst != f.Local || sport != f.TargetPort || dport != f.LocalPort {
			return rej("tcp 4-tuple differs")
		}
		if f.V.Proto == "syn" {
			syn, ackf, rst := flags&0x02 != 0, flags&0x10 != 0, flags&0x04 != 0
			if !(syn && ackf) && !rst {
				return rej("tcp flags %#x", flags)
			}
			last := f.lastSent(at)
			if last == nil {
				return rej("nothing sent yet")
			}
			if (syn && ackf) || (rst && ackf) {
				want := ack - 1
				if last.Seq == want {
					return Outcome{Kind: Accept, TTL: last.TTL, Dest: true, OrLater: !f.V.Paris, Why: "syn-ack/rst-ack for most recent probe"}
				}
				for _, p := range f.Probes {
					if p.Tick < at && p.Seq == want {
						return Outcome{Kind: Maybe, TTL: p.TTL, Dest: true, Why: "ack for an earlier probe"}
					}
				}
				return rej("ack-1 matches no probe")
			}
			return Outcome{Kind: Accept, TTL: last.TTL, Dest: true, OrLater: true, Why: "rst (no per-probe id) credited to most recent probe"}
		}
		// sack
		if flags&(0x02|0x01|0x04) != 0 {
			return rej("syn/fin/rst on sack run")
		}
		if doff < 20 || doff > len(l4) {
			return rej("bad tcp data offset")
		}
		opts := l4[20:doff]
		min := uint32(0xffffffff)
		found := false
		for i := 0; i < len(opts); {
			k := opts[i]
			if k == 0 {
				break
			}
			if k == 1 {
				i++
				continue
			}
			if i+1 >= len(opts) {
				break
			}
			l := int(opts[i+1])
			if l < 2 || i+l > len(opts) {
				break
			}
			if k == 5 {
				for d := opts[i+2 : i+l]; len(d) >= 8; d = d[8:] {
					found = true
					r := binary.BigEndian.Uint32(d) - f.ISN
					if r < min {
						min = r
					}
				}
			}
			i += l
		}
		if !found {
			return Outcome{Kind: Abort, Why: "ack without sack blocks on the probed connection"}
		}
		if min < uint32(f.MinTTL) || min > uint32(f.MaxTTL) {
			return rej("sack left edge %d outside window", min)
		}
		if f.sent(int(min), at) == nil {
			return rej("sack left edge %d not sent yet", min)
		}
		return Outcome{Kind: Accept, TTL: int(min), Dest: true, Why: "selective ack"}
	}
	return rej("protocol %d", ip.proto)
}

func (o Outcome) demote() Outcome {
	if o.Kind == Accept {
		o.Kind = Maybe
	}
	return o
}

// refQuote evaluates an ICMP error quoting a datagram.
func refQuote(f *Flow, ip ipView, body []byte, at int64, eqType uint8) Outcome {
	undecided := false
	if len(body) >= 1 {
		want := byte(4)
		if f.V.V6 {
			want = 6
		}
		if body[0]>>4 != want {
			// the version nibble of the quoted header is not an identifying field: a quote that is otherwise the
			// probe's own is not decided by the property (the tool's decoder may or may not look at the nibble)
			fixed := append([]byte(nil), body...)
			fixed[0] = fixed[0]&0x0f | want<<4
			body = fixed
			undecided = true
		}
	}
	q, ok := parseIP(body, false)
	if !ok || q.v6 != f.V.V6 {
		return rej("no parsable quoted header")
	}
	l4 := q.payload
	dest := ip.src == f.Target
	switch f.V.Proto {
	case "icmp":
		wantProto := uint8(1)
		if f.V.V6 {
			wantProto = 58
		}
		if len(l4) < 8 {
			return rej("quoted icmp shorter than 8 bytes")
		}
		if q.dst != f.Target {
			return rej("quoted dst %s", q.dst)
		}
		if q.src != f.Local {
			return rej("quoted src %s", q.src)
		}
		if q.proto != wantProto || l4[0] != eqType || l4[1] != 0 {
			undecided = true
		}
		id := binary.BigEndian.Uint16(l4[4:])
		seq := binary.BigEndian.Uint16(l4[6:])
		if id != f.EchoID {
			return rej("quoted echo id %d != %d", id, f.EchoID)
		}
		if int(seq) < f.MinTTL || int(seq) > f.MaxTTL || f.sent(int(seq), at) == nil {
			return rej("quoted echo seq %d not a sent probe", seq)
		}
		o := Outcome{Kind: Accept, TTL: int(seq), Dest: false, Why: "icmp error quoting echo request"}
		if undecided {
			o.Kind = Maybe
		}
		return o
	case "udp":
		if len(l4) < 8 {
			return rej("quoted udp shorter than 8 bytes")
		}
		sp, dp := binary.BigEndian.Uint16(l4[0:]), binary.BigEndian.Uint16(l4[2:])
		if q.dst != f.Target || dp != f.TargetPort {
			return rej("quoted dst %s:%d", q.dst, dp)
		}
		if !f.V.Relaxed && (q.src != f.Local || sp != f.LocalPort) {
			return rej("quoted src %s:%d", q.src, sp)
		}
		if q.proto != 17 {
			if f.V.V6 {
				// the IPv6 per-probe identifier is the payload length of the UDP probe: a quote of another
				// protocol's datagram (another flow that happens to share port numbers and length) carries no such identifier
				return rej("quoted next header %d is not UDP", q.proto)
			}
			undecided = true
		}
		var hit *Probe
		for _, p := range f.Probes {
			if p.Tick >= at {
				continue
			}
			if (!f.V.V6 && p.IPID == q.id) || (f.V.V6 && p.PLen == q.plen) {
				hit = p
			}
		}
		if hit == nil {
			return rej("quoted identifier matches no sent probe")
		}
		o := Outcome{Kind: Accept, TTL: hit.TTL, Dest: dest, Why: "icmp error quoting udp probe"}
		if undecided {
			o.Kind = Maybe
		}
		return o
	case "syn", "sack":
		if len(l4) < 8 {
			return rej("quoted tcp shorter than 8 bytes")
		}
		sp, dp := binary.BigEndian.Uint16(l4[0:]), binary.BigEndian.Uint16(l4[2:])
		seq := binary.BigEndian.Uint32(l4[4:])
		if q.dst != f.Target || dp != f.TargetPort {
			return rej("quoted dst %s:%d", q.dst, dp)
		}
		if !f.V.Relaxed && (q.src != f.Local || sp != f.LocalPort) {
			return rej("quoted src %s:%d", q.src, sp)
		}
		if q.proto != 6 {
			undecided = true
		}
		if f.V.Proto == "syn" {
			var hit *Probe
			var alt []int
			for _, p := range f.Probes {
				if p.Tick < at && p.IPID == q.id && p.Seq == seq {
					if hit != nil {
						alt = append(alt, hit.TTL)
					}
					hit = p
				}
			}
			if hit == nil {
				return rej("quoted (ip-id, seq) matches no sent probe")
			}
			o := Outcome{Kind: Accept, TTL: hit.TTL, Dest: false, Why: "time-exceeded quoting syn probe"}
			if undecided {
				o.Kind = Maybe
			}
			if len(alt) > 0 {
				// several probes of this run share the quoted identity: the frame is a reply to any of them
				o.Kind, o.Alt, o.Why = Maybe, alt, "time-exceeded quoting an identity shared by several syn probes"
			}
			return o
		}
		r := seq - f.ISN
		if r < uint32(f.MinTTL) || r > uint32(f.MaxTTL) || f.sent(int(r), at) == nil {
			return rej("quoted seq-isn=%d not a sent probe", r)
		}
		o := Outcome{Kind: Accept, TTL: int(r), Dest: dest, Why: "time-exceeded quoting sack probe"}
		if undecided {
			o.Kind = Maybe
		}
		return o
	}
	return rej("unknown variant")
}
