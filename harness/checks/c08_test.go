package checks

import (
	"context"
	"errors"
	"fmt"
	"io"
	"math/rand"
	"net"
	"net/http"
	"net/netip"
	"sync"
	"time"

	"github.com/DataDog/datadog-traceroute/common"
	"github.com/DataDog/datadog-traceroute/packets"
	"github.com/DataDog/datadog-traceroute/publicip"
	"github.com/DataDog/datadog-traceroute/reversedns"
	"github.com/DataDog/datadog-traceroute/sack"
	"github.com/DataDog/datadog-traceroute/traceroute"
	"github.com/cenkalti/backoff/v5"

	"verif/harness/drive"
	"verif/harness/fw"
	"verif/harness/gen"
	"verif/harness/refmatch"
	"verif/harness/scripted"
	"verif/harness/simnet"
	"verif/harness/wirefmt"
)

func init() { register("C08", checkC08) }

// ---------------------------------------------------------------------------------------------
// (1) network behaviours: the run must end within its closed-form bound whatever arrives

type netBehaviour struct {
	name string
	// feed schedules frames for [0, horizon) of virtual time around probe emissions / absolute instants
	feed func(e *simEnv, p *refmatch.Probe, horizon time.Duration, r *rand.Rand)
}

// floodPlan: frames every `step` for the whole horizon, thinned out for very long horizons (a serial run over 130 TTLs
// lasts more than a virtual minute) so that the flood stays below the harness's own run-away-reader guard
// (simnet.MaxReadsPerHandle): the flood must outlast the run, its rate is not what the bound depends on.
func floodPlan(horizon, step time.Duration) (int, time.Duration) {
	n := int(horizon / step)
	if n > 250000 {
		n = 250000
		step = horizon / time.Duration(n)
	}
	return n, step
}

func netBehaviours() []netBehaviour {
	irrelevant := func(e *simEnv, n int) []byte {
		return udpFrame(uniqueAddr(e.spec.V.V6, 9000+n), e.local, 53, uint16(1000+n%5000), e.spec.V.V6)
	}
	return []netBehaviour{
		{"silence", nil},
		{"irrelevant-flood", func(e *simEnv, p *refmatch.Probe, horizon time.Duration, r *rand.Rand) {
			if p.TTL != int(e.spec.MinTTL) {
				return
			}
			// 10^4 frames per virtual second for the whole horizon
			n, step := floodPlan(horizon, 100*time.Microsecond)
			for i := 0; i < n; i++ {
				e.inject(irrelevant(e, i), "flood:irrelevant", nil, oddUS(time.Duration(i)*step))
			}
		}},
		{"malformed-flood", func(e *simEnv, p *refmatch.Probe, horizon time.Duration, r *rand.Rand) {
			if p.TTL != int(e.spec.MinTTL) {
				return
			}
			n, step := floodPlan(horizon, 250*time.Microsecond)
			for i := 0; i < n; i++ {
				b := make([]byte, 1+r.Intn(60))
				r.Read(b)
				b[0] = []byte{0x45, 0x60, 0x4f, 0x00}[r.Intn(4)]
				e.inject(b, "flood:malformed", nil, oddUS(time.Duration(i)*step))
			}
		}},
		{"bursts", func(e *simEnv, p *refmatch.Probe, horizon time.Duration, r *rand.Rand) {
			// 10^3 frames at one instant after every probe
			for i := 0; i < 1000; i++ {
				e.inject(irrelevant(e, i), "burst", nil, oddUS(7*time.Millisecond))
			}
		}},
		{"valid-duplicate-stream", func(e *simEnv, p *refmatch.Probe, horizon time.Duration, r *rand.Rand) {
			// a hop that keeps duplicating its (valid, matching) reply at least once per poll interval, beyond the deadline
			if p.TTL != int(e.spec.MinTTL) {
				return
			}
			b := gen.WrapError(routerAddr(e.spec.V.V6, 1, p.TTL), e.local, gen.TimeExceeded, 0, gen.QuoteBytes(p, 1, "fix"), "min", nil, 0)
			step := e.spec.EffectivePoll() / 4
			for at := time.Millisecond; at < horizon; at += step {
				e.inject(b, "dupstream", p, oddUS(at))
			}
		}},
		{"valid-duplicate-stream-dest", func(e *simEnv, p *refmatch.Probe, horizon time.Duration, r *rand.Rand) {
			if p.TTL != int(e.spec.MinTTL)+1 {
				return
			}
			b := e.destReply(p)
			step := e.spec.EffectivePoll() / 4
			for at := time.Millisecond; at < horizon; at += step {
				e.inject(b, "dupstream-dest", p, oddUS(at))
			}
		}},
	}
}

// runC08NoHandshake: the SYN-ACK of the SACK handshake never reaches the capture handle (and noise does): the run
// must give up within dial + 500 ms.
func runC08NoHandshake(c *fw.Ctx, id string, v refmatch.Variant, noise bool) {
	spec := defaultSpec(v, c.Worker, 1, 6)
	e, err := newSimEnv(c, spec, 0x10000000)
	if err != nil {
		c.Inconclusive(err.Error())
		return
	}
	defer e.close()
	e.peer.ShowSynAck = false
	if noise {
		prev := e.w.OnFilter
		e.w.OnFilter = func(h *simnet.Handle, s packets.PacketFilterSpec) {
			prev(h, s)
			for i := 0; i < 3000; i++ {
				e.inject(udpFrame(uniqueAddr(false, 9000+i), drive.Local4, 53, 4000, false), "flood:handshake", nil, oddUS(time.Duration(i)*300*time.Microsecond))
			}
		}
	}
	res := e.run(&pathModel{hops: map[int]*hopSpec{}})
	el := res.End.Sub(res.Start)
	bound := spec.HandshakeTimeout + 600*time.Millisecond
	c.Nontrivial(fmt.Sprintf("no-handshake/%s/noise%v", v.Name, noise))
	if res.Err == nil {
		c.Violate("C08", "no-handshake-succeeded/"+v.Name, id+": the handshake was never captured but the run succeeded", nil)
	}
	if e.handle != nil && e.handle.ReadOverrun {
		c.Violate("C08", "runaway-reader/"+v.Name, id+": the handshake reader kept reading without bound (stopped by the harness after 400000 reads)", nil)
	} else if el > bound {
		c.Violate("C08", "bound/"+v.Name, fmt.Sprintf("%s: run without a captured handshake took %v of virtual time, bound %v", id, el, bound), nil)
	}
}

func runC08Net(c *fw.Ctx, id string, v refmatch.Variant, nb netBehaviour, w window) {
	spec := defaultSpec(v, c.Worker, w.first, w.last)
	spec.Timeout = 1200 * time.Millisecond
	if v.Serial {
		spec.Timeout = 400 * time.Millisecond
	}
	bound := timeBound(spec)
	horizon := 3 * bound
	r := rand.New(rand.NewSource(int64(fw.Hash32(id))))
	sc := scenario{tag: id, v: v, win: w, b: basesQuick[0], spec: func(s *drive.Spec) { *s = spec },
		model: func(e *simEnv) *pathModel {
			m := &pathModel{hops: map[int]*hopSpec{}}
			if nb.name == "valid-duplicate-stream-dest" {
				m.dist = w.first + 1
				m.destDelay = 2 * time.Millisecond
			}
			if nb.feed != nil {
				m.extra = func(e *simEnv, p *refmatch.Probe) { nb.feed(e, p, horizon, r) }
			}
			return m
		}}
	out := runScenario(c, sc) // the universal C08 bound monitor and the runaway-reader guard are attached
	if out == nil {
		return
	}
	el := out.res.End.Sub(out.res.Start)
	c.Count("runs_timed", 1)
	c.Nontrivial(fmt.Sprintf("net/%s/%s", v.Name, nb.name))
	c.Sample(map[string]any{"case": id, "virtual_elapsed": el.String(), "bound": bound.String(), "frames_read": len(out.js)})
	out.e.close()
}

// ---------------------------------------------------------------------------------------------
// (2) cancellation of engine runs

func runC08CancelEngine(c *fw.Ctx, id string, parallel bool, at time.Duration, silent bool) {
	runC08CancelEngineScript(c, id, parallel, at, silent, false)
}

// destSoon: the destination's reply for TTL 3 is on its way (80 ms after that probe) when the context is cancelled (50 ms
// after it): the run reads it within the poll that was in progress - and has still been cancelled
func runC08CancelEngineScript(c *fw.Ctx, id string, parallel bool, at time.Duration, silent, destSoon bool) {
	p := engParams{first: 1, last: 6, timeout: 3 * time.Second, poll: 100 * time.Millisecond, delay: 50 * time.Millisecond}
	var script []scripted.Reply
	if !silent {
		for t := 1; t <= 6; t++ {
			r := scripted.Reply{Rel: true, At: time.Duration(20+t) * time.Millisecond, TTL: uint8(t), Addr: hopAddr(uint8(t), 0)}
			if destSoon && t == 3 {
				r.At, r.Dest = 80*time.Millisecond, true
			}
			if destSoon && t > 3 {
				continue
			}
			script = append(script, r)
		}
	}
	d := scripted.New(parallel, script)
	ctx, cancel := context.WithCancel(context.Background())
	defer cancel()
	start := time.Now()
	var cancelledAt time.Time
	if at == 0 {
		cancel()
		cancelledAt = start
	} else {
		time.AfterFunc(at, func() { cancelledAt = time.Now(); cancel() })
	}
	res, err := runEngine(ctx, parallel, d, p)
	ret := time.Now()
	tag := fmt.Sprintf("%s engine=%s cancel@%v silent=%v dest-reply-on-its-way=%v", id, engName(parallel), at, silent, destSoon)
	if cancelledAt.IsZero() || ret.Before(cancelledAt) {
		// the run finished before the cancel instant: nothing to judge
		c.Count("cancel_after_completion", 1)
		return
	}
	late := ret.Sub(cancelledAt)
	if late == 0 && err == nil && res != nil {
		// the run reached its natural end at the very (virtual) instant of the cancellation: which of the two timers
		// fires first is not decided by anything the property states (a declared tie; seen about once in eight runs)
		c.Count("cancel_tie_with_completion", 1)
		return
	}
	c.Count("cancellations_judged", 1)
	c.Nontrivial(fmt.Sprintf("cancel/%s/%s/silent%v", engName(parallel), cancelClass(at, p), silent))
	if !errors.Is(err, context.Canceled) {
		c.Violate("C08", "cancel-not-reported/"+engName(parallel), fmt.Sprintf("%s: returned (%v, %v) instead of the cancellation error", tag, fmtProbes(res), err), d.Snapshot())
	}
	if res != nil {
		c.Violate("C08", "cancel-returned-result/"+engName(parallel), tag+": a result was returned together with the cancellation", nil)
	}
	if late > p.poll+p.delay {
		c.Violate("C08", "cancel-late/"+engName(parallel), fmt.Sprintf("%s: returned %v after the cancel instant (allowed one poll interval + one send delay = %v)", tag, late, p.poll+p.delay), d.Snapshot())
	}
}

func cancelClass(at time.Duration, p engParams) string {
	switch {
	case at == 0:
		return "before-start"
	case at < time.Duration(int(p.last))*p.delay:
		return "while-sending"
	}
	return "while-waiting"
}

// real entry points that take a context: ICMP and SACK
func runC08CancelReal(c *fw.Ctx, id string, v refmatch.Variant, at time.Duration) {
	spec := defaultSpec(v, c.Worker, 1, 8)
	ctx, cancel := context.WithCancel(context.Background())
	defer cancel()
	spec.Ctx = ctx
	e, err := newSimEnv(c, spec, 0x10000000)
	if err != nil {
		c.Inconclusive(err.Error())
		return
	}
	defer e.close()
	var cancelledAt time.Time
	start := time.Now()
	if at == 0 {
		cancel()
		cancelledAt = start
	} else {
		time.AfterFunc(at, func() { cancelledAt = time.Now(); cancel() })
	}
	res := e.run(simplePath(v, 1, 5, false, 9*time.Millisecond))
	if cancelledAt.IsZero() || res.End.Before(cancelledAt) {
		return
	}
	late := res.End.Sub(cancelledAt)
	tag := fmt.Sprintf("%s %s cancel@%v", id, v.Name, at)
	if late == 0 && res.Err == nil && res.Run != nil {
		c.Count("cancel_tie_with_completion", 1) // see runC08CancelEngine
		return
	}
	c.Count("cancellations_judged", 1)
	c.Nontrivial(fmt.Sprintf("cancel-real/%s/%v", v.Name, at > 0))
	if res.Err == nil || !errors.Is(res.Err, context.Canceled) {
		c.Violate("C08", "cancel-not-reported/"+v.Name, fmt.Sprintf("%s: returned err=%v", tag, res.Err), nil)
	}
	if late > spec.Poll+spec.Delay {
		c.Violate("C08", "cancel-late/"+v.Name, fmt.Sprintf("%s: returned %v after the cancel instant (allowed %v)", tag, late, spec.Poll+spec.Delay), nil)
	}
	if lc := e.w.Lifecycle(); len(lc) > 0 {
		c.Violate("C10", "lifecycle/cancel/"+v.Name, fmt.Sprintf("%s: %v", tag, lc), nil)
	}
}

// ---------------------------------------------------------------------------------------------
// (3) stalled auxiliary services

// stallRT is a RoundTripper that honours req.Context() exactly like http.Transport: every wait ends when the
// request's context ends. The extra `release` channel is the harness's escape hatch after a hang was recorded.
type stallRT struct {
	mu       sync.Mutex
	behave   map[string]string // host -> behaviour
	requests []string
	release  chan struct{}
}

type stallBody struct {
	ctx     context.Context
	release chan struct{}
	data    []byte
	slow    time.Duration
	never   bool
}

func (b *stallBody) Read(p []byte) (int, error) {
	if b.never || b.slow > 0 {
		var t <-chan time.Time
		if !b.never {
			t = time.After(b.slow)
		}
		select {
		case <-b.ctx.Done():
			return 0, b.ctx.Err()
		case <-b.release:
			return 0, errors.New("released by harness")
		case <-t:
			b.slow = 0
		}
	}
	if len(b.data) == 0 {
		return 0, io.EOF
	}
	n := copy(p, b.data)
	b.data = b.data[n:]
	return n, nil
}
func (b *stallBody) Close() error { return nil }

func (s *stallRT) RoundTrip(req *http.Request) (*http.Response, error) {
	s.mu.Lock()
	beh := s.behave[req.URL.Host]
	s.requests = append(s.requests, req.URL.Host+":"+beh)
	s.mu.Unlock()
	mk := func(code int, body *stallBody) (*http.Response, error) {
		return &http.Response{StatusCode: code, Status: fmt.Sprintf("%d x", code), Body: body, Header: http.Header{}, Request: req, ProtoMajor: 1, ProtoMinor: 1}, nil
	}
	ctx := req.Context()
	switch beh {
	case "hang-before-headers":
		select {
		case <-ctx.Done():
			return nil, ctx.Err()
		case <-s.release:
			return nil, errors.New("released by harness")
		}
	case "hang-after-headers":
		return mk(200, &stallBody{ctx: ctx, release: s.release, never: true})
	case "slow-body":
		return mk(200, &stallBody{ctx: ctx, release: s.release, slow: 1500 * time.Millisecond, data: []byte("192.0.2.44\n")})
	case "very-slow-body":
		return mk(200, &stallBody{ctx: ctx, release: s.release, slow: 40 * time.Second, data: []byte("192.0.2.45\n")})
	case "transport-error":
		return nil, errors.New("scripted: connection refused")
	case "4xx":
		return mk(404, &stallBody{ctx: ctx, release: s.release, data: []byte("nope")})
	case "5xx":
		return mk(502, &stallBody{ctx: ctx, release: s.release, data: []byte("bad gateway")})
	case "garbage":
		return mk(200, &stallBody{ctx: ctx, release: s.release, data: []byte("<html>")})
	}
	return mk(200, &stallBody{ctx: ctx, release: s.release, data: []byte("192.0.2.46")})
}

// withWatchdog runs f; if it has not returned after limit (virtual), the hang is recorded and `release` is closed.
func withWatchdog(limit time.Duration, release chan struct{}, f func()) (elapsed time.Duration, hung bool) {
	done := make(chan struct{})
	start := time.Now()
	go func() { f(); close(done) }()
	t := time.NewTimer(limit)
	select {
	case <-done:
		t.Stop()
		return time.Since(start), false
	case <-t.C:
		close(release)
		<-done
		return time.Since(start), true
	}
}

func runC08PublicIP(c *fw.Ctx, id string, r *rand.Rand) {
	kinds := []string{"hang-before-headers", "hang-after-headers", "slow-body", "very-slow-body", "transport-error", "4xx", "5xx", "garbage", "valid"}
	rt := &stallRT{behave: map[string]string{}, release: make(chan struct{})}
	var plan []string
	for i, h := range providerHosts {
		k := kinds[r.Intn(len(kinds))]
		if i == len(providerHosts)-1 && r.Intn(2) == 0 {
			k = "valid"
		}
		rt.behave[h] = k
		plan = append(plan, k)
	}
	bo := backoff.NewExponentialBackOff()
	bo.InitialInterval = 500 * time.Millisecond
	bo.MaxInterval = 3 * time.Second
	// bound: every provider gets a 2 s window; one operation already in flight may add one more backoff step
	bound := time.Duration(len(providerHosts)) * (2*time.Second + 750*time.Millisecond)
	var err error
	el, hung := withWatchdog(4*bound, rt.release, func() {
		_, err = publicip.GetPublicIP(context.Background(), &http.Client{Transport: rt}, bo)
	})
	tag := fmt.Sprintf("%s providers=%v", id, plan)
	c.Count("publicip_calls", 1)
	for _, k := range plan {
		c.Nontrivial("publicip/" + k)
	}
	stallKind := ""
	rt.mu.Lock()
	if n := len(rt.requests); n > 0 {
		stallKind = rt.requests[n-1]
	}
	rt.mu.Unlock()
	if hung {
		c.Violate("C08", "publicip-unbounded/"+afterColon(stallKind), fmt.Sprintf("%s: GetPublicIP had not returned after %v of virtual time (bound %v); last request: %s", tag, el, bound, stallKind), map[string]any{"requests": rt.requests, "err": fmt.Sprint(err)})
	} else if el > bound {
		c.Violate("C08", "publicip-late/"+afterColon(stallKind), fmt.Sprintf("%s: GetPublicIP took %v of virtual time, bound %v", tag, el, bound), map[string]any{"requests": rt.requests})
	}
	c.Sample(map[string]any{"case": tag, "virtual_elapsed": el.String(), "hung": hung})
}

func afterColon(s string) string {
	for i := len(s) - 1; i >= 0; i-- {
		if s[i] == ':' {
			return s[i+1:]
		}
	}
	return s
}

// runC08RdnsRealTime: the same batch on the REAL clock. Goroutines of the code under test that wait for each other
// on a mutex are not "durably blocked" for testing/synctest, so a serialised fan-out would stall a bubble instead of
// showing up as virtual time; this case sees it as wall-clock time. The discrimination is coarse on purpose
// (N stalled lookups: one 5 s timeout when concurrent, N x 5 s when serialised; the verdict threshold is 13 s).
func runC08RdnsRealTime(c *fw.Ctx, id string) {
	resetProcessState()
	old := reversedns.LookupAddrFn
	reversedns.LookupAddrFn = func(ctx context.Context, addr string) ([]string, error) {
		select {
		case <-ctx.Done():
			return nil, ctx.Err()
		case <-time.After(14 * time.Second): // harness escape hatch: a lookup without a deadline must not hang the check
			return nil, errors.New("released by harness")
		}
	}
	defer func() { reversedns.LookupAddrFn = old }()
	var l []net.IP
	for i := 0; i < 4; i++ {
		l = append(l, net.IP(parseIP(fmt.Sprintf("198.51.77.%d", 10+i))))
	}
	t0 := time.Now()
	reversedns.GetReverseDnsForIPs(l)
	el := time.Since(t0)
	c.Nontrivial("rdns-realtime")
	c.Count("rdns_realtime_ms", int(el.Milliseconds()))
	if el > 13*time.Second {
		c.Violate("C08", "rdns-realtime-bound", fmt.Sprintf("%s: 4 stalled lookups took %v of real time; concurrent lookups share one 5 s timeout", id, el.Round(100*time.Millisecond)), nil)
	}
}

// runC08PublicIPOverlap: two overlapping lookups through ONE fetcher (what two requests served by one Traceroute or
// server object do) against providers that accept the request and never answer. A lookup's duration is bounded by its
// own context and the per-provider timeouts, not by the other lookup's: a lock held across the provider walk cannot be
// left by a caller whose context ended. Blocked mutexes do not let a bubble's clock advance, so this runs on the REAL
// clock with a coarse threshold: the second caller's context ends after 200 ms, the verdict threshold is 4 s, the
// first caller's context lasts 10 s (it is cancelled as soon as the second caller is back).
func runC08PublicIPOverlap(c *fw.Ctx, id string) {
	resetProcessState()
	rt := &stallRT{behave: map[string]string{}, release: make(chan struct{})}
	for _, h := range providerHosts {
		rt.behave[h] = "hang-before-headers"
	}
	f := publicip.VerifNewPublicIPFetcher(&http.Client{Transport: rt})
	ctx1, cancel1 := context.WithTimeout(context.Background(), 10*time.Second)
	defer cancel1()
	first := make(chan struct{})
	go func() { defer close(first); f.GetIP(ctx1) }()
	time.Sleep(50 * time.Millisecond)
	// every further lookup runs in its own goroutine and is given up after 14 s: a lookup that never returns (a lock that
	// is never released) is a verdict, not a frozen check
	timed := func(d time.Duration) (time.Duration, error, bool) {
		ctx, cancel := context.WithTimeout(context.Background(), d)
		defer cancel()
		type res struct {
			el  time.Duration
			err error
		}
		ch := make(chan res, 1)
		go func() { t0 := time.Now(); _, err := f.GetIP(ctx); ch <- res{time.Since(t0), err} }()
		select {
		case r := <-ch:
			return r.el, r.err, false
		case <-time.After(14 * time.Second):
			return 14 * time.Second, nil, true
		}
	}
	el, err, hung := timed(200 * time.Millisecond)
	cancel1()
	select {
	case <-first:
	case <-time.After(10 * time.Second):
		close(rt.release)
		<-first
	}
	c.Nontrivial("publicip-overlap-realtime")
	c.Count("publicip_overlap_ms", int(el.Milliseconds()))
	if hung {
		c.Violate("C08", "publicip-lookup-hangs", fmt.Sprintf("%s: a public-IP lookup whose context ended after 200 ms had not returned after 14 s while another lookup through the same fetcher was stalled", id), nil)
		return
	}
	if err == nil {
		c.Violate("C08", "publicip-overlap-no-error", fmt.Sprintf("%s: a lookup against providers that never answer succeeded", id), nil)
	}
	if el > 4*time.Second {
		c.Violate("C08", "publicip-overlap-queued", fmt.Sprintf("%s: a public-IP lookup whose context ended after 200 ms returned after %v of real time while another lookup through the same fetcher was stalled", id, el.Round(10*time.Millisecond)), nil)
	}
	// and back to back: both lookups above FAILED; the next one through the same fetcher is bounded like the first
	el3, _, hung3 := timed(200 * time.Millisecond)
	if hung3 || el3 > 4*time.Second {
		c.Violate("C08", "publicip-lookup-after-failure", fmt.Sprintf("%s: after two failed lookups the next one through the same fetcher (context of 200 ms) took %v (gave up waiting: %v)", id, el3.Round(10*time.Millisecond), hung3), nil)
	}
}

// runC08RealtimeSmoke: one ordinary run of a variant on the REAL clock (destination at TTL 3 of 4, 30 ms replies, timeout
// 300 ms). On the virtual clock a goroutine blocked on a mutex freezes the bubble (the case watchdog then ends the check as
// inconclusive); here a run that deadlocks simply does not come back: the bound is well under a second, the verdict
// threshold is 20 s.
func runC08RealtimeSmoke(c *fw.Ctx, id string, v refmatch.Variant) {
	spec := defaultSpec(v, 100+c.Worker, 1, 4)
	spec.Timeout, spec.Delay, spec.Poll, spec.HandshakeTimeout = 300*time.Millisecond, 20*time.Millisecond, 50*time.Millisecond, 500*time.Millisecond
	if v.Proto == "sack" {
		spec.Port = uint16(27000 + c.Worker)
	}
	e, err := newSimEnv(c, spec, 0x10000000)
	if err != nil {
		c.Inconclusive(err.Error())
		return
	}
	m := &pathModel{hops: map[int]*hopSpec{}, dist: 3, destDelay: 30 * time.Millisecond}
	for t := 1; t < 3; t++ {
		m.hops[t] = &hopSpec{addr: routerAddr(v.V6, 1, t), delay: 30 * time.Millisecond}
	}
	if v.Proto == "syn" {
		// a SYN-ACK of the target that acknowledges something else (another connection attempt to the same port) arrives
		// after the first probe: it is looked at and skipped, and the run goes on
		m.extra = func(e *simEnv, p *refmatch.Probe) {
			if p.TTL == 1 {
				e.inject(gen.TCPReply(e.spec.Target, e.local, e.spec.Port, e.lport, 0x66000000, p.Seq+7777, wirefmt.TCPSyn|wirefmt.TCPAck, wirefmt.OptMSS(1460), nil, nil), "near-miss-synack", p, 2*time.Millisecond)
				// ... and a stale time-exceeded of an earlier run on the same port: right addresses and ports, an IP-ID and
				// sequence number no probe of this run has
				q := gen.QuoteBytes(p, 1, "fix")
				if len(q) >= 28 {
					q[4], q[5] = q[4]^0x3c, q[5]^0xc3
					q[24], q[25] = q[24]^0x11, q[25]^0x22
					gen.FixIPv4Checksum(q, "fix")
					e.inject(gen.WrapError(routerAddr(false, 4, 1), e.local, gen.TimeExceeded, 0, q, "min", nil, 0), "stale-time-exceeded", p, 4*time.Millisecond)
				}
			}
		}
	}
	if v.Proto == "udp" && !v.V6 {
		// a stale time-exceeded of an earlier run of the same flow: right addresses and ports, an IP-ID no probe of this
		// run has - looked up, not found, skipped
		m.extra = func(e *simEnv, p *refmatch.Probe) {
			if p.TTL == 1 {
				q := gen.QuoteBytes(p, 1, "fix")
				if len(q) >= 28 {
					q[4], q[5] = q[4]^0x3c, q[5]^0xc3
					gen.FixIPv4Checksum(q, "fix")
					e.inject(gen.WrapError(routerAddr(false, 4, 1), e.local, gen.TimeExceeded, 0, q, "min", nil, 0), "stale-time-exceeded", p, 4*time.Millisecond)
				}
			}
		}
	}
	if v.Proto == "sack" {
		// an acknowledgement on the probed connection whose SACK blocks lie outside the probe range (a D-SACK below the
		// initial sequence number, a block for other data): nothing of this run's, skipped
		m.extra = func(e *simEnv, p *refmatch.Probe) {
			if p.TTL == 1 {
				isn := p.Seq - uint32(p.TTL)
				opts := wirefmt.OptSack([][2]uint32{{isn - 5000, isn - 4990}, {isn + 600, isn + 601}})
				e.inject(gen.TCPReply(e.spec.Target, e.local, e.spec.Port, e.lport, 0x51000001, isn, wirefmt.TCPAck, opts, nil, nil), "out-of-window-sack", p, 4*time.Millisecond)
			}
		}
	}
	done := make(chan drive.Result, 1)
	t0 := time.Now()
	go func() { done <- e.run(m) }()
	select {
	case res := <-done:
		e.close()
		c.Nontrivial("realtime-smoke/" + v.Name)
		c.Count("realtime_smoke_ms", int(time.Since(t0).Milliseconds()))
		if res.Err != nil {
			c.Inconclusive(fmt.Sprintf("%s: run failed: %v", id, res.Err))
		}
	case <-time.After(20 * time.Second):
		// the run never returned; its goroutines stay behind (the handle is left open on purpose: closing it could
		// unblock them and hide the hang from the dump)
		c.Violate("C08", "realtime-hang/"+v.Name, fmt.Sprintf("%s: an ordinary run (4 TTLs, timeout 300 ms, replies after 30 ms) had not returned after 20 s of real time", id), map[string]any{"goroutines": repoGoroutines()})
	}
}

// runC08SackSilentTarget: a SACK run against a target that silently drops the SYN (an address behind the peer
// namespace, which does not forward). The TCP dial is a real syscall, so this runs on the REAL clock, outside a
// bubble. The dial must be abandoned after HandshakeTimeout (300 ms); the whole-run deadline (handshake + FIN
// allowance + listening time, 8.6 s here; 500 s in production) is not a bound a caller can live with. Coarse on
// purpose: the verdict threshold is 4 s.
func runC08SackSilentTarget(c *fw.Ctx, id string) {
	target := netip.AddrFrom4([4]byte{10, 205, byte(10 + c.Worker), 9})
	w := simnet.NewWire()
	unreg := simnet.Register(w, target)
	defer unreg()
	pp := common.TracerouteParallelParams{TracerouteParams: common.TracerouteParams{MinTTL: 1, MaxTTL: 3, TracerouteTimeout: 200 * time.Millisecond, PollFrequency: 50 * time.Millisecond, SendDelay: 10 * time.Millisecond}}
	t0 := time.Now()
	_, err := sack.RunSackTraceroute(context.Background(), sack.Params{Target: netip.AddrPortFrom(target, 8080), HandshakeTimeout: 300 * time.Millisecond,
		FinTimeout: 8 * time.Second, ParallelParams: pp})
	el := time.Since(t0)
	c.Nontrivial("sack-silent-target")
	c.Count("sack_silent_dial_ms", int(el.Milliseconds()))
	if err == nil {
		c.Violate("C08", "silent-target-succeeded", id+": the target never answered the SYN but the SACK run succeeded", nil)
		return
	}
	c.Sample(map[string]any{"case": id, "real_elapsed": el.String(), "error": err.Error()})
	if el > 4*time.Second {
		c.Violate("C08", "sack-dial-unbounded", fmt.Sprintf("%s: a SACK run against a silent target took %v of real time; the handshake timeout is 300 ms (error: %v)", id, el.Round(100*time.Millisecond), err), nil)
	}
	if lc := w.Lifecycle(); len(lc) > 0 {
		c.Violate("C10", "lifecycle/sack-silent-target", fmt.Sprintf("%s: %v", id, lc), nil)
	}
}

func runC08Rdns(c *fw.Ctx, id string, r *rand.Rand) {
	resetProcessState()
	release := make(chan struct{})
	kinds := []string{"hang", "slow", "error", "ok"}
	beh := map[string]string{}
	old := reversedns.LookupAddrFn
	reversedns.LookupAddrFn = func(ctx context.Context, addr string) ([]string, error) {
		switch beh[addr] {
		case "hang":
			select {
			case <-ctx.Done():
				return nil, ctx.Err()
			case <-release:
				return nil, errors.New("released by harness")
			}
		case "slow":
			select {
			case <-time.After(3 * time.Second):
				return namesFor(addr), nil
			case <-ctx.Done():
				return nil, ctx.Err()
			}
		case "error":
			return nil, errResolver
		}
		return namesFor(addr), nil
	}
	defer func() { reversedns.LookupAddrFn = old }()
	var ips []string
	for i := 0; i < 12; i++ {
		a := fmt.Sprintf("198.51.%d.%d", r.Intn(4), 1+r.Intn(250))
		beh[a] = kinds[r.Intn(len(kinds))]
		ips = append(ips, a)
	}
	bound := 5*time.Second + 100*time.Millisecond
	el, hung := withWatchdog(4*bound, release, func() {
		var l []net.IP
		for _, a := range ips {
			l = append(l, net.IP(parseIP(a)))
		}
		reversedns.GetReverseDnsForIPs(l)
	})
	c.Count("rdns_batches", 1)
	for _, k := range beh {
		c.Nontrivial("rdns/" + k)
	}
	if hung || el > bound {
		c.Violate("C08", "rdns-unbounded", fmt.Sprintf("%s: reverse-DNS batch took %v of virtual time (hung=%v), bound %v", id, el, hung, bound), fmt.Sprint(beh))
	}
}

// runC08Request: the whole RunTraceroute with the production public-IP fetcher on a stalled provider.
func runC08Request(c *fw.Ctx, id string, r *rand.Rand, proto string) {
	resetProcessState()
	v := map[string]refmatch.Variant{"udp": refmatch.VariantByName("udp4"), "icmp": refmatch.VariantByName("icmp4"), "tcp": refmatch.VariantByName("syn")}[proto]
	target := drive.TargetFor(v, c.Worker)
	// (timeout, end-to-end probes): the pause between two end-to-end probes is MaxTTL*timeout/probes, at most one second
	// (a listening timeout of 0 - `--timeout 0`, an unset field of a library caller - is a parameter like any other: the
	// bound computed from it is the pacing plus one poll interval)
	shape := [][2]int{{1000, 3}, {100, 10}, {300, 6}, {1000, 3}, {40, 12}, {0, 3}}[r.Intn(6)]
	params := traceroute.TracerouteParams{Hostname: target.String(), Port: 33434, Protocol: proto, MinTTL: 1, MaxTTL: 5, Delay: 50, Timeout: time.Duration(shape[0]) * time.Millisecond,
		TCPMethod: traceroute.TCPConfigSYN, TracerouteQueries: 3, E2eQueries: shape[1], ReverseDns: true, CollectSourcePublicIP: true}
	env, err := newReqEnv(c, params, target, 33434, false)
	if err != nil {
		c.Inconclusive(err.Error())
		return
	}
	defer env.close()
	rt := &stallRT{behave: map[string]string{}, release: make(chan struct{})}
	kinds := []string{"hang-before-headers", "hang-after-headers", "very-slow-body", "transport-error", "valid"}
	var plan []string
	calm := r.Intn(2) == 0 // auxiliary services answer at once: the bound is then the request's own pacing and listening time
	for _, h := range providerHosts {
		k := kinds[r.Intn(len(kinds))]
		if calm {
			k = "valid"
		}
		rt.behave[h] = k
		plan = append(plan, k)
	}
	env.fetcher = publicip.VerifNewPublicIPFetcher(&http.Client{Transport: rt})
	rs := installResolver(func(addr string) ([]string, error, time.Duration) {
		if !calm && r.Intn(3) == 0 {
			return nil, nil, 10 * time.Second // beyond the lookup timeout: must be abandoned after 5 s
		}
		return namesFor(addr), nil, 2 * time.Millisecond
	})
	defer rs.restore()
	env.modelFor = func(k int, e *simEnv) *pathModel { return flowPath(k, e, 4, k%2 == 0, 5*time.Millisecond) }
	spec := drive.Spec{V: v, MinTTL: 1, MaxTTL: 5, Timeout: params.Timeout, Delay: 50 * time.Millisecond, Poll: 100 * time.Millisecond}
	// e2e launch pauses ((probes-1) x min(MaxTTL*timeout/probes, 1 s)) + slowest run + public ip (5 providers x 2.75 s) + reverse DNS (5 s)
	pause := time.Duration(params.MaxTTL) * params.Timeout / time.Duration(params.E2eQueries)
	if pause > time.Second {
		pause = time.Second
	}
	bound := time.Duration(params.E2eQueries-1)*pause + 10*time.Millisecond + timeBound(spec) + 5*2750*time.Millisecond + 5100*time.Millisecond
	if calm {
		bound = time.Duration(params.E2eQueries-1)*pause + 10*time.Millisecond + timeBound(spec) + 200*time.Millisecond
	}
	var rerr error
	el, hung := withWatchdog(4*bound, rt.release, func() { _, rerr = env.run(context.Background()) })
	tag := fmt.Sprintf("%s proto=%s timeout=%v e2e=%d calm=%v providers=%v", id, proto, params.Timeout, params.E2eQueries, calm, plan)
	c.Count("requests_timed", 1)
	c.Nontrivial("request/" + proto)
	if hung {
		c.Violate("C08", "request-unbounded/"+proto, fmt.Sprintf("%s: RunTraceroute had not returned after %v of virtual time (bound %v)", tag, el, bound), map[string]any{"requests": rt.requests, "err": fmt.Sprint(rerr)})
	} else if el > bound {
		c.Violate("C08", "request-late/"+proto, fmt.Sprintf("%s: RunTraceroute took %v of virtual time, bound %v", tag, el, bound), nil)
	}
	c.Sample(map[string]any{"case": tag, "virtual_elapsed": el.String(), "bound": bound.String(), "hung": hung, "err": fmt.Sprint(rerr)})
}

func parseIP(s string) []byte { return netip.MustParseAddr(s).AsSlice() }

func checkC08() fw.Check {
	return fw.Check{
		Prop:  "C08",
		Level: "exploration",
		Rule: "all times are virtual (testing/synctest): (1) every variant under network behaviours {silence, 10^4/s flood of irrelevant frames, malformed flood, bursts of 10^3 frames at one instant, a hop or the destination duplicating its valid matching reply several times per poll interval beyond the deadline} must end within the closed-form bound (parallel: timeout + n*delay + poll; serial: n*(timeout+poll+delay); SACK adds dial + 500 ms handshake); (2) engine runs (scripted driver, and the real ICMP and SACK entry points) cancelled before start, at every send/poll boundary +-1 us and at seeded instants must return context.Canceled within one poll interval + one send delay of the cancel instant; (3) GetPublicIP, the reverse-DNS batch and whole RunTraceroute requests against scripted HTTP/DNS responders that stall exactly like http.Transport would (hang before headers, hang after headers, slow and very slow bodies, errors) must end within their bounds, and (real clock, coarse) a lookup whose context ends must return although another lookup through the same fetcher is stalled; an in-bubble watchdog at 4x the bound records a hang and then releases the stalled responder so the case can finish. " +
			"distinct_nontrivial counts distinct (workload, variant/engine, behaviour/cancel class) signatures executed",
		Workers:       1,
		MinNontrivial: 40,
		Assumptions:   []string{"UDP and TCP entry points take no context by construction: only engine runs and the ICMP/SACK entry points are judged for cancellation", "unbounded 'eventually' is restated as explicit virtual-time bounds; a hang is what the 4x watchdog observes", "Linux build"},
		Gen: func(tier string, seed int64) []fw.Case {
			var cases []fw.Case
			// first: if this one already shows a serialised fan-out, the bubble cases below would stall on it
			cases = append(cases, fw.Case{ID: "C08/rdns-realtime", Run: func(c *fw.Ctx) { runC08RdnsRealTime(c, c.ID) }})
			for _, v := range refmatch.Variants {
				v := v
				id := "C08/realtime-smoke/" + v.Name
				cases = append(cases, fw.Case{ID: id, Run: func(c *fw.Ctx) { runC08RealtimeSmoke(c, id, v) }})
			}
			cases = append(cases, fw.Case{ID: "C08/publicip-overlap-realtime", Run: func(c *fw.Ctx) { runC08PublicIPOverlap(c, c.ID) }})
			cases = append(cases, fw.Case{ID: "C08/sack-silent-target", Run: func(c *fw.Ctx) { runC08SackSilentTarget(c, c.ID) }})
			wins := []window{{1, 6}}
			if tier == "thorough" {
				wins = append([]window{{1, 6}, {250, 255}, {1, 30}}, thoroughWindows(seed, 6)[len(windowsThorough):]...)
			}
			for _, v := range refmatch.Variants {
				for _, nb := range netBehaviours() {
					ws := wins
					if tier != "thorough" && nb.name == "silence" {
						ws = append([]window{{250, 255}}, wins...) // the last TTL a byte can hold: loop counters must not wrap
					}
					for _, w := range ws {
						v, nb, w := v, nb, w
						if nb.name == "valid-duplicate-stream-dest" && v.Serial {
							continue
						}
						id := fmt.Sprintf("C08/net/%s/%s/%d-%d", v.Name, nb.name, w.first, w.last)
						cases = append(cases, fw.Case{ID: id, Bubble: true, Run: func(c *fw.Ctx) { runC08Net(c, id, v, nb, w) }})
					}
				}
			}
			for _, vn := range []string{"sackR", "sackS"} {
				for _, noise := range []bool{false, true} {
					vn, noise := vn, noise
					id := fmt.Sprintf("C08/no-handshake/%s/noise%v", vn, noise)
					cases = append(cases, fw.Case{ID: id, Bubble: true, Run: func(c *fw.Ctx) { runC08NoHandshake(c, id, refmatch.VariantByName(vn), noise) }})
				}
			}
			// cancellation grid: every send and poll boundary +-1us, plus seeded random instants
			var instants []time.Duration
			instants = append(instants, 0)
			for k := 0; k <= 6; k++ {
				b := time.Duration(k) * 50 * time.Millisecond
				instants = append(instants, b+time.Microsecond, b+50*time.Millisecond-time.Microsecond, b+50*time.Millisecond)
			}
			for k := 1; k <= 8; k++ {
				b := time.Duration(k) * 100 * time.Millisecond
				instants = append(instants, b-time.Microsecond, b, b+time.Microsecond)
			}
			rr := rand.New(rand.NewSource(seed))
			nrand := 100
			if tier == "thorough" {
				nrand = 5000
			}
			for i := 0; i < nrand; i++ {
				instants = append(instants, time.Duration(rr.Int63n(int64(3400*time.Millisecond))))
			}
			for i, at := range instants {
				at := at
				for _, par := range []bool{true, false} {
					for _, silent := range []bool{true, false} {
						par, silent := par, silent
						id := fmt.Sprintf("C08/cancel-engine/%d/%s/silent%v", i, engName(par), silent)
						cases = append(cases, fw.Case{ID: id, Bubble: true, Run: func(c *fw.Ctx) { runC08CancelEngine(c, id, par, at, silent) }})
						if !silent && (at == 150*time.Millisecond-time.Microsecond || at == 150*time.Millisecond) {
							id2 := id + "/dest-reply-on-its-way"
							cases = append(cases, fw.Case{ID: id2, Bubble: true, Run: func(c *fw.Ctx) { runC08CancelEngineScript(c, id2, par, at, false, true) }})
						}
					}
				}
				if i%3 == 0 || tier == "thorough" {
					for _, vn := range []string{"icmp4", "icmp6", "sackR"} {
						vn := vn
						id := fmt.Sprintf("C08/cancel-real/%d/%s", i, vn)
						cases = append(cases, fw.Case{ID: id, Bubble: true, Run: func(c *fw.Ctx) { runC08CancelReal(c, id, refmatch.VariantByName(vn), at) }})
					}
				}
			}
			n := 60
			if tier == "thorough" {
				n = 9000
			}
			for i := 0; i < n; i++ {
				cases = append(cases, fw.Case{ID: fmt.Sprintf("C08/publicip/%d", i), Bubble: true, Run: func(c *fw.Ctx) { runC08PublicIP(c, c.ID, c.Rng) }})
				cases = append(cases, fw.Case{ID: fmt.Sprintf("C08/rdns/%d", i), Bubble: true, Run: func(c *fw.Ctx) { runC08Rdns(c, c.ID, c.Rng) }})
			}
			for i := 0; i < n/3+1; i++ {
				proto := []string{"udp", "icmp", "tcp"}[i%3]
				cases = append(cases, fw.Case{ID: fmt.Sprintf("C08/request/%d", i), Bubble: true, Run: func(c *fw.Ctx) { runC08Request(c, c.ID, c.Rng, proto) }})
			}
			return cases
		},
	}
}

var _ = wirefmt.ProtoTCP
