package checks

import (
	"bytes"
	"context"
	"encoding/json"
	"fmt"
	"os"
	"os/exec"
	"path/filepath"
	"strings"
	"sync"
	"time"

	"verif/harness/fw"
)

func init() { register("C13", checkC13) }

// lab is a chain  src -- R1 -- ... -- RN -- dst  of network namespaces connected by veth pairs; the routers
// are plain Linux kernels (ip_forward), so every reply the tool sees is produced by the kernel's own stack.
type lab struct {
	id      string
	n       int
	ns      []string // ns[0]=src, ns[1..n]=routers, ns[n+1]=dst
	procs   []*exec.Cmd
	silent  int
	v6      bool
	cleaned bool
	pub     map[int]bool // links numbered from public (non-RFC1918 / non-ULA) blocks; default: every link private
	bin     string       // CLI binary name in VERIF_BUILD_DIR (default datadog-traceroute)
}

// labArgs: a check that itself runs inside the private namespace pair (everything except C13) reaches the lab through
// the initial mount and network namespaces (those of the outer test process), where `ip netns` keeps its name table.
func labArgs(args []string) []string {
	if outer := os.Getenv("VERIF_OUTER_PID"); os.Getenv("VERIF_NS_MAIN") != "" && outer != "" {
		// the process that created the pair and waits for this one still lives in the initial namespaces
		return append([]string{"nsenter", "-t", outer, "-m", "-n", "--"}, args...)
	}
	return args
}

func run(args ...string) (string, error) {
	args = labArgs(args)
	out, err := exec.Command(args[0], args[1:]...).CombinedOutput()
	if err != nil {
		return string(out), fmt.Errorf("%s: %v: %s", strings.Join(args, " "), err, strings.TrimSpace(string(out)))
	}
	return string(out), nil
}

func (l *lab) net4(link int) string {
	if l.pub[link] {
		return fmt.Sprintf("198.18.%d.", link)
	}
	return fmt.Sprintf("10.13.%d.", link)
}
func (l *lab) net6(link int) string {
	if l.pub[link] {
		return fmt.Sprintf("2001:db8:13:%x::", link)
	}
	return fmt.Sprintf("fd13:%x::", link)
}
func (l *lab) addr4(link int, right bool) string {
	h := 1
	if right {
		h = 2
	}
	return fmt.Sprintf("%s%d", l.net4(link), h)
}
func (l *lab) addr6(link int, right bool) string {
	h := 1
	if right {
		h = 2
	}
	return fmt.Sprintf("%s%d", l.net6(link), h)
}

// routerAddr4 is the address router k (1-based) answers from: its interface towards the source.
func (l *lab) hopAddr(k int, v6 bool) string {
	if v6 {
		return l.addr6(k, true)
	}
	return l.addr4(k, true)
}
func (l *lab) dest(v6 bool) string { return l.hopAddr(l.n+1, v6) }

func newLab(tag string, n int) (*lab, error) { return newLabPub(tag, n, nil) }

func newLabPub(tag string, n int, pub map[int]bool) (*lab, error) {
	l := &lab{id: fmt.Sprintf("c13%d%s", os.Getpid()%100000, tag), n: n, pub: pub}
	for i := 0; i <= n+1; i++ {
		l.ns = append(l.ns, fmt.Sprintf("%sn%d", l.id, i))
	}
	l.cleanup()
	l.cleaned = false
	for _, ns := range l.ns {
		if _, err := run("ip", "netns", "add", ns); err != nil {
			l.cleanup()
			return nil, err
		}
		run("ip", "-n", ns, "link", "set", "lo", "up")
		for _, kv := range []string{"net.ipv4.ip_forward=1", "net.ipv6.conf.all.forwarding=1", "net.ipv4.icmp_ratelimit=0", "net.ipv6.icmp.ratelimit=0",
			"net.ipv4.icmp_msgs_per_sec=10000", "net.ipv4.icmp_msgs_burst=10000", "net.ipv4.conf.all.rp_filter=0", "net.ipv4.conf.default.rp_filter=0"} {
			run("ip", "netns", "exec", ns, "sysctl", "-qw", kv)
		}
	}
	for link := 1; link <= n+1; link++ {
		a, b := l.ns[link-1], l.ns[link]
		la, lb := fmt.Sprintf("r%d", link), fmt.Sprintf("l%d", link)
		cmds := [][]string{
			{"ip", "link", "add", la, "netns", a, "type", "veth", "peer", "name", lb, "netns", b},
			{"ip", "-n", a, "addr", "add", l.addr4(link, false) + "/24", "dev", la},
			{"ip", "-n", b, "addr", "add", l.addr4(link, true) + "/24", "dev", lb},
			{"ip", "-n", a, "-6", "addr", "add", l.addr6(link, false) + "/64", "dev", la, "nodad"},
			{"ip", "-n", b, "-6", "addr", "add", l.addr6(link, true) + "/64", "dev", lb, "nodad"},
			{"ip", "-n", a, "link", "set", la, "up"},
			{"ip", "-n", b, "link", "set", lb, "up"},
		}
		for _, c := range cmds {
			if _, err := run(c...); err != nil {
				l.cleanup()
				return nil, err
			}
		}
	}
	// routes: node k reaches links > k+1 through its right neighbour and links < k through its left neighbour
	for k := 0; k <= n+1; k++ {
		for link := 1; link <= n+1; link++ {
			switch {
			case link > k+1:
				run("ip", "-n", l.ns[k], "route", "add", l.net4(link)+"0/24", "via", l.addr4(k+1, true))
				run("ip", "-n", l.ns[k], "-6", "route", "add", l.net6(link)+"/64", "via", l.addr6(k+1, true))
			case link < k:
				run("ip", "-n", l.ns[k], "route", "add", l.net4(link)+"0/24", "via", l.addr4(k, false))
				run("ip", "-n", l.ns[k], "-6", "route", "add", l.net6(link)+"/64", "via", l.addr6(k, false))
			}
		}
	}
	return l, nil
}

func (l *lab) cleanup() {
	if l.cleaned {
		return
	}
	l.cleaned = true
	for _, p := range l.procs {
		if p.Process != nil {
			p.Process.Kill()
			p.Wait()
		}
	}
	for _, ns := range l.ns {
		a := labArgs([]string{"ip", "netns", "del", ns})
		exec.Command(a[0], a[1:]...).Run()
	}
}

// listen starts a TCP listener on port in the destination namespace that accepts and holds connections.
func (l *lab) listen(port int) error {
	script := fmt.Sprintf(`
import socket,sys,time
s=socket.socket(socket.AF_INET6, socket.SOCK_STREAM)
s.setsockopt(socket.SOL_SOCKET, socket.SO_REUSEADDR, 1)
s.setsockopt(socket.IPPROTO_IPV6, socket.IPV6_V6ONLY, 0)
s.bind(("::", %d)); s.listen(64)
sys.stdout.write("ready\n"); sys.stdout.flush()
conns=[]
while True:
    c,_=s.accept(); conns.append(c)
`, port)
	la := labArgs([]string{"ip", "netns", "exec", l.ns[l.n+1], "python3", "-c", script})
	cmd := exec.Command(la[0], la[1:]...)
	stdout, _ := cmd.StdoutPipe()
	if err := cmd.Start(); err != nil {
		return err
	}
	l.procs = append(l.procs, cmd)
	buf := make([]byte, 16)
	done := make(chan error, 1)
	go func() { _, err := stdout.Read(buf); done <- err }()
	select {
	case err := <-done:
		return err
	case <-time.After(90 * time.Second): // a python start-up, on a machine that may be running every other check as well
		return fmt.Errorf("listener did not come up")
	}
}

// delay makes node k hold every packet it originates towards the source host (time-exceeded, echo reply, port
// unreachable, SYN-ACK, RST) for ms milliseconds: an NFQUEUE rule in its OUTPUT chain and a userspace program that
// accepts each packet after the delay. (This image has no sch_netem.)
func (l *lab) delay(k int, ms int) error {
	verif := os.Getenv("VERIF_DIR")
	if verif == "" {
		verif = *fw.FlagVerif
	}
	for _, fam := range []string{"4", "6"} {
		ipt, src := "iptables", l.addr4(1, false)
		if fam == "6" {
			ipt, src = "ip6tables", l.addr6(1, false)
		}
		la := labArgs([]string{"ip", "netns", "exec", l.ns[k], "python3", filepath.Join(verif, "tools", "nfq_delay.py"), "9", fmt.Sprint(ms), fam})
		cmd := exec.Command(la[0], la[1:]...)
		stdout, _ := cmd.StdoutPipe()
		if err := cmd.Start(); err != nil {
			return err
		}
		l.procs = append(l.procs, cmd)
		buf := make([]byte, 16)
		done := make(chan error, 1)
		go func() { _, err := stdout.Read(buf); done <- err }()
		select {
		case err := <-done:
			if err != nil {
				return fmt.Errorf("delay program: %v", err)
			}
		case <-time.After(90 * time.Second):
			return fmt.Errorf("delay program did not come up")
		}
		if _, err := run("ip", "netns", "exec", l.ns[k], ipt, "-A", "OUTPUT", "-d", src, "-j", "NFQUEUE", "--queue-num", "9"); err != nil {
			return err
		}
	}
	return nil
}

func (l *lab) sysctl(node int, kv string) {
	run("ip", "netns", "exec", l.ns[node], "sysctl", "-qw", kv)
}

type c13Hop struct {
	TTL    int     `json:"ttl"`
	IP     string  `json:"ip"`
	RTT    float64 `json:"rtt"`
	IsDest bool    `json:"is_dest"`
}

type c13Out struct {
	err  string
	runs [][]c13Hop
	rtts []float64
	raw  string
}

// cli runs the real CLI (built from the working tree, no verif tag) inside the source namespace.
func (l *lab) cli(args ...string) c13Out { return l.cliIn(0, args...) }

// cliIn runs the CLI inside node k of the chain (0 = source host, n+1 = destination host).
func (l *lab) cliIn(k int, args ...string) c13Out {
	name := l.bin
	if name == "" {
		name = "datadog-traceroute"
	}
	bin := filepath.Join(os.Getenv("VERIF_BUILD_DIR"), name)
	ctx, cancel := context.WithTimeout(context.Background(), 120*time.Second)
	defer cancel()
	la := labArgs(append([]string{"ip", "netns", "exec", l.ns[k], bin}, args...))
	cmd := exec.CommandContext(ctx, la[0], la[1:]...)
	var so, se bytes.Buffer
	cmd.Stdout, cmd.Stderr = &so, &se
	err := cmd.Run()
	o := c13Out{raw: so.String()}
	if ctx.Err() != nil {
		o.err = "WATCHDOG"
		return o
	}
	if err != nil {
		o.err = fmt.Sprintf("exit: %v: %s", err, strings.TrimSpace(se.String()))
		return o
	}
	var doc struct {
		Traceroute struct {
			Runs []struct {
				Hops []struct {
					TTL int     `json:"ttl"`
					IP  string  `json:"ip_address"`
					RTT float64 `json:"rtt"`
				} `json:"hops"`
			} `json:"runs"`
		} `json:"traceroute"`
		E2e struct {
			RTTs []float64 `json:"rtts"`
		} `json:"e2e_probe"`
	}
	if err := json.Unmarshal(so.Bytes(), &doc); err != nil {
		o.err = "bad json: " + err.Error()
		return o
	}
	for _, r := range doc.Traceroute.Runs {
		var hs []c13Hop
		for _, h := range r.Hops {
			hs = append(hs, c13Hop{TTL: h.TTL, IP: h.IP, RTT: h.RTT})
		}
		o.runs = append(o.runs, hs)
	}
	o.rtts = doc.E2e.RTTs
	return o
}

// helper runs the library caller (explicit MinTTL and the IsDest flag).
func (l *lab) helper(params map[string]any) c13Out {
	bin := filepath.Join(os.Getenv("VERIF_BUILD_DIR"), "trhelper")
	ctx, cancel := context.WithTimeout(context.Background(), 120*time.Second)
	defer cancel()
	la := labArgs([]string{"ip", "netns", "exec", l.ns[0], bin})
	cmd := exec.CommandContext(ctx, la[0], la[1:]...)
	in, _ := json.Marshal(params)
	cmd.Stdin = bytes.NewReader(in)
	var so, se bytes.Buffer
	cmd.Stdout, cmd.Stderr = &so, &se
	err := cmd.Run()
	o := c13Out{raw: so.String()}
	if ctx.Err() != nil {
		o.err = "WATCHDOG"
		return o
	}
	if err != nil {
		o.err = fmt.Sprintf("exit: %v: %s", err, se.String())
		return o
	}
	var doc struct {
		Error string     `json:"error"`
		Runs  [][]c13Hop `json:"runs"`
		RTTs  []float64  `json:"rtts"`
	}
	if err := json.Unmarshal(so.Bytes(), &doc); err != nil {
		o.err = "bad json: " + err.Error()
		return o
	}
	o.err, o.runs, o.rtts = doc.Error, doc.Runs, doc.RTTs
	return o
}

// expectChain returns the expected hop addresses for first..(n+1) with silent router s (0 = none).
func (l *lab) expectChain(first int, v6 bool) []string {
	var out []string
	for k := first; k <= l.n; k++ {
		if k == l.silent {
			out = append(out, "")
		} else {
			out = append(out, l.hopAddr(k, v6))
		}
	}
	return append(out, l.dest(v6))
}

// judgeRun compares one run with the expected chain; returns "" when it matches.
func judgeRun(hops []c13Hop, want []string, first int, needDestFlag bool) string {
	if len(hops) != len(want) {
		return fmt.Sprintf("%d hops, expected %d (%v): got %s", len(hops), len(want), want, fmtC13(hops))
	}
	for i, h := range hops {
		if h.TTL != first+i {
			return fmt.Sprintf("hop %d has ttl %d", i, h.TTL)
		}
		if h.IP != want[i] {
			return fmt.Sprintf("ttl %d reports %q, the path has %q: got %s", h.TTL, h.IP, want[i], fmtC13(hops))
		}
		if h.RTT < 0 {
			return fmt.Sprintf("ttl %d has negative RTT %v", h.TTL, h.RTT)
		}
		if needDestFlag && h.IsDest != (i == len(hops)-1) {
			return fmt.Sprintf("ttl %d destination flag %v", h.TTL, h.IsDest)
		}
	}
	return ""
}

func fmtC13(hops []c13Hop) string {
	var s []string
	for _, h := range hops {
		ip := h.IP
		if ip == "" {
			ip = "*"
		}
		if h.IsDest {
			ip += "(dest)"
		}
		s = append(s, ip)
	}
	return strings.Join(s, " ")
}

type c13Cfg struct {
	name      string
	n         int
	silent    int
	noSack    bool
	ecn       bool // the source host requests ECN: the target's SYN-ACK carries ECE
	delayMs   int  // every router (and, with delayDest, the destination host) holds what it sends towards the source for this long (NFQUEUE + tools/nfq_delay.py): a path with real latency
	delayDest bool
	bigPing   bool // router 1 pings the source host with 3000-byte echo requests (two fragments each) while the tool traces
	unreach   int  // router that rejects everything for the destination (IPv4: REJECT rule, IPv6: `unreachable` route; 0 = none): it answers every probe that gets that far with destination-unreachable
	run       func(l *lab) (got c13Out, problem string)
}

func checkC13() fw.Check {
	return fw.Check{
		Prop:  "C13",
		Level: "exploration",
		Rule: "the CLI binary (built from the working tree without the verif tag) and a library caller are run inside a chain of network namespaces src - R1..RN - dst whose routers are plain Linux kernels (ip_forward, ICMP rate limiting off): path lengths N, protocol in {icmp, udp, tcp syn, tcp sack, tcp prefer_sack} (+ IPv6 for icmp/udp), destination port open (python listener) / closed / SACK disabled (net.ipv4.tcp_sack=0), one router with ICMP generation suppressed, first TTL > 1 with the explicit destination flag, several traceroutes at once (parallel CLI processes and one multi-query request); every reply comes from the kernel's IP/ICMP/TCP stack; oracle: the hop chain equals [R1..RN, destination] exactly, RTT >= 0, destination flag only on the last hop, closed port reached via RST, silent router as empty hop, SACK-less target fails (sack) / falls back (prefer_sack); paths with real latency (every node holds its replies for 400 ms through NFQUEUE and a userspace delay program, per-probe timeout 500 ms): same chain, and every RTT and end-to-end sample within [400 ms, 850 ms]. After a mismatch the configuration is repeated (up to 5 runs): 3 mismatches are a verdict, 3 matches are kernel timing noise; a CLI watchdog makes the case inconclusive. " +
			"distinct_nontrivial counts distinct (N, protocol, destination state, special) configurations whose chain matched",
		Workers:       4,
		MinNontrivial: 8,
		Assumptions:   []string{"needs CAP_NET_ADMIN (the sandbox runs as root); without it the check is inconclusive", "Linux routers answer from the address of the interface facing the source", "no wall-clock verdict: only addresses/flags are judged"},
		Gen: func(tier string, seed int64) []fw.Case {
			var cfgs []c13Cfg
			cliChain := func(name string, n int, v6 bool, args ...string) c13Cfg {
				return c13Cfg{name: name, n: n, run: func(l *lab) (c13Out, string) {
					target := l.dest(v6)
					a := append([]string{}, args...)
					if v6 {
						a = append(a, "--ipv6")
					}
					o := l.cli(append(a, "-m", fmt.Sprint(n+3), "--timeout", "1000", target)...)
					if o.err != "" {
						return o, "CLI failed: " + o.err
					}
					if len(o.runs) == 0 {
						return o, "no runs in the output"
					}
					for _, r := range o.runs {
						if p := judgeRun(r, l.expectChain(1, v6), 1, false); p != "" {
							return o, p
						}
					}
					// the counts asked for on the command line: -q runs, -Q end-to-end samples, each positive (the
					// destination answers in every configuration that uses cliChain without a silent destination)
					wantQ, wantE := -1, -1
					for i := 0; i+1 < len(args); i++ {
						if args[i] == "-q" {
							fmt.Sscan(args[i+1], &wantQ)
						}
						if args[i] == "-Q" {
							fmt.Sscan(args[i+1], &wantE)
						}
					}
					if wantQ >= 0 && len(o.runs) != wantQ {
						return o, fmt.Sprintf("%d runs in the output, -q %d", len(o.runs), wantQ)
					}
					if wantE >= 0 && len(o.rtts) != wantE {
						return o, fmt.Sprintf("%d end-to-end samples in the output, -Q %d", len(o.rtts), wantE)
					}
					for _, r := range o.rtts {
						if r <= 0 {
							return o, fmt.Sprintf("end-to-end probe to a reachable destination reported %v", o.rtts)
						}
					}
					return o, ""
				}}
			}
			ns := []int{3}
			if tier == "thorough" {
				ns = []int{1, 2, 3, 4, 6}
			}
			for _, n := range ns {
				cfgs = append(cfgs,
					cliChain(fmt.Sprintf("icmp/N%d", n), n, false, "-P", "icmp", "-q", "1", "-Q", "0"),
					cliChain(fmt.Sprintf("udp/N%d", n), n, false, "-P", "udp", "-q", "1", "-Q", "0"),
					cliChain(fmt.Sprintf("tcp-syn-open/N%d", n), n, false, "-P", "tcp", "-p", "8080", "--tcp-method", "syn", "-q", "1", "-Q", "0"),
					cliChain(fmt.Sprintf("tcp-syn-closed/N%d", n), n, false, "-P", "tcp", "-p", "8099", "--tcp-method", "syn", "-q", "1", "-Q", "0"),
					cliChain(fmt.Sprintf("tcp-sack-open/N%d", n), n, false, "-P", "tcp", "-p", "8080", "--tcp-method", "sack", "-q", "1", "-Q", "0"),
					cliChain(fmt.Sprintf("tcp-prefer-sack-open/N%d", n), n, false, "-P", "tcp", "-p", "8080", "--tcp-method", "prefer_sack", "-q", "1", "-Q", "0"),
					cliChain(fmt.Sprintf("tcp-prefer-sack-closed/N%d", n), n, false, "-P", "tcp", "-p", "8099", "--tcp-method", "prefer_sack", "-q", "1", "-Q", "0"),
					cliChain(fmt.Sprintf("icmp6/N%d", n), n, true, "-P", "icmp", "-q", "1", "-Q", "0"),
					cliChain(fmt.Sprintf("udp6/N%d", n), n, true, "-P", "udp", "-q", "1", "-Q", "0"),
					cliChain(fmt.Sprintf("multi-query-udp/N%d", n), n, false, "-P", "udp", "-q", "3", "-Q", "3"),
					cliChain(fmt.Sprintf("multi-query-tcp-sack/N%d", n), n, false, "-P", "tcp", "-p", "8080", "--tcp-method", "sack", "-q", "3", "-Q", "2"),
					cliChain(fmt.Sprintf("multi-query-tcp-sack-q6/N%d", n), n, false, "-P", "tcp", "-p", "8080", "--tcp-method", "sack", "-q", "6", "-Q", "0"),
					cliChain(fmt.Sprintf("multi-query-tcp-prefer-sack-q5/N%d", n), n, false, "-P", "tcp", "-p", "8080", "--tcp-method", "prefer_sack", "-q", "5", "-Q", "3"),
					cliChain(fmt.Sprintf("multi-query-icmp-q5/N%d", n), n, false, "-P", "icmp", "-q", "5", "-Q", "5"),
				)
			}
			n0 := ns[len(ns)-1]
			// path length 0: the tool runs ON the destination host and traces its own addresses (loopback and the
			// interface address): one hop, the destination itself
			for _, lc := range []struct {
				name, target string
				args         []string
			}{
				{"icmp", "127.0.0.1", []string{"-P", "icmp"}},
				{"udp", "127.0.0.1", []string{"-P", "udp"}},
				{"tcp-syn-open", "127.0.0.1", []string{"-P", "tcp", "-p", "8080", "--tcp-method", "syn"}},
				{"tcp-sack-open", "127.0.0.1", []string{"-P", "tcp", "-p", "8080", "--tcp-method", "sack"}},
				{"tcp-prefer-sack-open", "127.0.0.1", []string{"-P", "tcp", "-p", "8080", "--tcp-method", "prefer_sack"}},
				{"tcp-prefer-sack-closed", "127.0.0.1", []string{"-P", "tcp", "-p", "8099", "--tcp-method", "prefer_sack"}},
				{"icmp6", "::1", []string{"-P", "icmp", "--ipv6"}},
				{"icmp-own-address", "", []string{"-P", "icmp"}},
				{"tcp-sack-own-address", "", []string{"-P", "tcp", "-p", "8080", "--tcp-method", "sack"}},
			} {
				lc := lc
				cfgs = append(cfgs, c13Cfg{name: fmt.Sprintf("local-%s/N%d", lc.name, n0), n: n0, run: func(l *lab) (c13Out, string) {
					target := lc.target
					if target == "" {
						target = l.dest(false)
					}
					o := l.cliIn(l.n+1, append(append([]string{}, lc.args...), "-q", "1", "-Q", "0", "-m", "3", "--timeout", "1000", target)...)
					if o.err != "" {
						return o, "CLI failed: " + o.err
					}
					if len(o.runs) != 1 {
						return o, "expected one run"
					}
					return o, judgeRun(o.runs[0], []string{target}, 1, false)
				}})
			}
			// a path longer than the requested maximum TTL: exactly -m entries, no destination among them
			for _, pa := range [][]string{{"icmp", "-P", "icmp"}, {"udp", "-P", "udp"}, {"tcp-syn", "-P", "tcp", "-p", "8080", "--tcp-method", "syn"}, {"tcp-sack", "-P", "tcp", "-p", "8080", "--tcp-method", "sack"}, {"udp6", "-P", "udp", "--ipv6"}} {
				pa := pa
				if n0 < 2 {
					break
				}
				cfgs = append(cfgs, c13Cfg{name: fmt.Sprintf("max-ttl-short-%s/N%d", pa[0], n0), n: n0, run: func(l *lab) (c13Out, string) {
					v6 := pa[0] == "udp6"
					m := l.n - 1
					if m < 1 {
						m = 1
					}
					o := l.cli(append(append([]string{}, pa[1:]...), "-q", "1", "-Q", "0", "-m", fmt.Sprint(m), "--timeout", "1000", l.dest(v6))...)
					if o.err != "" {
						return o, "CLI failed: " + o.err
					}
					if len(o.runs) != 1 {
						return o, "expected one run"
					}
					return o, judgeRun(o.runs[0], l.expectChain(1, v6)[:m], 1, false)
				}})
			}
			// somebody pings the source host with 3000-byte echo requests while it traces (the requests arrive, and the kernel's
			// answers leave, as two IP fragments each: the non-first fragments pass the ICMP branch of every capture filter and
			// have no transport header to parse): nothing about the reported path changes
			for _, pa := range [][]string{{"icmp", "-P", "icmp"}, {"udp", "-P", "udp"}, {"tcp-syn", "-P", "tcp", "-p", "8080", "--tcp-method", "syn"}, {"tcp-sack", "-P", "tcp", "-p", "8080", "--tcp-method", "sack"}, {"icmp6", "-P", "icmp", "--ipv6"}} {
				pa := pa
				if tier != "thorough" && (pa[0] == "tcp-sack" || pa[0] == "icmp6") {
					continue
				}
				cfg := cliChain("large-ping-during-"+pa[0]+"/N3", 3, strings.HasSuffix(pa[0], "6"), append(append([]string{}, pa[1:]...), "-q", "1", "-Q", "1")...)
				if strings.HasSuffix(pa[0], "6") {
					// cliChain appends --ipv6 itself
					cfg = cliChain("large-ping-during-"+pa[0]+"/N3", 3, true, "-P", "icmp", "-q", "1", "-Q", "1")
				}
				cfg.bigPing = true
				cfgs = append(cfgs, cfg)
			}
			// a path with real latency: every router (and the destination host, except for SACK whose handshake has its own
			// timeout) holds what it sends back for 400 ms; the per-probe timeout is 500 ms, so every reply arrives inside its
			// probe's listening window although probes sent later than the first one answer after "first send + timeout".
			// Oracle: the chain as always, and every delayed hop's RTT lies in [delay, delay + 450 ms] - a reply cannot have
			// been read before the router released it, and the tool polls every 100 ms.
			latency := [][]string{{"icmp", "1", "-P", "icmp"}, {"tcp-syn", "1", "-P", "tcp", "-p", "8080", "--tcp-method", "syn"}, {"udp6", "1", "-P", "udp", "--ipv6"}}
			if tier == "thorough" {
				latency = append(latency, []string{"udp", "1", "-P", "udp"}, []string{"tcp-sack", "0", "-P", "tcp", "-p", "8080", "--tcp-method", "sack"},
					[]string{"icmp6", "1", "-P", "icmp", "--ipv6"}, []string{"tcp-prefer-sack-closed", "1", "-P", "tcp", "-p", "8099", "--tcp-method", "prefer_sack"})
			}
			for _, pa := range latency {
				pa := pa
				const delay = 400
				cfgs = append(cfgs, c13Cfg{name: fmt.Sprintf("latency-%s/N4", pa[0]), n: 4, delayMs: delay, delayDest: pa[1] == "1", run: func(l *lab) (c13Out, string) {
					v6 := strings.HasSuffix(pa[0], "6")
					o := l.cli(append(append([]string{}, pa[2:]...), "-q", "1", "-Q", "1", "-m", "10", "--timeout", "500", l.dest(v6))...)
					if o.err != "" {
						return o, "CLI failed: " + o.err
					}
					if len(o.runs) != 1 {
						return o, "expected one run"
					}
					if p := judgeRun(o.runs[0], l.expectChain(1, v6), 1, false); p != "" {
						return o, p
					}
					for i, h := range o.runs[0] {
						if i == len(o.runs[0])-1 && pa[1] != "1" {
							continue
						}
						if h.RTT < delay {
							return o, fmt.Sprintf("ttl %d reports an RTT of %.3f ms although %s held its reply for %d ms", h.TTL, h.RTT, h.IP, delay)
						}
						if h.RTT > delay+450 {
							return o, fmt.Sprintf("ttl %d reports an RTT of %.3f ms; %s held its reply for %d ms", h.TTL, h.RTT, h.IP, delay)
						}
					}
					if pa[1] == "1" && (len(o.rtts) != 1 || o.rtts[0] < delay || o.rtts[0] > delay+450) {
						return o, fmt.Sprintf("end-to-end samples %v; the destination held its reply for %d ms", o.rtts, delay)
					}
					return o, ""
				}})
			}
			// the target is unreachable behind router 2 (reject rule / unreachable route): that router answers every probe that
			// reaches it with destination-unreachable. It is a router, not the target: no entry may be marked as the
			// destination, so the list runs to the maximum TTL, and the end-to-end probe reports "no answer"
			for _, pm := range [][3]string{{"udp", "", ""}, {"udp", "", "v6"}, {"tcp", "syn", ""}, {"icmp", "", ""}} {
				pm := pm
				if n0 < 3 {
					break
				}
				cfgs = append(cfgs, c13Cfg{name: fmt.Sprintf("unreachable-behind-router-%s%s%s/N%d", pm[0], pm[1], pm[2], n0), n: n0, unreach: 2, run: func(l *lab) (c13Out, string) {
					v6 := pm[2] == "v6"
					m := l.n + 2
					o := l.helper(map[string]any{"hostname": l.dest(v6), "port": 8080, "protocol": pm[0], "tcp_method": pm[1], "min_ttl": 1, "max_ttl": m, "timeout_ms": 1000, "queries": 1, "e2e": 1, "want_v6": v6})
					if o.err != "" {
						return o, "library call failed: " + o.err
					}
					if len(o.runs) != 1 {
						return o, "expected one run"
					}
					hops := o.runs[0]
					if len(hops) != m {
						return o, fmt.Sprintf("%d entries for TTL window 1..%d although the target never answered: got %s", len(hops), m, fmtC13(hops))
					}
					for i, h := range hops {
						if h.IsDest {
							return o, fmt.Sprintf("ttl %d (%s) is marked as the destination; the target %s never answered: got %s", h.TTL, h.IP, l.dest(v6), fmtC13(hops))
						}
						if h.TTL != i+1 || h.RTT < 0 {
							return o, fmt.Sprintf("entry %d has ttl %d rtt %v", i, h.TTL, h.RTT)
						}
						if h.IP != "" && h.IP != l.hopAddr(1, v6) && h.IP != l.hopAddr(2, v6) {
							return o, fmt.Sprintf("ttl %d reports %s, which is not on the path before the unreachable route: got %s", h.TTL, h.IP, fmtC13(hops))
						}
					}
					if hops[0].IP != l.hopAddr(1, v6) {
						return o, fmt.Sprintf("ttl 1 reports %q, the path has %q", hops[0].IP, l.hopAddr(1, v6))
					}
					if pm[0] == "udp" {
						// destination-unreachable answers to UDP probes are hops of the responding router
						for _, h := range hops[1:] {
							if h.IP != l.hopAddr(2, v6) {
								return o, fmt.Sprintf("ttl %d reports %q, router 2 (%s) answered it with destination-unreachable: got %s", h.TTL, h.IP, l.hopAddr(2, v6), fmtC13(hops))
							}
						}
					}
					if len(o.rtts) != 1 || o.rtts[0] != 0 {
						return o, fmt.Sprintf("end-to-end probe to an unreachable target reported %v", o.rtts)
					}
					return o, ""
				}})
			}
			// the whole TTL range of a byte against a target that never answers (rejected behind router 2): 255 entries,
			// none of them the destination (a sender that counts in 8 bits must still stop after 255)
			for _, proto := range []string{"udp", "icmp"} {
				proto := proto
				if n0 < 3 || (proto == "icmp" && tier != "thorough") {
					continue
				}
				cfgs = append(cfgs, c13Cfg{name: fmt.Sprintf("max-ttl-255-unreachable-%s/N%d", proto, n0), n: n0, unreach: 2, run: func(l *lab) (c13Out, string) {
					o := l.cli("-P", proto, "-q", "1", "-Q", "0", "-m", "255", "--timeout", "500", l.dest(false))
					if o.err != "" {
						return o, "CLI failed: " + o.err
					}
					if len(o.runs) != 1 || len(o.runs[0]) != 255 {
						n := -1
						if len(o.runs) == 1 {
							n = len(o.runs[0])
						}
						return o, fmt.Sprintf("expected one run of 255 entries, got %d runs / %d entries", len(o.runs), n)
					}
					for i, h := range o.runs[0] {
						if h.TTL != i+1 {
							return o, fmt.Sprintf("entry %d has ttl %d", i, h.TTL)
						}
						if h.IP != "" && h.IP != l.hopAddr(1, false) && h.IP != l.hopAddr(2, false) {
							return o, fmt.Sprintf("ttl %d reports %s, which is not on the path", h.TTL, h.IP)
						}
					}
					if o.runs[0][0].IP != l.hopAddr(1, false) {
						return o, fmt.Sprintf("ttl 1 reports %q", o.runs[0][0].IP)
					}
					return o, ""
				}})
			}
			// one router silent
			for _, proto := range []string{"icmp", "udp", "tcp"} {
				proto := proto
				c := cliChain(fmt.Sprintf("%s-silent-router/N%d", proto, n0), n0, false, "-P", proto, "-p", "8080", "-q", "1", "-Q", "0")
				c.silent = 2
				if n0 < 2 {
					c.silent = 1
				}
				cfgs = append(cfgs, c)
			}
			// SACK disabled at the target
			cfgs = append(cfgs, c13Cfg{name: fmt.Sprintf("tcp-sack-disabled-sack/N%d", n0), n: n0, noSack: true, run: func(l *lab) (c13Out, string) {
				o := l.cli("-P", "tcp", "-p", "8080", "--tcp-method", "sack", "-q", "1", "-Q", "0", "-m", fmt.Sprint(l.n+3), "--timeout", "1000", l.dest(false))
				if o.err == "" {
					return o, "method sack succeeded against a target with SACK disabled: " + o.raw
				}
				if o.err == "WATCHDOG" {
					return o, "CLI failed: WATCHDOG"
				}
				return o, ""
			}})
			for _, m := range []string{"sack", "prefer_sack"} {
				ce := cliChain(fmt.Sprintf("tcp-%s-ecn/N%d", m, n0), n0, false, "-P", "tcp", "-p", "8080", "--tcp-method", m, "-q", "2", "-Q", "1")
				ce.ecn = true
				cfgs = append(cfgs, ce)
			}
			cc := cliChain(fmt.Sprintf("tcp-sack-disabled-prefer/N%d", n0), n0, false, "-P", "tcp", "-p", "8080", "--tcp-method", "prefer_sack", "-q", "1", "-Q", "0")
			cc.noSack = true
			cfgs = append(cfgs, cc)
			// first TTL > 1 and explicit destination flag through the library caller
			for _, pm := range [][2]string{{"icmp", ""}, {"udp", ""}, {"tcp", "syn"}, {"tcp", "sack"}} {
				pm := pm
				for _, first := range []int{1, 2} {
					first := first
					cfgs = append(cfgs, c13Cfg{name: fmt.Sprintf("lib-%s%s-first%d/N%d", pm[0], pm[1], first, n0), n: n0, run: func(l *lab) (c13Out, string) {
						o := l.helper(map[string]any{"hostname": l.dest(false), "port": 8080, "protocol": pm[0], "tcp_method": pm[1], "min_ttl": first, "max_ttl": l.n + 3, "timeout_ms": 1000, "queries": 1, "e2e": 1})
						if o.err != "" {
							return o, "library call failed: " + o.err
						}
						if len(o.runs) != 1 {
							return o, "expected one run"
						}
						if p := judgeRun(o.runs[0], l.expectChain(first, false), first, true); p != "" {
							return o, p
						}
						if len(o.rtts) != 1 || o.rtts[0] <= 0 {
							return o, fmt.Sprintf("end-to-end probe to a reachable destination reported %v", o.rtts)
						}
						return o, ""
					}})
				}
			}
			// Paris mode of the SYN trace (constant IP id, the random sequence number is the only per-probe identity):
			// reachable through the library only
			for _, first := range []int{1, 2} {
				first := first
				cfgs = append(cfgs, c13Cfg{name: fmt.Sprintf("lib-tcpsyn-paris-first%d/N%d", first, n0), n: n0, run: func(l *lab) (c13Out, string) {
					o := l.helper(map[string]any{"hostname": l.dest(false), "port": 8080, "protocol": "tcp", "tcp_method": "syn", "paris": true, "min_ttl": first, "max_ttl": l.n + 3, "timeout_ms": 1000, "queries": 1, "e2e": 1})
					if o.err != "" {
						return o, "library call failed: " + o.err
					}
					if len(o.runs) != 1 {
						return o, "expected one run"
					}
					return o, judgeRun(o.runs[0], l.expectChain(first, false), first, true)
				}})
			}
			// several CLI processes at once
			cfgs = append(cfgs, c13Cfg{name: fmt.Sprintf("parallel-processes/N%d", n0), n: n0, run: func(l *lab) (c13Out, string) {
				type job struct{ args []string }
				jobs := [][]string{{"-P", "icmp"}, {"-P", "udp"}, {"-P", "tcp", "-p", "8080", "--tcp-method", "syn"}, {"-P", "tcp", "-p", "8080", "--tcp-method", "sack"}, {"-P", "icmp"}, {"-P", "udp"}}
				res := make([]string, len(jobs))
				var wg sync.WaitGroup
				for i, j := range jobs {
					wg.Add(1)
					i, j := i, j
					go func() {
						defer wg.Done()
						o := l.cli(append(j, "-q", "1", "-Q", "0", "-m", fmt.Sprint(l.n+3), "--timeout", "1000", l.dest(false))...)
						if o.err != "" {
							res[i] = "CLI failed: " + o.err
							return
						}
						for _, r := range o.runs {
							if p := judgeRun(r, l.expectChain(1, false), 1, false); p != "" {
								res[i] = fmt.Sprintf("process %d (%v): %s", i, j, p)
							}
						}
					}()
				}
				wg.Wait()
				for _, r := range res {
					if r != "" {
						return c13Out{}, r
					}
				}
				return c13Out{}, ""
			}})
			var cases []fw.Case
			for i, cfg := range cfgs {
				cfg := cfg
				id := fmt.Sprintf("C13/%s", cfg.name)
				tag := fmt.Sprintf("x%d", i)
				cases = append(cases, fw.Case{ID: id, Run: func(c *fw.Ctx) { runC13(c, id, tag, cfg) }})
			}
			return cases
		},
	}
}

func runC13(c *fw.Ctx, id, tag string, cfg c13Cfg) {
	if os.Getenv("VERIF_BUILD_DIR") == "" {
		c.Inconclusive("VERIF_BUILD_DIR not set (run through ./check)")
		return
	}
	l, err := newLab(tag, cfg.n)
	if err != nil {
		c.Inconclusive(fmt.Sprintf("%s: cannot build the namespace lab: %v", id, err))
		return
	}
	defer l.cleanup()
	l.silent = cfg.silent
	if err := l.listen(8080); err != nil {
		c.Inconclusive(fmt.Sprintf("%s: listener: %v", id, err))
		return
	}
	if cfg.silent > 0 {
		l.sysctl(cfg.silent, "net.ipv4.icmp_msgs_per_sec=0")
		l.sysctl(cfg.silent, "net.ipv4.icmp_msgs_burst=0")
	}
	if cfg.noSack {
		l.sysctl(l.n+1, "net.ipv4.tcp_sack=0")
	}
	if cfg.ecn {
		l.sysctl(0, "net.ipv4.tcp_ecn=1")
		l.sysctl(l.n+1, "net.ipv4.tcp_ecn=1")
	}
	if cfg.unreach > 0 {
		// IPv4: a REJECT rule, not an `unreachable` route - the kernel rate-limits route errors (ip_rt_error_cost /
		// ip_rt_error_burst: five, then one per second; global, not settable per namespace), which made hops vanish
		run("ip", "netns", "exec", l.ns[cfg.unreach], "iptables", "-A", "FORWARD", "-d", l.dest(false), "-j", "REJECT", "--reject-with", "icmp-host-unreachable")
		run("ip", "-n", l.ns[cfg.unreach], "-6", "route", "add", "unreachable", l.dest(true)+"/128")
	}
	// warm-up: neighbour tables (ARP/NDP) along the path; not judged
	for _, v6 := range []bool{false, true} {
		for try := 0; try < 4; try++ {
			if cfg.unreach > 0 && try > 0 {
				break // the destination cannot answer
			}
			args := []string{"-P", "udp", "-q", "1", "-Q", "0", "-m", fmt.Sprint(l.n + 2), "--timeout", "400"}
			if v6 {
				args = append(args, "--ipv6")
			}
			o := l.cli(append(args, l.dest(v6))...)
			if len(o.runs) == 1 && len(o.runs[0]) > 0 && o.runs[0][len(o.runs[0])-1].IP == l.dest(v6) {
				break // the destination answered: every neighbour entry along the path is resolved
			}
		}
	}
	if cfg.delayMs > 0 {
		last := l.n
		if cfg.delayDest {
			last = l.n + 1
		}
		for k := 1; k <= last; k++ {
			if err := l.delay(k, cfg.delayMs); err != nil {
				c.Inconclusive(fmt.Sprintf("%s: cannot install the delay on node %d: %v", id, k, err))
				return
			}
		}
	}
	if cfg.bigPing {
		script := `
import socket, struct, sys, time, os
dst, v6 = sys.argv[1], sys.argv[2] == "6"
s = socket.socket(socket.AF_INET6 if v6 else socket.AF_INET, socket.SOCK_RAW, socket.IPPROTO_ICMPV6 if v6 else socket.IPPROTO_ICMP)
def csum(b):
    if len(b) % 2: b += b"\0"
    t = sum(struct.unpack("!%dH" % (len(b)//2), b))
    while t >> 16: t = (t & 0xffff) + (t >> 16)
    return (~t) & 0xffff
sys.stdout.write("ready\n"); sys.stdout.flush()
n = 0
end = time.time() + 60
while time.time() < end:
    n += 1
    body = os.urandom(3000)
    if v6:
        pkt = struct.pack("!BBHHH", 128, 0, 0, 99, n & 0xffff) + body
    else:
        h = struct.pack("!BBHHH", 8, 0, 0, 99, n & 0xffff)
        pkt = struct.pack("!BBHHH", 8, 0, csum(h + body), 99, n & 0xffff) + body
    try:
        s.sendto(pkt, (dst, 0))
    except OSError:
        pass
    time.sleep(0.02)
`
		for _, fam := range []string{"4", "6"} {
			src := l.addr4(1, false)
			if fam == "6" {
				src = l.addr6(1, false)
			}
			la := labArgs([]string{"ip", "netns", "exec", l.ns[1], "python3", "-c", script, src, fam})
			cmd := exec.Command(la[0], la[1:]...)
			if err := cmd.Start(); err != nil {
				c.Inconclusive(fmt.Sprintf("%s: cannot start the ping: %v", id, err))
				return
			}
			l.procs = append(l.procs, cmd)
		}
		time.Sleep(300 * time.Millisecond)
	}
	// a first-time match ends the case. After a mismatch the configuration is repeated (up to 5 runs in all):
	// 3 mismatches are a verdict (a deterministic defect fails every time, a probabilistic one most of the time),
	// 3 matches mean kernel timing noise.
	var problems []string
	var last c13Out
	ok := 0
	for attempt := 0; attempt < 5; attempt++ {
		o, p := cfg.run(l)
		last = o
		c.Count("cli_or_library_invocations", 1)
		if p == "" {
			ok++
			if attempt == 0 || ok >= 3 {
				c.Nontrivial(cfg.name)
				c.Count("chains_matched", 1)
				if attempt > 0 {
					c.Count("cases_with_retries", 1)
				}
				if len(o.runs) > 0 {
					c.Sample(map[string]any{"case": id, "chain": fmtC13(o.runs[0])})
				}
				return
			}
			continue
		}
		if strings.Contains(p, "WATCHDOG") {
			c.Inconclusive(id + ": CLI watchdog fired")
			return
		}
		problems = append(problems, p)
		fmt.Printf("C13-MISMATCH %s attempt %d: %s\n", id, attempt, p)
		if len(problems) >= 3 {
			break
		}
	}
	if len(problems) >= 3 {
		c.Violate("C13", "chain-mismatch/"+strings.SplitN(cfg.name, "/", 2)[0], fmt.Sprintf("%s: wrong result in %d of %d runs: %s", id, len(problems), len(problems)+ok, problems[len(problems)-1]), map[string]any{"attempts": problems, "last_output": last.raw})
		return
	}
	c.Inconclusive(fmt.Sprintf("%s: %d mismatching and %d matching runs", id, len(problems), ok))
}
