package checks

import (
	"bytes"
	"context"
	"encoding/json"
	"errors"
	"fmt"
	"os"
	"os/exec"
	"path/filepath"
	"runtime"
	"strings"
	"syscall"
	"testing/synctest"
	"time"

	"github.com/DataDog/datadog-traceroute/traceroute"

	"verif/harness/drive"
	"verif/harness/fw"
	"verif/harness/refmatch"
	"verif/harness/simnet"
)

func init() { register("C10", checkC10) }

var errInjected = errors.New("verif-injected-fault")

// fdDiffSettled: open descriptors now minus fd0. A descriptor the run leaked stays open; one that the test process itself
// had open for a moment (the framework's journal, a fork in progress) is gone on the next look: the difference is re-read
// up to 40 times (each look lists /proc/self/fd, some tens of microseconds) and only a persistent one is returned.
func fdDiffSettled(fd0 int) int {
	d := fdCount() - fd0
	for i := 0; i < 40 && d != 0; i++ {
		runtime.Gosched()
		d = fdCount() - fd0
	}
	if d < 0 {
		// FEWER descriptors than before the run: the transient descriptor was in the BASELINE listing. A leak is a
		// descriptor the run opened and left open, i.e. a surplus; a deficit says nothing about the run.
		return 0
	}
	return d
}

func fdCount() int {
	ents, err := os.ReadDir("/proc/self/fd")
	if err != nil {
		return -1
	}
	return len(ents)
}

// repoGoroutines returns the stacks of goroutines (other than the caller) that have a repository frame.
func repoGoroutines() []string {
	buf := make([]byte, 1<<20)
	n := runtime.Stack(buf, true)
	var out []string
	for i, g := range strings.Split(string(buf[:n]), "\n\n") {
		if i == 0 {
			continue // the calling goroutine
		}
		if strings.Contains(g, "github.com/DataDog/datadog-traceroute/") && !strings.Contains(g, "verif/harness/checks.TestVerif") {
			out = append(out, g)
		}
	}
	return out
}

type c10Run struct {
	res     drive.Result
	fired   []simnet.FaultKey
	life    []string
	counts  []map[string]int
	leaked  []string
	fdDiff  int
	key     string
	runaway bool
}

// runC10 executes one (possibly faulted) run of variant v and collects the C10 observations.
func runC10(c *fw.Ctx, v refmatch.Variant, w window, faults map[simnet.FaultKey]simnet.Fault, noListener bool) *c10Run {
	return runC10Cancel(c, v, w, faults, noListener, -1)
}

// runC10Cancel: cancelAt >= 0 cancels the caller's context that long after the call started (0: before the call).
func runC10Cancel(c *fw.Ctx, v refmatch.Variant, w window, faults map[simnet.FaultKey]simnet.Fault, noListener bool, cancelAt time.Duration) *c10Run {
	spec := defaultSpec(v, c.Worker, w.first, w.last)
	if cancelAt >= 0 {
		ctx, cancel := context.WithCancel(context.Background())
		defer cancel()
		spec.Ctx = ctx
		if cancelAt == 0 {
			cancel()
		} else {
			tm := time.AfterFunc(cancelAt, cancel)
			defer tm.Stop()
		}
	}
	fd0 := fdCount()
	var e *simEnv
	var err error
	if noListener {
		// SACK dial failure: nothing listens on the port in the peer namespace
		e = &simEnv{c: c, w: simnet.NewWire(), spec: spec, isn: 0x10000000}
		e.w.Loopback = true
		e.unreg = simnet.Register(e.w, spec.Target)
		e.w.OnOpen = func(h *simnet.Handle) {
			if e.handle == nil {
				e.handle = h
			}
		}
		e.w.OnEmit = e.onEmit
	} else {
		e, err = newSimEnv(c, spec, 0x10000000)
		if err != nil {
			c.Inconclusive(err.Error())
			return nil
		}
	}
	for k, f := range faults {
		e.w.Faults[k] = f
	}
	dist := w.first + 3
	res := e.run(simplePathWin(v, w, dist, true, 9*time.Millisecond))
	synctest.Wait()
	out := &c10Run{res: res, life: e.w.Lifecycle(), counts: e.w.OpCounts(), leaked: repoGoroutines(), key: hopsKey(res)}
	e.w.Lock()
	out.fired = append(out.fired, e.w.Fired...)
	for _, h := range e.w.Handles {
		if h.ReadOverrun {
			out.runaway = true
		}
	}
	e.w.Unlock()
	e.close()
	out.fdDiff = fdDiffSettled(fd0)
	return out
}

func checkC10() fw.Check {
	return fw.Check{
		Prop:  "C10",
		Level: "fault_enumeration",
		Rule: "per variant a census run counts the calls of every capture/send operation (factory, 1st/2nd SetPacketFilter, WriteTo, SetReadDeadline, Read, Source.Close, Sink.Close); then one run per (operation, k <= census count, error class in {fatal sentinel, os.ErrDeadlineExceeded, zero-length read once, zero-length read from k on}), plus SACK dial refusal and (thorough) pairs of faults; monitors: (nil result, error wrapping the injected sentinel) for fatal faults, never a result different from the fault-free one, every handle closed exactly once and never used after Close, no repository goroutine alive after return (bubble quiescence + full stack dump), open-fd count unchanged. " +
			"Real-kernel stage: the CLI binary built from the working tree (no verif tag) in a chain of kernel routers, with an iptables DROP rule in the source host's OUTPUT chain that makes sendto() on the raw socket fail with EPERM for every probe or only for the probe with one TTL (icmp, udp, tcp syn; thorough adds IPv6 and multi-query requests): the command must fail, print no result, and its message must still name the cause. Caller cancellation of the ICMP and SACK entry points at ten instants (60 more in thorough) with the same closing discipline. " +
			"distinct_nontrivial counts distinct (variant, operation, k-bucket, class) whose fault actually fired",
		Workers:       1,
		MinNontrivial: 60,
		Exhaustive:    true,
		Assumptions:   []string{"exhaustive over single faults for the census of the chosen scenario (window 1..6, destination at 4); MustClosePort branches are unreachable on Linux", "Linux build"},
		Gen: func(tier string, seed int64) []fw.Case {
			var cases []fw.Case
			wins := []window{{1, 6}, {250, 255}}
			if tier == "thorough" {
				wins = append([]window{{1, 6}, {250, 255}, {2, 12}, {1, 3}, {255, 255}}, thoroughWindows(seed, 5)[len(windowsThorough):]...)
			}
			for _, v := range refmatch.Variants {
				for _, w := range wins {
					v, w := v, w
					id := fmt.Sprintf("C10/%s/%d-%d", v.Name, w.first, w.last)
					cases = append(cases, fw.Case{ID: id, Bubble: true, Run: func(c *fw.Ctx) { runC10Case(c, id, v, w, tier == "thorough") }})
				}
			}
			// caller cancellation (the entry points that take a context): whenever the context ends - before the call,
			// during the handshake, between two sends, inside a poll, after the destination answered - the call returns
			// the cancellation error and no result, and the same closing discipline holds: nothing is in flight, no
			// goroutine of the run is left behind, no handle is touched after it was closed
			for _, v := range refmatch.Variants {
				if v.Proto != "icmp" && v.Proto != "sack" {
					continue
				}
				v := v
				id := fmt.Sprintf("C10/cancel/%s", v.Name)
				cases = append(cases, fw.Case{ID: id, Bubble: true, Run: func(c *fw.Ctx) { runC10CancelCase(c, id, v, tier == "thorough") }})
			}
			// a variant asked to do what it cannot: the TCP entry points with an IPv6 target (the tuple filter and the packet
			// builder are IPv4 only). Whatever point the refusal comes from, it is a failure path like any other: error, no
			// result, every handle that was opened is closed once
			for _, vn := range []string{"syn", "synP", "sackR"} {
				vn := vn
				id := "C10/unsupported-family/" + vn
				cases = append(cases, fw.Case{ID: id, Bubble: true, Run: func(c *fw.Ctx) { runC10WrongFamily(c, id, refmatch.VariantByName(vn)) }})
			}
			// request level: the same fault classes hitting ONE participant (a path run or an end-to-end probe) of a
			// RunTraceroute request: the request returns an error wrapping the cause and no result, every handle of
			// every participant is closed exactly once
			for _, op := range []string{"filter", "deadline", "read"} {
				op := op
				id := fmt.Sprintf("C10/request/tcp-prefer-sack/%s/participant0", op)
				cases = append(cases, fw.Case{ID: id, Bubble: true, Run: func(c *fw.Ctx) { runC10Request(c, id, "tcp-prefer-sack", op, 0) }})
			}
			for _, proto := range []string{"udp", "icmp", "tcp"} {
				for _, op := range []string{"factory", "filter", "write", "read"} {
					for j := 0; j < 4; j++ {
						proto, op, j := proto, op, j
						id := fmt.Sprintf("C10/request/%s/%s/participant%d", proto, op, j)
						cases = append(cases, fw.Case{ID: id, Bubble: true, Run: func(c *fw.Ctx) { runC10Request(c, id, proto, op, j) }})
					}
				}
			}
			// the REAL handle constructors (the simulated factory replaces them everywhere else): a library caller built without
			// the verif tag runs the request in a child process whose descriptor limit allows 1, 2, 3 ... more descriptors
			// than are open (socket() fails with EMFILE at every position of the opening sequence in turn)
			var late []fw.Case
			for _, pm := range [][2]string{{"icmp", ""}, {"udp", ""}, {"tcp", "syn"}, {"tcp", "prefer_sack"}} {
				pm := pm
				id := fmt.Sprintf("C10/real-constructors/%s%s", pm[0], pm[1])
				late = append(late, fw.Case{ID: id, Run: func(c *fw.Ctx) { runC10RealConstructors(c, id, pm[0], pm[1]) }})
			}
			// the real raw socket refusing a send (kernel_stage_test.go)
			return withKernelStage("C10", tier, cases, late...)
		},
	}
}

func runC10Request(c *fw.Ctx, id, proto, op string, j int) {
	resetProcessState()
	v := map[string]refmatch.Variant{"udp": refmatch.VariantByName("udp4"), "icmp": refmatch.VariantByName("icmp4"), "tcp": refmatch.VariantByName("syn"), "tcp-prefer-sack": refmatch.VariantByName("syn")}[proto]
	target := drive.TargetFor(v, 60+c.Worker)
	params := traceroute.TracerouteParams{Hostname: target.String(), Port: 33434, Protocol: proto, MinTTL: 1, MaxTTL: 4, Delay: 2, Timeout: 30 * time.Millisecond,
		TCPMethod: traceroute.TCPConfigSYN, TracerouteQueries: 2, E2eQueries: 2}
	port, peer := uint16(33434), false
	if proto == "tcp-prefer-sack" {
		// the fault hits the SACK attempt of a prefer_sack run while it reads the handshake (or installs its filters): a
		// broken capture handle is not "the target does not support SACK" - no SYN trace may paper over it
		params.Protocol, params.TCPMethod, params.TracerouteQueries, params.E2eQueries = "tcp", traceroute.TCPConfigPreferSACK, 1, 0
		port, peer = uint16(29000+c.Worker), true
		params.Port = int(port)
		params.Timeout = 300 * time.Millisecond
	}
	env, err := newReqEnv(c, params, target, port, peer)
	if err != nil {
		c.Inconclusive(err.Error())
		return
	}
	defer env.close()
	env.modelFor = func(k int, e *simEnv) *pathModel { return flowPath(k, e, 3, true, 300*time.Microsecond) }
	key := simnet.FaultKey{Handle: j, Op: op, K: 1}
	if op == "factory" {
		key = simnet.FaultKey{Handle: -1, Op: op, K: j + 1}
	}
	env.w.Faults[key] = simnet.Fault{Err: fmt.Errorf("socket layer: %w", errInjected)}
	res, rerr := env.run(context.Background())
	synctest.Wait()
	env.w.Lock()
	fired := len(env.w.Fired) > 0
	env.w.Unlock()
	env.monitors(id)
	if g := repoGoroutines(); len(g) > 0 {
		c.Violate("C10", "goroutine-leak/request/"+op, fmt.Sprintf("%s: goroutines of the repository still alive after RunTraceroute returned: %v", id, g), nil)
	}
	if !fired {
		return
	}
	c.Nontrivial(fmt.Sprintf("request/%s/%s/participant%d", proto, op, j))
	c.Count("request_faults_fired", 1)
	switch {
	case rerr == nil && res != nil:
		c.Violate("C10", "fault-swallowed/request/"+op, fmt.Sprintf("%s: a fatal %s fault hit participant %d of the request, which still returned a result (runs=%d, e2e samples=%v)", id, op, j, len(res.Traceroute.Runs), res.E2eProbe.RTTs), nil)
	case rerr == nil:
		c.Violate("C10", "nil-nil/request", id+": nil result and nil error", nil)
	case res != nil:
		c.Violate("C10", "result-and-error/request/"+op, fmt.Sprintf("%s: both a result and an error: %v", id, rerr), nil)
	case !errors.Is(rerr, errInjected):
		c.Violate("C10", "cause-lost/request/"+op, fmt.Sprintf("%s: the request's error does not wrap the injected cause: %v", id, rerr), nil)
	}
}

// runC10RealConstructors: see the case list. Oracle per run of the child: a run that fails has no result and still names
// the cause ("too many open files"), and whatever the outcome no descriptor the run opened is left behind (the child counts
// /proc/self/fd with the garbage collector disabled, so no finaliser closes a forgotten socket).
func runC10RealConstructors(c *fw.Ctx, id, proto, method string) {
	bin := filepath.Join(os.Getenv("VERIF_BUILD_DIR"), "trhelper")
	if _, err := os.Stat(bin); err != nil {
		c.Inconclusive(id + ": trhelper not built (run through ./check)")
		return
	}
	in, _ := json.Marshal(map[string]any{"hostname": "127.0.0.1", "port": 8099, "protocol": proto, "tcp_method": method, "min_ttl": 1, "max_ttl": 2, "timeout_ms": 150, "queries": 1, "e2e": 0, "fd_limit": true})
	ctx, cancel := context.WithTimeout(context.Background(), 90*time.Second)
	defer cancel()
	cmd := exec.CommandContext(ctx, bin)
	cmd.Stdin = bytes.NewReader(in)
	var so, se bytes.Buffer
	cmd.Stdout, cmd.Stderr = &so, &se
	if err := cmd.Run(); err != nil {
		if ctx.Err() != nil {
			c.Inconclusive(id + ": child watchdog fired")
			return
		}
		c.Violate("C10", "crash/real-constructors/"+proto+method, fmt.Sprintf("%s: the child process failed: %v: %.400s", id, err, se.String()), nil)
		return
	}
	var doc struct {
		Runs []struct {
			Extra  int    `json:"extra"`
			Error  string `json:"error"`
			Result bool   `json:"result"`
			Leaked int    `json:"leaked"`
			Which  string `json:"which"`
		} `json:"fd_runs"`
	}
	if err := json.Unmarshal(so.Bytes(), &doc); err != nil || len(doc.Runs) == 0 {
		c.Inconclusive(fmt.Sprintf("%s: unreadable child output: %v", id, err))
		return
	}
	failed := 0
	for _, r := range doc.Runs {
		tag := fmt.Sprintf("%s with room for %d more descriptor(s)", id, r.Extra)
		c.Count("real_constructor_runs", 1)
		if r.Leaked > 0 {
			c.Violate("C10", "fd-leak/real-constructors/"+proto+method, fmt.Sprintf("%s: %d descriptor(s) left open after the run returned (%s); error: %q", tag, r.Leaked, strings.TrimSpace(r.Which), r.Error), nil)
		}
		if r.Error != "" {
			failed++
			if r.Result {
				c.Violate("C10", "result-and-error/real-constructors/"+proto+method, tag+": both a result and an error", nil)
			}
			if !strings.Contains(r.Error, "too many open files") {
				c.Violate("C10", "cause-lost/real-constructors/"+proto+method, fmt.Sprintf("%s: socket() failed with EMFILE but the error does not say so: %q", tag, r.Error), nil)
			}
		}
	}
	if failed > 0 {
		c.Nontrivial(fmt.Sprintf("real-constructors/%s%s/%d-failing-positions", proto, method, failed))
	}
	c.Sample(map[string]any{"case": id, "runs": doc.Runs})
}

func runC10WrongFamily(c *fw.Ctx, id string, v refmatch.Variant) {
	spec := defaultSpec(v, c.Worker, 1, 4)
	spec.Target = drive.Target6(c.Worker)
	fd0 := fdCount()
	e := &simEnv{c: c, w: simnet.NewWire(), spec: spec, isn: 0x10000000}
	e.w.Loopback = true
	e.unreg = simnet.Register(e.w, spec.Target)
	e.w.OnOpen = func(h *simnet.Handle) {
		if e.handle == nil {
			e.handle = h
		}
	}
	e.w.OnEmit = func(h *simnet.Handle, em *simnet.Emission) {}
	res := drive.Run(spec)
	synctest.Wait()
	life, leaked := e.w.Lifecycle(), repoGoroutines()
	e.w.Lock()
	opened := len(e.w.Handles)
	e.w.Unlock()
	e.close()
	fdDiff := fdDiffSettled(fd0)
	tag := fmt.Sprintf("%s target=%s", id, spec.Target)
	if res.Err == nil {
		// not claimed either way by C10 (C19 owns "honoured or rejected"); only the closing discipline is judged
		c.Count("unsupported_family_accepted", 1)
	} else if res.Run != nil {
		c.Violate("C10", "result-and-error/"+v.Name+"/unsupported-family", tag+": both a result and an error", nil)
	}
	if len(life) > 0 {
		c.Violate("C10", "lifecycle/"+v.Name+"/unsupported-family", fmt.Sprintf("%s: %v (error: %v)", tag, life, res.Err), nil)
	}
	if len(leaked) > 0 {
		c.Violate("C10", "goroutine-leak/"+v.Name+"/unsupported-family", fmt.Sprintf("%s: %d repository goroutine(s) alive after return", tag, len(leaked)), leaked)
	}
	if fdDiff != 0 {
		c.Violate("C10", "fd-leak/"+v.Name+"/unsupported-family", fmt.Sprintf("%s: open file descriptors changed by %+d", tag, fdDiff), nil)
	}
	if opened > 0 {
		c.Nontrivial(v.Name + "/unsupported-family/handles-opened")
	} else {
		c.Nontrivial(v.Name + "/unsupported-family/refused-before-open")
	}
	c.Count("runs", 1)
}

func runC10CancelCase(c *fw.Ctx, id string, v refmatch.Variant, thorough bool) {
	w := window{1, 8}
	census := runC10(c, v, w, nil, false)
	if census == nil || census.res.Err != nil {
		c.Inconclusive(id + ": fault-free census run failed")
		return
	}
	total := census.res.End.Sub(census.res.Start)
	spec := defaultSpec(v, c.Worker, w.first, w.last)
	ats := []time.Duration{0, time.Microsecond, spec.Delay / 2, spec.Delay, spec.Delay + time.Microsecond, 3*spec.Delay + spec.Delay/3,
		5*spec.Delay - time.Microsecond, total / 2, total - spec.Poll/2, total - time.Microsecond}
	if thorough {
		for k := 0; k < 60; k++ {
			ats = append(ats, time.Duration(c.Rng.Int63n(int64(total)+1)))
		}
	}
	for _, at := range ats {
		tag := fmt.Sprintf("%s fault=cancel#%v", id, at)
		r := runC10Cancel(c, v, w, nil, false, at)
		if r == nil {
			return
		}
		c.Count("runs", 1)
		if len(r.life) > 0 {
			c.Violate("C10", "lifecycle/"+v.Name+"/cancel", fmt.Sprintf("%s: %v", tag, r.life), nil)
		}
		if len(r.leaked) > 0 {
			c.Violate("C10", "goroutine-leak/"+v.Name+"/cancel", fmt.Sprintf("%s: %d repository goroutine(s) alive after the cancelled call returned", tag, len(r.leaked)), r.leaked)
		}
		if r.fdDiff != 0 {
			c.Violate("C10", "fd-leak/"+v.Name+"/cancel", fmt.Sprintf("%s: open file descriptors changed by %+d", tag, r.fdDiff), nil)
		}
		switch {
		case r.res.Err != nil && r.res.Run != nil:
			c.Violate("C10", "result-and-error/"+v.Name+"/cancel", fmt.Sprintf("%s: both a result and an error: %v", tag, r.res.Err), nil)
		case r.res.Err == nil && r.res.Run == nil:
			c.Violate("C10", "nil-nil/"+v.Name+"/cancel", tag+": nil result and nil error", nil)
		case r.res.Err == nil:
			// the run completed before the cancellation could be noticed: it must be the fault-free result
			if r.key != census.key {
				c.Violate("C10", "partial-result/"+v.Name+"/cancel", tag+": a cancelled call returned a path different from the fault-free one", map[string]any{"result": fmtRun(r.res), "fault_free": census.key})
			}
			c.Count("cancel_after_completion", 1)
		case !errors.Is(r.res.Err, context.Canceled):
			c.Violate("C10", "cause-lost/"+v.Name+"/cancel", fmt.Sprintf("%s: returned error does not wrap the cancellation: %v", tag, r.res.Err), nil)
		default:
			phase := "mid"
			switch {
			case at == 0:
				phase = "before-call"
			case at < spec.Delay:
				phase = "first-send"
			case at > total-spec.Poll:
				phase = "last-poll"
			}
			c.Nontrivial(fmt.Sprintf("%s/cancel/%s", v.Name, phase))
			c.Count("cancellations_judged", 1)
		}
	}
}

func kBucket(k, n int) string {
	switch {
	case k == 1:
		return "first"
	case k == n:
		return "last"
	}
	return "mid"
}

func runC10Case(c *fw.Ctx, id string, v refmatch.Variant, w window, pairs bool) {
	census := runC10(c, v, w, nil, false)
	if census == nil {
		return
	}
	if census.res.Err != nil || len(census.counts) != 1 {
		c.Violate("C10", "census-failed/"+v.Name, fmt.Sprintf("%s: fault-free census run failed: err=%v handles=%d", id, census.res.Err, len(census.counts)), nil)
		return
	}
	judgeCommon := func(tag string, r *c10Run) {
		if len(r.life) > 0 {
			c.Violate("C10", "lifecycle/"+v.Name+"/"+tagOp(tag), fmt.Sprintf("%s: %v", tag, r.life), nil)
		}
		if len(r.leaked) > 0 {
			c.Violate("C10", "goroutine-leak/"+v.Name+"/"+tagOp(tag), fmt.Sprintf("%s: %d repository goroutine(s) alive after return", tag, len(r.leaked)), r.leaked)
		}
		if r.runaway {
			c.Violate("C08", "runaway-reader/"+v.Name+"/"+tagOp(tag), tag+": the run kept reading without bound (stopped by the harness after 400000 reads)", nil)
		}
		if r.fdDiff != 0 {
			c.Violate("C10", "fd-leak/"+v.Name+"/"+tagOp(tag), fmt.Sprintf("%s: open file descriptors changed by %+d", tag, r.fdDiff), nil)
		}
		if r.res.Err != nil && r.res.Run != nil {
			c.Violate("C10", "result-and-error/"+v.Name+"/"+tagOp(tag), fmt.Sprintf("%s: both a result and an error: %v", tag, r.res.Err), nil)
		}
		if r.res.Err == nil && r.res.Run == nil {
			c.Violate("C10", "nil-nil/"+v.Name+"/"+tagOp(tag), tag+": nil result and nil error", nil)
		}
		c.Count("runs", 1)
	}
	judgeCommon(id+" census", census)
	ops := census.counts[0]
	type class struct {
		name string
		f    simnet.Fault
	}
	classes := []class{
		{"fatal", simnet.Fault{Err: fmt.Errorf("socket layer: %w", errInjected)}},
		// what the real sockets return: an errno behind os.SyscallError (a netfilter rule refusing the send gives EPERM, a
		// broadcast target EACCES, a full table ENOBUFS). Whatever the errno, errors.Is must still find it.
		{"errno-EPERM", simnet.Fault{Err: os.NewSyscallError("sendto", syscall.EPERM)}},
		{"errno-EACCES", simnet.Fault{Err: os.NewSyscallError("sendto", syscall.EACCES)}},
		{"errno-ENOBUFS", simnet.Fault{Err: os.NewSyscallError("recvfrom", syscall.ENOBUFS)}},
		{"deadline", simnet.Fault{Err: os.ErrDeadlineExceeded}},
		// the failing read blocks for 120 ms (longer than a poll interval) before it reports the error: near the end of
		// the listening window the error surfaces after the run's deadline has passed - it is still a failed read
		{"fatal-late", simnet.Fault{Err: fmt.Errorf("socket layer (late): %w", errInjected), Stall: 120 * time.Millisecond}},
		{"zero-length", simnet.Fault{ZeroLen: true}},
		{"zero-length-persistent", simnet.Fault{ZeroLen: true, Persist: true}},
	}
	type inj struct {
		key simnet.FaultKey
		cl  class
	}
	var injs []inj
	for _, op := range []string{"factory", "filter", "write", "deadline", "read", "close_source", "close_sink"} {
		n := ops[op]
		if op == "factory" {
			n = 1
		}
		for k := 1; k <= n+1; k++ { // n+1: a fault that can never fire must change nothing
			for _, cl := range classes {
				if (cl.f.ZeroLen || cl.name == "fatal-late") && op != "read" {
					continue
				}
				if strings.HasPrefix(cl.name, "errno-") && (k > 3 || op == "close_source" || op == "close_sink" || op == "deadline") {
					continue // the errno classes at the first three calls of each failing operation
				}
				h := 0
				if op == "factory" {
					h = -1
				}
				injs = append(injs, inj{simnet.FaultKey{Handle: h, Op: op, K: k}, cl})
			}
		}
	}
	for _, in := range injs {
		tag := fmt.Sprintf("%s fault=%s#%d/%s", id, in.key.Op, in.key.K, in.cl.name)
		r := runC10(c, v, w, map[simnet.FaultKey]simnet.Fault{in.key: in.cl.f}, false)
		if r == nil {
			return
		}
		judgeCommon(tag, r)
		fired := len(r.fired) > 0
		sameAsClean := r.res.Err == nil && r.key == census.key
		failed := r.res.Err != nil && r.res.Run == nil
		detail := map[string]any{"result": fmtRun(r.res), "fault_free": census.key, "fired": fmt.Sprint(r.fired)}
		sigBase := fmt.Sprintf("%s/%s/%s", v.Name, in.key.Op, in.cl.name)
		switch {
		case !fired:
			if !sameAsClean {
				c.Violate("C10", "unfired-fault-changed-result/"+sigBase, tag+": the fault never fired but the outcome differs from the fault-free run", detail)
			}
		case in.key.Op == "close_source" || in.key.Op == "close_sink":
			// a failing Close must not change the outcome
			if !sameAsClean {
				c.Violate("C10", "close-error-changed-result/"+sigBase, tag+": outcome differs from the fault-free run", detail)
			}
		case strings.HasPrefix(in.cl.name, "errno-"):
			var want syscall.Errno
			errors.As(in.cl.f.Err, &want)
			if !failed {
				c.Violate("C10", "fault-swallowed/"+sigBase, fmt.Sprintf("%s: the operation failed but the run returned a result (partial path as success)", tag), detail)
			} else if !errors.Is(r.res.Err, want) {
				c.Violate("C10", "cause-lost/"+sigBase, fmt.Sprintf("%s: returned error does not wrap the underlying errno (%v): %v", tag, want, r.res.Err), detail)
			}
		case in.cl.name == "fatal" || in.cl.name == "fatal-late" || (in.cl.name == "deadline" && in.key.Op != "read"):
			if !failed {
				c.Violate("C10", "fault-swallowed/"+sigBase, fmt.Sprintf("%s: the operation failed but the run returned a result (partial path as success)", tag), detail)
			} else if in.cl.name != "deadline" && !errors.Is(r.res.Err, errInjected) {
				c.Violate("C10", "cause-lost/"+sigBase, fmt.Sprintf("%s: returned error does not wrap the underlying cause: %v", tag, r.res.Err), detail)
			} else if in.cl.name == "deadline" && !errors.Is(r.res.Err, os.ErrDeadlineExceeded) {
				c.Violate("C10", "cause-lost/"+sigBase, fmt.Sprintf("%s: returned error does not wrap the underlying cause: %v", tag, r.res.Err), detail)
			}
		default:
			// read deadline (= no packet) and zero-length reads: fault-free result or a clean failure, never a different path
			if !sameAsClean && !failed {
				c.Violate("C10", "partial-result/"+sigBase, fmt.Sprintf("%s: the run returned a path different from the fault-free one", tag), detail)
			}
		}
		if fired {
			c.Nontrivial(fmt.Sprintf("%s/%s/%s/%s", v.Name, in.key.Op, kBucket(in.key.K, ops[in.key.Op]), in.cl.name))
			c.Count("faults_fired", 1)
		}
		c.Sample(map[string]any{"case": tag, "fired": fmt.Sprint(r.fired), "outcome": fmtRun(r.res)})
	}
	if v.Proto == "sack" {
		// real dial failure: nothing listens
		r := runC10(c, v, w, nil, true)
		if r != nil {
			tag := id + " fault=dial-refused"
			judgeCommon(tag, r)
			if r.res.Err == nil {
				c.Violate("C10", "fault-swallowed/"+v.Name+"/dial", tag+": dial was refused but the run succeeded", fmtRun(r.res))
			} else if !errors.Is(r.res.Err, syscall.ECONNREFUSED) {
				c.Violate("C10", "cause-lost/"+v.Name+"/dial", fmt.Sprintf("%s: error does not wrap ECONNREFUSED: %v", tag, r.res.Err), nil)
			} else {
				c.Nontrivial(v.Name + "/dial/refused")
			}
		}
	}
	if v.Proto == "sack" {
		// the SYN-ACK never reaches the capture handle: the read deadline of the handshake is the failure
		spec := defaultSpec(v, c.Worker, w.first, w.last)
		if e, err := newSimEnv(c, spec, 0x10000000); err == nil {
			e.peer.ShowSynAck = false
			fd0 := fdCount()
			_ = fd0
			res := e.run(simplePathWin(v, w, w.first+3, true, 9*time.Millisecond))
			synctest.Wait()
			tag := id + " fault=handshake-deadline"
			life, leaked := e.w.Lifecycle(), repoGoroutines()
			runaway := e.handle != nil && e.handle.ReadOverrun
			e.close()
			switch {
			case runaway:
				c.Violate("C10", "fault-swallowed/"+v.Name+"/handshake-deadline", tag+": the expired handshake read deadline was not treated as a failure (the run kept reading until the harness stopped it)", nil)
			case res.Err == nil:
				c.Violate("C10", "fault-swallowed/"+v.Name+"/handshake-deadline", tag+": no SYN-ACK was captured but the run succeeded", fmtRun(res))
			default:
				c.Nontrivial(v.Name + "/handshake-deadline")
			}
			if len(life) > 0 {
				c.Violate("C10", "lifecycle/"+v.Name+"/handshake-deadline", fmt.Sprintf("%s: %v", tag, life), nil)
			}
			if len(leaked) > 0 {
				c.Violate("C10", "goroutine-leak/"+v.Name+"/handshake-deadline", fmt.Sprintf("%s: %d repository goroutine(s) alive after return", tag, len(leaked)), leaked)
			}
		}
	}
	if pairs {
		r0 := c.Rng
		for i := 0; i < 800; i++ {
			a, b := injs[r0.Intn(len(injs))], injs[r0.Intn(len(injs))]
			tag := fmt.Sprintf("%s pair=%s#%d/%s+%s#%d/%s", id, a.key.Op, a.key.K, a.cl.name, b.key.Op, b.key.K, b.cl.name)
			r := runC10(c, v, w, map[simnet.FaultKey]simnet.Fault{a.key: a.cl.f, b.key: b.cl.f}, false)
			if r == nil {
				return
			}
			judgeCommon(tag, r)
			if r.res.Err == nil && r.key != census.key {
				c.Violate("C10", "partial-result/"+v.Name+"/pair", tag+": the run returned a path different from the fault-free one", map[string]any{"result": fmtRun(r.res), "fault_free": census.key})
			}
			if len(r.fired) == 2 {
				c.Nontrivial(fmt.Sprintf("%s/pair/%s+%s", v.Name, a.key.Op, b.key.Op))
			}
		}
	}
}

func tagOp(tag string) string {
	if i := strings.Index(tag, "fault="); i >= 0 {
		s := tag[i+6:]
		if j := strings.Index(s, "#"); j >= 0 {
			return s[:j]
		}
		return s
	}
	if strings.Contains(tag, "pair=") {
		return "pair"
	}
	return "census"
}
