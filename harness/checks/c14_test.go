package checks

import (
	"bufio"
	"context"
	"errors"
	"fmt"
	"github.com/DataDog/datadog-traceroute/server"
	"net"
	"net/http"
	"net/http/httptest"
	"net/netip"
	"net/url"
	"os"
	"sort"
	"strings"
	"sync"
	"time"

	"github.com/DataDog/datadog-traceroute/icmp"
	"github.com/DataDog/datadog-traceroute/packets"
	"github.com/DataDog/datadog-traceroute/publicip"
	"github.com/DataDog/datadog-traceroute/reversedns"
	"github.com/DataDog/datadog-traceroute/traceroute"

	"verif/harness/drive"
	"verif/harness/fw"
	"verif/harness/gen"
	"verif/harness/refmatch"
	"verif/harness/simnet"
	"verif/harness/wirefmt"
)

func init() { register("C14", checkC14) }

// localPortTo finds the local port of this process's connected UDP socket to target:port (/proc/net/udp[6]).
func localPortTo(target netip.Addr, port uint16) uint16 {
	file := "/proc/net/udp"
	var want string
	if target.Is6() {
		file = "/proc/net/udp6"
		b := target.As16()
		// each 32-bit word is printed in host (little-endian) order
		var sb strings.Builder
		for w := 0; w < 4; w++ {
			fmt.Fprintf(&sb, "%02X%02X%02X%02X", b[w*4+3], b[w*4+2], b[w*4+1], b[w*4])
		}
		want = fmt.Sprintf("%s:%04X", sb.String(), port)
	} else {
		b := target.As4()
		want = fmt.Sprintf("%02X%02X%02X%02X:%04X", b[3], b[2], b[1], b[0], port)
	}
	f, err := os.Open(file)
	if err != nil {
		return 0
	}
	defer f.Close()
	sc := bufio.NewScanner(f)
	for sc.Scan() {
		fs := strings.Fields(sc.Text())
		if len(fs) > 3 && fs[2] == want {
			var lp uint16
			if i := strings.LastIndex(fs[1], ":"); i >= 0 {
				fmt.Sscanf(fs[1][i+1:], "%X", &lp)
			}
			return lp
		}
	}
	return 0
}

// predictedQuote builds the probe the driver will send for ttl (what a router would quote).
func predictedQuote(v refmatch.Variant, local, target netip.Addr, lport, dport uint16, echoID uint16, isn uint32, ttl int) []byte {
	switch v.Proto {
	case "icmp":
		var rest [4]byte
		rest[0], rest[1] = byte(echoID>>8), byte(echoID)
		rest[2], rest[3] = 0, byte(ttl)
		if v.V6 {
			return wirefmt.IPv6{NextHeader: 58, HopLimit: 1, Src: local, Dst: target}.Marshal(wirefmt.ICMPv6(local, target, 128, 0, rest, []byte{byte(ttl)}))
		}
		return wirefmt.IPv4{ID: echoID, TTL: 1, Proto: 1, Src: local, Dst: target}.Marshal(wirefmt.ICMPv4(8, 0, rest, []byte{byte(ttl)}))
	case "udp":
		if v.V6 {
			return wirefmt.IPv6{NextHeader: 17, HopLimit: 1, Src: local, Dst: target}.Marshal(wirefmt.UDP(local, target, lport, dport, make([]byte, 5+ttl)))
		}
		return wirefmt.IPv4{ID: 41821 + uint16(ttl), Flags: 2, TTL: 1, Proto: 17, Src: local, Dst: target}.Marshal(wirefmt.UDP(local, target, lport, dport, []byte("NSMNC\x00\x00\x00")))
	}
	seg := wirefmt.TCP{SrcPort: lport, DstPort: dport, Seq: isn + uint32(ttl), Ack: 0x51000001, Flags: wirefmt.TCPAck | wirefmt.TCPPsh, Window: 1024, Payload: []byte{byte(ttl)}}.Marshal(local, target)
	return wirefmt.IPv4{ID: 41821, TTL: 1, Proto: 6, Src: local, Dst: target}.Marshal(seg)
}

type c14Obs struct {
	early, late int
	accepted    int
	err         error
}

// runC14Unsync runs one parallel-capable variant over the unsynchronised pre-seeded wire.
func runC14Unsync(c *fw.Ctx, v refmatch.Variant, rep int) c14Obs {
	first, last := 1, 12
	spec := defaultSpec(v, 200+c.Worker, first, last)
	spec.Timeout = 40 * time.Millisecond
	spec.Delay = time.Millisecond
	spec.Poll = 5 * time.Millisecond
	spec.HandshakeTimeout = 300 * time.Millisecond
	if v.Proto == "sack" {
		spec.Port = uint16(24000 + c.Worker)
	}
	local := drive.Local4
	if v.V6 {
		local = drive.Local6
	}
	echoBase := uint32(0x3000 + rep*7)
	if v.Proto == "icmp" {
		icmp.VerifSetEchoIDBase(echoBase)
	}
	echoID := uint16(echoBase + 1)
	isn := uint32(0xfffffff0) + uint32(rep) // wraps inside the window
	var peer *drive.SackPeer
	if v.Proto == "sack" {
		p, err := drive.ListenPeer(netip.AddrPortFrom(spec.Target, spec.Port))
		if err != nil {
			return c14Obs{err: err}
		}
		p.ISN = isn
		p.ServerISN = 0x51000000
		peer = p
		defer peer.Close()
	}
	snk := &simnet.UnsyncSink{}
	if rep%3 == 2 {
		// every third repetition: one send (never the first) fails after a stall, while replies keep arriving
		snk.FailAt, snk.FailStall, snk.FailErr = 2+rep%7, 400*time.Microsecond, fmt.Errorf("sendto: %w", errInjected)
	}
	src := &simnet.UnsyncSource{}
	W := last - first + 1
	var lport uint16
	var frames [][]byte // one per TTL, built at the first read (private to the reader)
	tags := map[int]int{}
	started := time.Time{}
	src.Next = func(n int) ([]byte, time.Duration) {
		if started.IsZero() {
			started = time.Now()
			switch v.Proto {
			case "udp":
				lport = localPortTo(spec.Target, spec.Port)
			case "sack":
				c, err := peer.AcceptOne(2 * time.Second)
				if err == nil {
					lport = c
				}
			}
			for t := first; t <= last; t++ {
				q := predictedQuote(v, local, spec.Target, lport, spec.Port, echoID, isn, t)
				frames = append(frames, gen.WrapError(routerAddr(v.V6, 1, t), local, gen.TimeExceeded, 0, q, "min", nil, 0))
			}
			if v.Proto == "sack" {
				return peer.SynAckBytes(local, lport), 0
			}
		}
		if time.Since(started) > 30*time.Millisecond {
			return nil, 0
		}
		t := first + n%W
		tags[n] = t
		// replies for every TTL circulate continuously: each is read before its probe is recorded and after
		return frames[t-first], 25 * time.Microsecond
	}
	unreg := simnet.RegisterUnsync(spec.Target, src, snk)
	res := drive.Run(spec)
	unreg()
	obs := c14Obs{err: res.Err}
	// classify reads (after the run: the engine's own synchronisation orders these accesses)
	sendAt := map[int]time.Time{}
	for _, w := range snk.Writes {
		if len(w.Bytes) > 8 {
			ttl := int(w.Bytes[8])
			if v.V6 {
				ttl = int(w.Bytes[7])
			}
			sendAt[ttl] = w.At
		}
	}
	for _, r := range src.Reads {
		t, ok := tags[r.Tag]
		if !ok {
			continue
		}
		if s, sent := sendAt[t]; !sent || r.At.Before(s) {
			obs.early++
		} else {
			obs.late++
		}
	}
	if res.Err == nil && res.Run != nil {
		for _, h := range res.Run.Hops {
			if len(h.IPAddress) > 0 {
				obs.accepted++
			}
		}
	}
	if snk.Closed != 1 || src.Closed != 1 {
		c.Violate("C10", "lifecycle/unsync/"+v.Name, fmt.Sprintf("unsynchronised wire: sink closed %d times, source closed %d times", snk.Closed, src.Closed), nil)
	}
	return obs
}

func checkC14() fw.Check {
	return fw.Check{
		Prop:  "C14",
		Level: "exploration",
		Rule: "built-in race detector (GORACE halt_on_error=0, log_path) over real goroutines on the real clock: (a) every parallel-capable variant (icmp4/6, udp4/6, sackR/S) on an UNSYNCHRONISED pre-seeded wire whose Sink and Source share no lock/atomic/channel, with replies for every TTL circulating continuously so each is read both before its probe is recorded (early/stale/spoofed) and after, and in every third repetition one send failing after a stall (the send's error path runs against the receive path); (b) K concurrent runs of mixed protocols over the ordinary simulated wire (allocators, echo ids, math/rand); (d) allocator bursts: 16 goroutines released at once draw IP-id blocks and echo ids, all blocks of one burst (< 65536 identifiers) must be disjoint (lost updates of a non-atomic read-modify-write are invisible to the race detector); (c) whole RunTraceroute requests with reverse-DNS fan-out, public-IP fetch and some participants failing at the same time, and six requests served at once by one server.Server (one shared Traceroute value) through TracerouteHandler; (e) the CLI binary built with -race from the working tree (no verif tag) tracing kernel routers over the real AF_PACKET source and raw sink, several runs and end-to-end probes per process, its reports read from the same log directory; each workload repeated R times; reports are de-duplicated by the pair of first repository frames; a report without repository frames makes the run inconclusive (harness race). " +
			"distinct_nontrivial counts (variant, had-early-reads, had-late-reads) and workload signatures observed; a variant without both early and late reads is inconclusive",
		Workers:       1,
		MinNontrivial: 12,
		Assumptions:   []string{"a silent race detector is not race freedom: held on the interleavings the Go scheduler produced", "the unsynchronised wire predicts the probes (echo id base pinned through the verif hook, UDP port read from /proc/net/udp, SACK port from the accepted connection)", "Linux build"},
		Gen: func(tier string, seed int64) []fw.Case {
			reps := 15
			if tier == "thorough" {
				reps = 400
			}
			var cases []fw.Case
			for _, vn := range []string{"icmp4", "icmp6", "udp4", "udp6", "sackR", "sackS"} {
				vn := vn
				cases = append(cases, fw.Case{ID: "C14/unsync/" + vn, Run: func(c *fw.Ctx) {
					v := refmatch.VariantByName(vn)
					early, late, acc := 0, 0, 0
					for rep := 0; rep < reps; rep++ {
						o := runC14Unsync(c, v, rep)
						if o.err != nil {
							var nse interface{ Error() string }
							_ = nse
							c.Count("unsync_run_errors", 1)
							if rep == 0 {
								c.Sample(map[string]any{"variant": vn, "error": o.err.Error()})
							}
						}
						early += o.early
						late += o.late
						acc += o.accepted
					}
					c.Count("early_reads", early)
					c.Count("late_reads", late)
					c.Count("hops_accepted", acc)
					if early == 0 || late == 0 || acc == 0 {
						c.Inconclusive(fmt.Sprintf("C14/unsync/%s: early=%d late=%d accepted hops=%d: the workload did not produce both orders", vn, early, late, acc))
					} else {
						c.Nontrivial("unsync/" + vn + "/early+late")
					}
					c.Sample(map[string]any{"variant": vn, "repetitions": reps, "early_reads": early, "late_reads": late, "hops_accepted": acc})
				}})
			}
			cases = append(cases, fw.Case{ID: "C14/rdns-fanout", Run: func(c *fw.Ctx) { runC14RdnsFanout(c, reps) }})
			for k := 0; k < 3; k++ {
				k := k
				cases = append(cases, fw.Case{ID: fmt.Sprintf("C14/publicip-overlap/%d", k), Bubble: true, Run: func(c *fw.Ctx) { runC14PublicIPOverlap(c, k) }})
			}
			for k := 0; k < 4; k++ {
				k := k
				cases = append(cases, fw.Case{ID: fmt.Sprintf("C14/rdns-slow-batch/%d", k), Bubble: true, Run: func(c *fw.Ctx) { runC14RdnsSlowBatch(c, k) }})
			}
			cases = append(cases, fw.Case{ID: "C14/alloc-bursts", Run: func(c *fw.Ctx) { runC14AllocBursts(c, reps) }})
			for i := 0; i < reps/2+1; i++ {
				i := i
				cases = append(cases, fw.Case{ID: fmt.Sprintf("C14/concurrent/%d", i), Run: func(c *fw.Ctx) { runC14Concurrent(c, i) }})
				cases = append(cases, fw.Case{ID: fmt.Sprintf("C14/request/%d", i), Run: func(c *fw.Ctx) { runC14Request(c, i) }})
				cases = append(cases, fw.Case{ID: fmt.Sprintf("C14/server/%d", i), Run: func(c *fw.Ctx) { runC14Server(c, i) }})
			}
			return withKernelStage("C14", tier, cases)
		},
		Finish: func(c *fw.Ctx) { fw.ReportRaces(c, "") },
	}
}

func runC14Concurrent(c *fw.Ctx, i int) {
	mixes := [][]string{{"icmp4", "icmp4", "icmp4", "udp4"}, {"udp4", "udp4", "udp6", "icmp6"}, {"syn", "syn", "synP", "icmp4"}, {"sackR", "sackR", "udp4", "syn"},
		{"udp6", "udp6", "udp6", "icmp6"}, {"synP", "synP", "synPR", "udp6"},
		// three SACK runs at once whose targets do not permit SACK: all three take the "not supported" exit together
		{"sackR", "sackR", "sackS", "syn"},
		// ICMP over IPv6 three times over a long path: the receivers decode quoted echo requests side by side
		{"icmp6", "icmp6", "icmp6", "udp6"}}
	mix := mixes[i%len(mixes)]
	// the last TTL grows from case to case: whatever a variant sizes by the TTL (payloads, tables) is sized anew while its
	// siblings run
	last := 5 + (i*3)%36
	var specs []drive.Spec
	for k, vn := range mix {
		v := refmatch.VariantByName(vn)
		sp := defaultSpec(v, 210+k, 1, last)
		sp.Timeout, sp.Delay, sp.Poll = 25*time.Millisecond, 500*time.Microsecond, 3*time.Millisecond
		sp.HandshakeTimeout = 300 * time.Millisecond
		if v.Proto == "sack" {
			sp.Port = uint16(24100 + k)
		}
		if v.Serial {
			sp.Timeout = 8 * time.Millisecond
		}
		specs = append(specs, sp)
	}
	env, err := newMultiEnv(c, specs)
	if err != nil {
		c.Inconclusive(err.Error())
		return
	}
	defer env.close()
	defer env.closePeers()
	if i%len(mixes) == 6 {
		for _, p := range env.peers {
			p.SackPerm = false
		}
	}
	env.modelFor = func(k int, e *simEnv) *pathModel {
		dist := 4
		if m := i % len(mixes); m == 4 || m == 5 || m == 7 {
			dist = last - 1 // a long path: every TTL of the range is probed
		}
		m := flowPath(k, e, dist, true, 200*time.Microsecond)
		for _, h := range m.hops {
			h.delay = time.Duration(100+k*30) * time.Microsecond
		}
		m.destDelay = 300 * time.Microsecond
		return m
	}
	var wg sync.WaitGroup
	ok := 0
	var mu sync.Mutex
	for k := range specs {
		wg.Add(1)
		k := k
		go func() {
			defer wg.Done()
			r := drive.Run(specs[k])
			if r.Err == nil {
				mu.Lock()
				ok++
				mu.Unlock()
			}
		}()
	}
	wg.Wait()
	c.Count("concurrent_runs", len(specs))
	if ok >= 2 {
		c.Nontrivial(fmt.Sprintf("concurrent/%s", strings.Join(mix, "+")))
	}
}

// runC14RdnsFanout: the reverse-DNS fan-out with many addresses and instant answers (first from the resolver, then
// from the cache): lookups complete while the spawning loop is still iterating.
func runC14AllocBursts(c *fw.Ctx, reps int) {
	allocMu.Lock()
	defer allocMu.Unlock()
	const G = 16
	const per = 150
	const width = 20 // 16*150*20 = 48000 identifiers per burst
	for b := 0; b < reps*2; b++ {
		starts := make([][]uint16, G)
		echo := make([][]uint16, G)
		gate := make(chan struct{})
		var wg sync.WaitGroup
		for g := 0; g < G; g++ {
			wg.Add(1)
			go func(g int) {
				defer wg.Done()
				<-gate
				for i := 0; i < per; i++ {
					starts[g] = append(starts[g], packets.AllocPacketID(width))
					echo[g] = append(echo[g], icmp.VerifNextEchoID())
				}
			}(g)
		}
		close(gate)
		wg.Wait()
		var all []int
		owner := map[uint16]int{}
		dup := false
		for g := range starts {
			for _, s := range starts[g] {
				if o, ok := owner[s]; ok && !dup {
					dup = true
					c.Violate("C14", "alloc-lost-update/ip-id", fmt.Sprintf("burst %d: AllocPacketID handed the block starting at %d to callers %d and %d at the same time", b, s, o, g), nil)
				}
				owner[s] = g
				all = append(all, int(s))
			}
		}
		if !dup {
			// distinct starts: blocks must also not overlap (gap between neighbours on the 16-bit circle >= width)
			sort.Ints(all)
			for i := range all {
				nxt := all[(i+1)%len(all)]
				gap := (nxt - all[i] + 65536) % 65536
				if gap < width {
					c.Violate("C14", "alloc-lost-update/ip-id", fmt.Sprintf("burst %d: blocks starting at %d and %d (width %d) overlap", b, all[i], nxt, width), nil)
					break
				}
			}
		}
		eo := map[uint16]int{}
		for g := range echo {
			for _, e := range echo[g] {
				if o, ok := eo[e]; ok {
					c.Violate("C14", "alloc-lost-update/echo-id", fmt.Sprintf("burst %d: echo id %d handed to callers %d and %d at the same time", b, e, o, g), nil)
					goto next
				}
				eo[e] = g
			}
		}
	next:
		c.Count("alloc_burst_allocations", 2*G*per)
	}
	c.Nontrivial("alloc-bursts")
}

func runC14RdnsFanout(c *fw.Ctx, reps int) {
	resetProcessState()
	rs := installResolver(func(addr string) ([]string, error, time.Duration) { return namesFor(addr), nil, 0 })
	defer rs.restore()
	var ips []net.IP
	for i := 0; i < 120; i++ {
		ips = append(ips, net.IPv4(203, 0, byte(113+i/250), byte(1+i%250)).To4())
		if i%3 == 0 {
			ips = append(ips, ips[len(ips)-1]) // duplicates
		}
	}
	n := 0
	for r := 0; r < reps*4; r++ {
		m, _ := reversedns.GetReverseDnsForIPs(ips)
		n += len(m)
	}
	c.Count("rdns_fanout_lookups", n)
	c.Nontrivial("rdns-fanout")
}

// runC14RdnsSlowBatch (bubble): some lookups of a batch are slow but successful (2..4.5 virtual seconds, inside the
// 5 s lookup timeout). What GetReverseDnsForIPs returns belongs to the caller: it is read repeatedly for 6 more virtual
// seconds; a lookup goroutine that outlives the call and still writes into it is a write racing with these reads (race
// detector) and shows as a map that keeps growing.
func runC14RdnsSlowBatch(c *fw.Ctx, k int) {
	resetProcessState()
	rs := installResolver(func(addr string) ([]string, error, time.Duration) {
		last := int(netip.MustParseAddr(addr).As4()[3])
		if last%4 == k%4 {
			return namesFor(addr), nil, time.Duration(2000+(last*37+k*400)%2500) * time.Millisecond
		}
		return namesFor(addr), nil, time.Millisecond
	})
	defer rs.restore()
	var ips []net.IP
	for i := 0; i < 24; i++ {
		ips = append(ips, net.IPv4(203, 0, 114, byte(1+i)).To4())
	}
	m, _ := reversedns.GetReverseDnsForIPs(ips)
	size0 := len(m)
	for i := 0; i < 60; i++ {
		n := 0
		for _, names := range m {
			n += len(names)
		}
		if len(m) != size0 {
			c.Violate("C14", "rdns-map-changes-after-return", fmt.Sprintf("slow batch %d: the map GetReverseDnsForIPs returned had %d entries and has %d a little later", k, size0, len(m)), nil)
			break
		}
		time.Sleep(100 * time.Millisecond)
	}
	c.Count("rdns_slow_batches", 1)
	c.Nontrivial(fmt.Sprintf("rdns-slow-batch/%d", k%4))
}

// runC14PublicIPOverlap: requests that overlap on one Traceroute / Server value share its public-IP fetcher. Three lookups
// start together on a cold cache (production fetcher around a scripted HTTP client whose first two providers fail with a
// retryable transport error, so the back-off policy is exercised): whatever state the fetcher keeps between attempts is
// touched by all three (race detector).
func runC14PublicIPOverlap(c *fw.Ctx, k int) {
	resetProcessState()
	rt := &scriptedRT{scripts: map[string][]providerStep{}, t0: time.Now()}
	for i, h := range providerHosts {
		switch {
		case i < k%3:
			rt.scripts[h] = []providerStep{{kind: "transport"}}
		default:
			rt.scripts[h] = []providerStep{{kind: "valid4", ip: "192.0.2.77"}}
		}
	}
	f := publicip.VerifNewPublicIPFetcher(&http.Client{Transport: rt})
	var wg sync.WaitGroup
	for g := 0; g < 3; g++ {
		wg.Add(1)
		go func() {
			defer wg.Done()
			if ip, err := f.GetIP(context.Background()); err != nil || !ip.Equal(net.ParseIP("192.0.2.77")) {
				c.Violate("C18", "fetcher-wrong-address/overlap", fmt.Sprintf("overlapping lookup returned %v err=%v", ip, err), nil)
			}
		}()
	}
	wg.Wait()
	c.Count("publicip_overlapping_lookups", 3)
	c.Nontrivial(fmt.Sprintf("publicip-overlap/%d", k%3))
}

func runC14Request(c *fw.Ctx, i int) {
	resetProcessState()
	proto := []string{"udp", "icmp", "tcp"}[i%3]
	v := map[string]refmatch.Variant{"udp": refmatch.VariantByName("udp4"), "icmp": refmatch.VariantByName("icmp4"), "tcp": refmatch.VariantByName("syn")}[proto]
	target := drive.TargetFor(v, 220)
	params := traceroute.TracerouteParams{Hostname: target.String(), Port: 33434, Protocol: proto, MinTTL: 1, MaxTTL: 4, Delay: 1, Timeout: 20 * time.Millisecond,
		TCPMethod: traceroute.TCPConfigSYN, TracerouteQueries: 3, E2eQueries: 4, ReverseDns: true, CollectSourcePublicIP: true}
	if proto == "tcp" {
		params.Timeout = 6 * time.Millisecond
	}
	env, err := newReqEnv(c, params, target, 33434, false)
	if err != nil {
		c.Inconclusive(err.Error())
		return
	}
	defer env.close()
	env.fetcher = &scriptedFetcher{ip: net.ParseIP("192.0.2.1"), delay: time.Duration(i%3) * time.Millisecond}
	rs := installResolver(func(addr string) ([]string, error, time.Duration) {
		return namesFor(addr), nil, time.Duration(len(addr)%3) * 100 * time.Microsecond
	})
	defer rs.restore()
	env.modelFor = func(k int, e *simEnv) *pathModel {
		m := flowPath(k, e, 3, true, 100*time.Microsecond)
		for _, h := range m.hops {
			h.delay = time.Duration(80+k*20) * time.Microsecond
		}
		m.destDelay = 250 * time.Microsecond
		return m
	}
	failing := i%2 == 1
	if failing {
		// several participants (runs and end-to-end probes) fail at the same moment
		env.onFlow = func(k int, e *simEnv) {
			if k%2 == 0 {
				env.w.PoisonHandle(e.handle, errors.New("verif: simultaneous failure"))
			}
		}
	}
	_, rerr := env.run(context.Background())
	c.Count("requests", 1)
	c.Nontrivial(fmt.Sprintf("request/%s/failing%v/err%v", proto, failing, rerr != nil))
}

// runC14Server: the HTTP front end keeps ONE Traceroute value for all requests; several requests are served at once
// (different protocols and flags, same target), each fanning out runs, end-to-end probes and reverse-DNS lookups.
func runC14Server(c *fw.Ctx, i int) {
	resetProcessState()
	v := refmatch.VariantByName("udp4")
	target := drive.TargetFor(v, 221)
	params := traceroute.TracerouteParams{Hostname: target.String(), Port: 33434, Protocol: "udp", MinTTL: 1, MaxTTL: 4}
	env, err := newReqEnv(c, params, target, 33434, false)
	if err != nil {
		c.Inconclusive(err.Error())
		return
	}
	defer env.close()
	rs := installResolver(func(addr string) ([]string, error, time.Duration) {
		return namesFor(addr), nil, time.Duration(len(addr)%3) * 100 * time.Microsecond
	})
	defer rs.restore()
	env.modelFor = func(k int, e *simEnv) *pathModel {
		m := flowPath(k, e, 3, true, 100*time.Microsecond)
		m.destDelay = 250 * time.Microsecond
		return m
	}
	srv := server.NewServer()
	var wg sync.WaitGroup
	codes := make([]int, 6)
	allocMu.Lock()
	for k := 0; k < 6; k++ {
		k := k
		wg.Add(1)
		go func() {
			defer wg.Done()
			proto := []string{"udp", "icmp", "tcp"}[(k+i)%3]
			to := "25"
			if proto == "tcp" {
				to = "6"
			}
			q := url.Values{"target": {target.String()}, "protocol": {proto}, "port": {"33434"}, "max-ttl": {"4"}, "timeout": {to}, "traceroute-queries": {"2"},
				"e2e-queries": {"2"}, "reverse-dns": {fmt.Sprint(k%2 == 0)}, "skip-private-hops": {fmt.Sprint(k%3 == 0)}}
			if k%2 == 1 {
				// parameters a client may send along that the handler does not know (today): whatever it does with them, it
				// does while the other requests' runs are in flight
				q.Set("verbose", "true")
				q.Set("log-level", "trace")
				q.Set("debug", "1")
			}
			rec := httptest.NewRecorder()
			srv.TracerouteHandler(rec, httptest.NewRequest("GET", "/traceroute?"+q.Encode(), nil))
			codes[k] = rec.Code
		}()
	}
	wg.Wait()
	allocMu.Unlock()
	ok := 0
	for _, cd := range codes {
		if cd == 200 {
			ok++
		}
	}
	c.Count("server_requests", len(codes))
	c.Count("server_requests_ok", ok)
	if ok > 0 {
		c.Nontrivial("server-concurrent")
	}
}

var _ = packets.FilterTypeICMP
