package checks

import (
	"bytes"
	"encoding/binary"
	"fmt"
	"math/rand"
	"net"
	"net/netip"
	"sync"
	"sync/atomic"
	"time"
	"unsafe"

	"github.com/DataDog/datadog-traceroute/packets"
	"golang.org/x/net/bpf"
	"golang.org/x/sys/unix"

	"verif/harness/fw"
	"verif/harness/refmatch"
	"verif/harness/simnet"
	"verif/harness/wirefmt"
)

func init() { register("C12", checkC12) }

// ---------------------------------------------------------------------------------------------
// reference predicates, written from the statement (a load beyond the end of the frame rejects)

type tupleCfg struct {
	src, dst     [4]byte
	sport, dport uint16
}

func be16(b []byte, off int) (uint16, bool) {
	if off < 0 || off+2 > len(b) {
		return 0, false
	}
	return binary.BigEndian.Uint16(b[off:]), true
}

func refTuple(cfg tupleCfg, f []byte) bool {
	et, ok := be16(f, 12)
	if !ok || et != 0x0800 {
		return false
	}
	if len(f) <= 23 {
		return false
	}
	switch f[23] {
	case 1:
		return true
	case 6:
	default:
		return false
	}
	if len(f) < 34 {
		return false
	}
	if [4]byte(f[26:30]) != cfg.src || [4]byte(f[30:34]) != cfg.dst {
		return false
	}
	fo, _ := be16(f, 20)
	if fo&0x1fff != 0 {
		return false
	}
	x := 4 * int(f[14]&0xf)
	sp, ok1 := be16(f, 14+x)
	dp, ok2 := be16(f, 16+x)
	return ok1 && ok2 && sp == cfg.sport && dp == cfg.dport
}

func refSynAck(f []byte) bool {
	et, ok := be16(f, 12)
	if !ok || et != 0x0800 || len(f) <= 23 || f[23] != 6 {
		return false
	}
	fo, _ := be16(f, 20)
	if fo&0x1fff != 0 {
		return false
	}
	x := 4 * int(f[14]&0xf)
	if 14+x+13 >= len(f) {
		return false
	}
	fl := f[14+x+13]
	return fl&0x02 != 0 && fl&0x10 != 0
}

func refICMP(f []byte) bool {
	et, ok := be16(f, 12)
	if !ok {
		return false
	}
	switch et {
	case 0x0800:
		return len(f) > 23 && f[23] == 1
	case 0x86dd:
		if len(f) <= 20 {
			return false
		}
		if f[20] == 58 {
			return true
		}
		return f[20] == 44 && len(f) > 54 && f[54] == 58
	}
	return false
}

// ---------------------------------------------------------------------------------------------
// program evaluation: x/net/bpf VM and the running kernel

type evaluator struct {
	vm      *bpf.VM
	fds     [2]int
	hasKern bool
	nVM, nK int
	rcv     []byte
}

func newEvaluator(raw []bpf.RawInstruction, kernel bool) (*evaluator, error) {
	insns, ok := bpf.Disassemble(raw)
	if !ok {
		return nil, fmt.Errorf("program does not disassemble")
	}
	vm, err := bpf.NewVM(insns)
	if err != nil {
		return nil, err
	}
	e := &evaluator{vm: vm, rcv: make([]byte, 4096)}
	if kernel {
		fds, err := unix.Socketpair(unix.AF_UNIX, unix.SOCK_DGRAM|unix.SOCK_NONBLOCK, 0)
		if err != nil {
			return nil, err
		}
		filt := make([]unix.SockFilter, len(raw))
		for i, r := range raw {
			filt[i] = unix.SockFilter{Code: r.Op, Jt: r.Jt, Jf: r.Jf, K: r.K}
		}
		prog := unix.SockFprog{Len: uint16(len(filt)), Filter: (*unix.SockFilter)(unsafe.Pointer(&filt[0]))}
		if err := unix.SetsockoptSockFprog(fds[1], unix.SOL_SOCKET, unix.SO_ATTACH_FILTER, &prog); err != nil {
			unix.Close(fds[0])
			unix.Close(fds[1])
			return nil, fmt.Errorf("SO_ATTACH_FILTER: %w", err)
		}
		e.fds = [2]int{fds[0], fds[1]}
		e.hasKern = true
	}
	return e, nil
}

func (e *evaluator) close() {
	if e.hasKern {
		unix.Close(e.fds[0])
		unix.Close(e.fds[1])
	}
}

func (e *evaluator) evalVM(f []byte) bool {
	e.nVM++
	n, err := e.vm.Run(f)
	return err == nil && n > 0
}

// evalKernel: the frame is sent as the payload of a unix datagram; the receiving socket carries the
// program, so it is received iff the kernel's cBPF engine accepted it.
func (e *evaluator) evalKernel(f []byte) (bool, error) {
	e.nK++
	if len(f) == 0 {
		return false, nil // a zero-length datagram cannot carry a verdict
	}
	if _, err := unix.Write(e.fds[0], f); err != nil {
		return false, err
	}
	_, _, err := unix.Recvfrom(e.fds[1], e.rcv, unix.MSG_DONTWAIT)
	if err == unix.EAGAIN {
		return false, nil
	}
	if err != nil {
		return false, err
	}
	return true, nil
}

// ---------------------------------------------------------------------------------------------
// frame classes

var (
	ethertypes = []uint16{0x0800, 0x86dd, 0x0806, 0x8100, 0x1234}
	protoVals  = []byte{1, 6, 17, 44, 58, 99}
	fragWords  = []uint16{0, 0x4000, 0x2000, 0x0001, 0x1fff}
)

// buildV4 builds an Ethernet+IPv4 frame with the given field classes; total length `flen` cuts or pads it.
func buildV4(et uint16, proto byte, ihl int, frag uint16, src, dst [4]byte, sport, dport uint16, flags byte, flen int) []byte {
	n := 14 + 60 + 40
	f := make([]byte, n)
	f[12], f[13] = byte(et>>8), byte(et)
	f[14] = 0x40 | byte(ihl&0xf)
	f[23] = proto
	binary.BigEndian.PutUint16(f[20:], frag)
	copy(f[26:30], src[:])
	copy(f[30:34], dst[:])
	x := 14 + 4*ihl
	// fill the region after the fixed header with a recognisable non-matching pattern first
	for i := 34; i < n; i++ {
		f[i] = 0xa5
	}
	if x+20 <= n {
		binary.BigEndian.PutUint16(f[x:], sport)
		binary.BigEndian.PutUint16(f[x+2:], dport)
		f[x+12] = 0x50
		f[x+13] = flags
	}
	if ihl < 5 {
		// header-declared offset points inside the fixed header: the ports overlay header bytes, restore the
		// fields written before them so the class stays what it claims as far as possible
		f[23] = proto
	}
	if flen >= 0 && flen < n {
		return f[:flen]
	}
	return f
}

func buildV6(nh byte, fragNext byte, flen int) []byte {
	f := make([]byte, 14+40+16)
	f[12], f[13] = 0x86, 0xdd
	f[14] = 0x60
	f[20] = nh
	f[54] = fragNext
	if flen >= 0 && flen < len(f) {
		return f[:flen]
	}
	return f
}

func diffByte(a [4]byte, i int) [4]byte {
	if i >= 0 {
		a[i] ^= 0x01
	}
	return a
}

type c12Counters struct {
	frames, accepted, vmDis, kDis int
}

// enumTuple enumerates the class product for a tuple filter program.
func enumTuple(cfg tupleCfg, every int, emit func(f []byte, desc string)) {
	k := 0
	for _, et := range ethertypes {
		for _, pr := range protoVals {
			for ihl := 0; ihl <= 15; ihl++ {
				for _, fw := range fragWords {
					for ab := -1; ab < 8; ab++ {
						src, dst := cfg.src, cfg.dst
						if ab >= 0 && ab < 4 {
							src = diffByte(src, ab)
						} else if ab >= 4 {
							dst = diffByte(dst, ab-4)
						}
						for pb := -1; pb < 4; pb++ {
							sp, dp := cfg.sport, cfg.dport
							switch pb {
							case 0:
								sp ^= 0x0100
							case 1:
								sp ^= 0x0001
							case 2:
								dp ^= 0x0100
							case 3:
								dp ^= 0x0001
							}
							x := 14 + 4*ihl
							for _, fl := range []int{-1, 13, 14, 23, 24, 33, 34, x + 1, x + 2, x + 3, x + 4} {
								k++
								if every > 1 && k%every != 0 {
									continue
								}
								emit(buildV4(et, pr, ihl, fw, src, dst, sp, dp, 0x12, fl), fmt.Sprintf("et=%#x proto=%d ihl=%d frag=%#x addrbyte=%d portbyte=%d len=%d", et, pr, ihl, fw, ab, pb, fl))
							}
						}
					}
				}
			}
		}
	}
}

func enumSynAck(every int, emit func(f []byte, desc string)) {
	k := 0
	var z [4]byte
	for _, et := range ethertypes {
		for _, pr := range protoVals {
			for ihl := 0; ihl <= 15; ihl++ {
				for _, fw := range fragWords {
					for flags := 0; flags < 256; flags++ {
						x := 14 + 4*ihl
						for _, fl := range []int{-1, 23, 24, x + 13, x + 14} {
							k++
							if every > 1 && k%every != 0 {
								continue
							}
							emit(buildV4(et, pr, ihl, fw, z, z, 1, 2, byte(flags), fl), fmt.Sprintf("et=%#x proto=%d ihl=%d frag=%#x flags=%#x len=%d", et, pr, ihl, fw, flags, fl))
						}
					}
				}
			}
		}
	}
}

func enumICMP(emit func(f []byte, desc string)) {
	var z [4]byte
	for _, et := range ethertypes {
		for _, pr := range protoVals {
			for ihl := 0; ihl <= 15; ihl++ {
				for _, fw := range fragWords {
					for _, fl := range []int{-1, 12, 13, 14, 23, 24} {
						emit(buildV4(et, pr, ihl, fw, z, z, 1, 2, 0, fl), fmt.Sprintf("v4 et=%#x proto=%d ihl=%d frag=%#x len=%d", et, pr, ihl, fw, fl))
					}
				}
			}
		}
	}
	for _, nh := range protoVals {
		for _, fn := range protoVals {
			for _, fl := range []int{-1, 20, 21, 54, 55} {
				emit(buildV6(nh, fn, fl), fmt.Sprintf("v6 nh=%d fragnext=%d len=%d", nh, fn, fl))
			}
		}
	}
}

func tupleConfigs(r *rand.Rand, n int) []tupleCfg {
	bytesv := []byte{0, 1, 0x7f, 0x80, 0xff}
	cfgs := []tupleCfg{
		{src: [4]byte{10, 204, 0, 9}, dst: [4]byte{10, 203, 0, 2}, sport: 443, dport: 40000},
		{src: [4]byte{128, 0, 0, 1}, dst: [4]byte{255, 255, 255, 255}, sport: 0x8000, dport: 0x0080},
		{src: [4]byte{0, 0, 0, 1}, dst: [4]byte{1, 0, 0, 0}, sport: 0xffff, dport: 1},
		{src: [4]byte{0x7f, 0x80, 0xff, 0}, dst: [4]byte{0xff, 0, 0x80, 0x7f}, sport: 0x00ff, dport: 0xff00},
		// tuples made of the values the generator's own source mentions (the tcpdump expression it was generated from:
		// src 2.4.6.8 port 1234, dst 1.3.5.7 port 5678) and of the constants the program itself compares with (ethertypes,
		// protocol numbers, the fragment mask, header offsets): a generator that patches a template by VALUE confuses them
		{src: [4]byte{2, 4, 6, 8}, dst: [4]byte{1, 3, 5, 7}, sport: 1234, dport: 5678},
		{src: [4]byte{1, 3, 5, 7}, dst: [4]byte{2, 4, 6, 8}, sport: 5678, dport: 1234},
		{src: [4]byte{10, 204, 0, 9}, dst: [4]byte{10, 203, 0, 2}, sport: 5678, dport: 40000},
		{src: [4]byte{10, 204, 0, 9}, dst: [4]byte{10, 203, 0, 2}, sport: 443, dport: 1234},
		{src: [4]byte{1, 3, 5, 7}, dst: [4]byte{10, 203, 0, 2}, sport: 443, dport: 40000},
		{src: [4]byte{10, 204, 0, 9}, dst: [4]byte{2, 4, 6, 8}, sport: 1234, dport: 1234},
		{src: [4]byte{0, 0, 8, 0}, dst: [4]byte{0, 0, 0x1f, 0xff}, sport: 0x0800, dport: 0x1fff},
		{src: [4]byte{0, 0, 0, 6}, dst: [4]byte{0, 0, 0, 1}, sport: 6, dport: 0x86dd},
		{src: [4]byte{0, 0, 0, 14}, dst: [4]byte{0, 0, 0, 20}, sport: 14, dport: 16},
	}
	for len(cfgs) < n {
		var c tupleCfg
		for i := 0; i < 4; i++ {
			c.src[i] = bytesv[r.Intn(5)]
			c.dst[i] = bytesv[r.Intn(5)]
		}
		if r.Intn(3) == 0 {
			r.Read(c.src[:])
			r.Read(c.dst[:])
		}
		c.sport = uint16(bytesv[r.Intn(5)])<<8 | uint16(bytesv[r.Intn(5)])
		c.dport = uint16(bytesv[r.Intn(5)])<<8 | uint16(bytesv[r.Intn(5)])
		if c.src == c.dst && c.sport == c.dport {
			continue
		}
		cfgs = append(cfgs, c)
	}
	return cfgs[:n]
}

func runC12Program(c *fw.Ctx, id, name string, spec packets.PacketFilterSpec, ref func([]byte) bool, enum func(emit func([]byte, string)), kernel bool) {
	raw, err := packets.VerifClassicBPFFilter(spec)
	if err != nil {
		c.Violate("C12", "no-program/"+name, fmt.Sprintf("%s: %v", id, err), nil)
		return
	}
	if name == "drop-all" {
		raw = packets.VerifDropAllFilter()
	}
	ev, err := newEvaluator(raw, kernel)
	if err != nil {
		c.Inconclusive(fmt.Sprintf("%s: %v", id, err))
		return
	}
	defer ev.close()
	frames, accepted := 0, 0
	reported := 0
	enum(func(f []byte, desc string) {
		frames++
		want := ref(f)
		got := ev.evalVM(f)
		if want {
			accepted++
		}
		if got != want && reported < 3 {
			reported++
			sig := "filter-rejects-wanted"
			if got {
				sig = "filter-accepts-unwanted"
			}
			c.Violate("C12", sig+"/"+name, fmt.Sprintf("%s: program verdict %v, reference predicate %v for frame class %s", id, got, want, desc), map[string]any{"frame": fmt.Sprintf("%x", f), "spec": fmt.Sprintf("%+v", spec)})
		}
		if kernel {
			kv, err := ev.evalKernel(f)
			if err != nil {
				if reported < 3 {
					reported++
					c.Inconclusive(fmt.Sprintf("%s: kernel evaluation failed: %v", id, err))
				}
			} else if kv != want && len(f) > 0 && reported < 3 {
				reported++
				c.Violate("C12", "kernel-verdict-differs/"+name, fmt.Sprintf("%s: kernel cBPF verdict %v, reference predicate %v for frame class %s", id, kv, want, desc), map[string]any{"frame": fmt.Sprintf("%x", f)})
			}
		}
	})
	c.Count("frames_"+name, frames)
	c.Count("frames_accepted_by_reference", accepted)
	c.Count("vm_evaluations", ev.nVM)
	c.Count("kernel_evaluations", ev.nK)
	if frames > 0 && (accepted > 0 || name == "drop-all") {
		c.Nontrivial(fmt.Sprintf("program/%s/%s/kernel%v", name, id, kernel))
	}
	c.Sample(map[string]any{"program": id, "frames": frames, "accepted_by_reference": accepted, "kernel": kernel, "instructions": len(raw)})
}

func checkC12() fw.Check {
	return fw.Check{
		Prop:  "C12",
		Level: "exploration",
		Rule: "(b) every emitted program (TCP-tuple filter for generated address/port configurations incl. sign/endianness byte patterns, the static SYN-ACK, ICMP and drop-all programs, fetched through the verif hook that returns exactly what SetPacketFilter installs) is evaluated on the finite product of the equivalence classes of every field it loads (ethertype x protocol/next header x IHL 0..15 x fragment word x each address/port byte equal/different x all 256 TCP flag bytes x frame lengths around every load offset) in the x/net/bpf VM and - for the full-product programs - by the running kernel (SO_ATTACH_FILTER on an AF_UNIX datagram socketpair), and compared with a reference predicate written from the statement; (a) simulated runs of every variant are executed with the real programs enforced in front of the capture handle (result must equal the unfiltered twin) and in shadow mode (no frame the matcher turned into a hop or handshake may have a reject verdict). " +
			"distinct_nontrivial counts programs x evaluation mode with at least one reference-accepted frame, plus (variant, form) twin pairs compared",
		Workers:       16,
		MinNontrivial: 20,
		Exhaustive:    true,
		Assumptions:   []string{"'unfragmented' = fragment offset 0 (an MF-only first fragment still carries the TCP header; MF-only frames are outside the verdict)", "a load beyond the end of the frame rejects (cBPF semantics)", "Linux build; kernel verdicts come from the sandbox's running kernel"},
		Gen: func(tier string, seed int64) []fw.Case {
			var cases []fw.Case
			r := rand.New(rand.NewSource(seed))
			nCfg, every := 60, 8
			fullKernel := 4
			if tier == "thorough" {
				nCfg, every, fullKernel = 500, 1, 500
			}
			for i, cfg := range tupleConfigs(r, nCfg) {
				i, cfg := i, cfg
				spec := packets.PacketFilterSpec{FilterType: packets.FilterTypeTCP, FilterConfig: packets.FilterConfig{
					Src: netip.AddrPortFrom(netip.AddrFrom4(cfg.src), cfg.sport), Dst: netip.AddrPortFrom(netip.AddrFrom4(cfg.dst), cfg.dport)}}
				full := i < fullKernel
				ev := every
				if full {
					ev = 1
				}
				cases = append(cases, fw.Case{ID: fmt.Sprintf("C12/tuple/%d", i), Run: func(c *fw.Ctx) {
					runC12Program(c, fmt.Sprintf("tuple %v:%d->%v:%d", cfg.src, cfg.sport, cfg.dst, cfg.dport), "tuple", spec,
						func(f []byte) bool { return refTuple(cfg, f) }, func(emit func([]byte, string)) { enumTuple(cfg, ev, emit) }, full)
				}})
			}
			cases = append(cases, fw.Case{ID: "C12/synack", Run: func(c *fw.Ctx) {
				runC12Program(c, "synack", "synack", packets.PacketFilterSpec{FilterType: packets.FilterTypeSYNACK}, refSynAck, func(emit func([]byte, string)) { enumSynAck(1, emit) }, true)
			}})
			// the spec the SACK runner really passes: FilterTypeSYNACK with the target as source. The documented meaning of
			// the type does not depend on it: every unfragmented IPv4 TCP segment with SYN and ACK set, from whomever
			cases = append(cases, fw.Case{ID: "C12/synack-with-source", Run: func(c *fw.Ctx) {
				spec := packets.PacketFilterSpec{FilterType: packets.FilterTypeSYNACK, FilterConfig: packets.FilterConfig{Src: netip.MustParseAddrPort("198.51.100.7:443")}}
				runC12Program(c, "synack (source given)", "synack", spec, refSynAck, func(emit func([]byte, string)) { enumSynAck(3, emit) }, true)
			}})
			cases = append(cases, fw.Case{ID: "C12/icmp", Run: func(c *fw.Ctx) {
				runC12Program(c, "icmp", "icmp", packets.PacketFilterSpec{FilterType: packets.FilterTypeICMP}, refICMP, enumICMP, true)
			}})
			cases = append(cases, fw.Case{ID: "C12/drop-all", Run: func(c *fw.Ctx) {
				runC12Program(c, "drop-all", "drop-all", packets.PacketFilterSpec{FilterType: packets.FilterTypeICMP}, func([]byte) bool { return false }, enumICMP, true)
			}})
			// (d) generation under concurrency: the runs of one request install their tuple filters at the same time
			cases = append(cases, fw.Case{ID: "C12/concurrent-generation", Run: func(c *fw.Ctx) { runC12ConcurrentGen(c, c.ID, c.Rng) }})
			// (c) the real AF_PACKET source: sequences of filter installations with frames in flight
			nLive := 6
			if tier == "thorough" {
				nLive = 120
			}
			for i := 0; i < nLive; i++ {
				cases = append(cases, fw.Case{ID: fmt.Sprintf("C12/live-swap/%d", i), Run: func(c *fw.Ctx) { runC12LiveSwap(c, c.ID, c.Rng) }})
			}
			// (a) end to end
			for _, v := range refmatch.Variants {
				for _, fm := range catalogue() {
					if !fm.applies(v) {
						continue
					}
					v, fm := v, fm
					id := fmt.Sprintf("C12/e2e/%s/%s", v.Name, fm.name)
					cases = append(cases, fw.Case{ID: id, Bubble: true, Run: func(c *fw.Ctx) { runC12E2E(c, id, v, fm) }})
				}
			}
			// a target whose probed UDP port is open: it answers the probe datagram with a datagram of its own and sends no
			// ICMP error. Whatever the matcher makes of that answer, the filter the UDP run installs must let it see the same
			for _, vn := range []string{"udp4", "udp6"} {
				v := refmatch.VariantByName(vn)
				fm := form{name: "udp-answer-from-open-port", applies: anyV, dest: func(e *simEnv, p *refmatch.Probe) []byte {
					d := wirefmt.UDP(e.spec.Target, e.local, e.spec.Port, e.lport, []byte("pong"))
					if v.V6 {
						return wirefmt.IPv6{NextHeader: wirefmt.ProtoUDP, HopLimit: 60, Src: e.spec.Target, Dst: e.local}.Marshal(d)
					}
					return wirefmt.IPv4{TTL: 60, Proto: wirefmt.ProtoUDP, Src: e.spec.Target, Dst: e.local}.Marshal(d)
				}}
				id := fmt.Sprintf("C12/e2e/%s/%s", v.Name, fm.name)
				cases = append(cases, fw.Case{ID: id, Bubble: true, Run: func(c *fw.Ctx) { runC12E2E(c, id, v, fm) }})
			}
			// the filter each run installs vs the probes that run really sends, when one protocol object is used for several runs
			cases = append(cases, objectReuseCases("C12")...)
			return cases
		},
	}
}

func runC12E2E(c *fw.Ctx, id string, v refmatch.Variant, fm form) {
	w := window{1, 8}
	var keys [3]string
	for mi, mode := range []simnet.FilterMode{simnet.FilterOff, simnet.FilterEnforce, simnet.FilterShadow} {
		seedv := int64(fw.Hash32(id))
		sc := scenario{tag: fmt.Sprintf("%s mode=%d", id, mode), v: v, win: w, b: basesQuick[0], mode: mode,
			model: func(e *simEnv) *pathModel {
				return pathFor(e, fm, 1, w, 5, rand.New(rand.NewSource(seedv)), true)
			}}
		out := runScenario(c, sc)
		if out == nil {
			return
		}
		keys[mi] = hopsKey(out.res)
		if mode == simnet.FilterShadow {
			for i := range out.js {
				j := &out.js[i]
				if j.out.Kind == refmatch.Accept && j.d.FilterKnown && j.d.Filtered {
					c.Violate("C12", fmt.Sprintf("filter-hides-reply/%s/%s", v.Name, j.d.Frame.Class), fmt.Sprintf("%s: frame #%d (%s) is a reply the matcher uses for TTL %d but the installed filter (type %d) rejects it", id, j.d.Frame.ID, j.d.Frame.Class, j.out.TTL, j.d.FilterType),
						map[string]any{"frame": fmt.Sprintf("%x", j.d.Frame.Bytes)})
				}
				if j.d.FilterKnown {
					c.Count("shadow_verdicts", 1)
				}
			}
			// the handshake SYN-ACK of a SACK run
			if out.e.peer != nil {
				out.e.w.Lock()
				for _, d := range out.e.w.Deliveries {
					if d.Frame.Class == "handshake" && d.FilterKnown && d.Filtered {
						c.Violate("C12", "filter-hides-handshake/"+v.Name, fmt.Sprintf("%s: the SYN-ACK of the handshake is rejected by the installed filter (type %d)", id, d.FilterType), nil)
					}
				}
				out.e.w.Unlock()
			}
		}
		out.e.close()
	}
	if keys[0] != keys[1] {
		c.Violate("C12", "filtering-changes-result/"+v.Name+"/"+fm.name, fmt.Sprintf("%s: result with the filter enforced differs from the unfiltered twin", id), map[string]any{"unfiltered": keys[0], "filtered": keys[1]})
	} else {
		c.Nontrivial("e2e/" + v.Name + "/" + fm.name)
	}
	c.Count("e2e_twin_pairs", 1)
}

var c12LiveMu sync.Mutex // one live AF_PACKET experiment at a time (they all see each other's frames on lo)

// runC12LiveSwap drives packets.NewAFPacketSource() (the socket the Linux build really reads from) through a
// sequence of SetPacketFilter calls while tagged frames are injected on `lo` through a second AF_PACKET socket:
// whatever the source returns after an installation must satisfy the reference predicate of the filter now in
// force (frames queued under the previous filter included - SetPacketFilter promises that), and every frame
// injected after the last installation that satisfies it must be returned.
func runC12LiveSwap(c *fw.Ctx, id string, r *rand.Rand) {
	c12LiveMu.Lock()
	defer c12LiveMu.Unlock()
	lo, err := net.InterfaceByName("lo")
	if err != nil {
		c.Inconclusive(id + ": no lo interface: " + err.Error())
		return
	}
	src, err := packets.NewAFPacketSource()
	if err != nil {
		c.Inconclusive(id + ": AF_PACKET source: " + err.Error())
		return
	}
	defer src.Close()
	inj, err := unix.Socket(unix.AF_PACKET, unix.SOCK_RAW, 0)
	if err != nil {
		c.Inconclusive(id + ": AF_PACKET injector: " + err.Error())
		return
	}
	defer unix.Close(inj)
	cfg := tupleCfg{src: [4]byte{198, 51, 100, byte(1 + r.Intn(200))}, dst: [4]byte{203, 0, 113, byte(1 + r.Intn(200))}, sport: uint16(1024 + r.Intn(60000)), dport: uint16(1024 + r.Intn(60000))}
	if r.Intn(2) == 0 {
		// the tuple's local side is an address this host owns on ANOTHER interface (the veth of the private namespace
		// pair) while the frames arrive on lo - replies to a host's own address, VIPs on lo and asymmetric return paths
		// look like this. What the capture accepts is decided by the tuple, not by the interface.
		cfg.dst = [4]byte{10, 203, 0, 2}
	}
	type fl struct {
		name string
		spec packets.PacketFilterSpec
		ref  func([]byte) bool
	}
	filters := []fl{
		{"synack", packets.PacketFilterSpec{FilterType: packets.FilterTypeSYNACK}, refSynAck},
		{"tuple", packets.PacketFilterSpec{FilterType: packets.FilterTypeTCP, FilterConfig: packets.FilterConfig{
			Src: netip.AddrPortFrom(netip.AddrFrom4(cfg.src), cfg.sport), Dst: netip.AddrPortFrom(netip.AddrFrom4(cfg.dst), cfg.dport)}}, func(f []byte) bool { return refTuple(cfg, f) }},
		{"icmp", packets.PacketFilterSpec{FilterType: packets.FilterTypeICMP}, refICMP},
	}
	tag := uint16(r.Intn(30000))
	injected := map[uint16][]byte{}
	send := func(f []byte) {
		tag++
		f = append([]byte(nil), f...)
		et := binary.BigEndian.Uint16(f[12:])
		if et == 0x0800 {
			binary.BigEndian.PutUint16(f[18:], tag)
		} else {
			binary.BigEndian.PutUint16(f[16:], tag)
		}
		injected[tag] = f
		sa := &unix.SockaddrLinklayer{Ifindex: lo.Index, Protocol: uint16(et<<8 | et>>8)}
		if err := unix.Sendto(inj, f, 0, sa); err != nil {
			c.Count("live_inject_errors", 1)
		}
	}
	batch := func() {
		foreign := [4]byte{192, 0, 2, byte(1 + r.Intn(200))}
		send(buildV4(0x0800, 6, 5, 0, cfg.src, cfg.dst, cfg.sport, cfg.dport, 0x12, -1))   // the tuple's SYN-ACK
		send(buildV4(0x0800, 6, 5, 0, foreign, cfg.dst, cfg.sport, cfg.dport, 0x12, -1))   // foreign SYN-ACK
		send(buildV4(0x0800, 6, 5, 0, cfg.src, cfg.dst, cfg.sport, cfg.dport, 0x10, -1))   // the tuple's ACK
		send(buildV4(0x0800, 6, 5, 0, cfg.src, cfg.dst, cfg.sport+1, cfg.dport, 0x12, -1)) // other port, SYN-ACK
		send(buildV4(0x0800, 6, 5, 0, foreign, cfg.dst, 80, 40000, 0x10, -1))              // unrelated TCP
		send(buildV4(0x0800, 1, 5, 0, foreign, cfg.dst, 0x0b00, 0, 0, -1))                 // ICMPv4
		send(buildV4(0x0800, 17, 5, 0, foreign, cfg.dst, 53, 40000, 0, -1))                // UDP
		send(buildV6(58, 0, -1))                                                           // ICMPv6
		send(buildV6(17, 0, -1))                                                           // UDP over IPv6
		send(buildV4(0x0800, 6, 7, 0, cfg.src, cfg.dst, cfg.sport, cfg.dport, 0x12, -1))   // the tuple's SYN-ACK behind IP options
		// short frames as loopback / veth / virtual NICs deliver them (no padding to the 60-byte Ethernet minimum): the
		// tuple's RST|ACK (54 bytes) and an echo reply to a one-byte echo request (43 bytes)
		send(buildV4(0x0800, 6, 5, 0, cfg.src, cfg.dst, cfg.sport, cfg.dport, 0x14, 54))
		send(buildV4(0x0800, 1, 5, 0, foreign, cfg.dst, 0, 0, 0, 43))
		// long frames: an ICMPv6 error quoting a whole probe (14+40+8+40+8 = 110 bytes and more), an ICMPv4 error with a
		// long quote: what the filter accepts is delivered WHOLE
		long6 := append(buildV6(58, 0, -1), bytes.Repeat([]byte{0x5c}, 90)...)
		send(long6)
		long4 := append(buildV4(0x0800, 1, 5, 0, foreign, cfg.dst, 0x0b00, 0, 0, -1), bytes.Repeat([]byte{0x3a}, 200)...)
		send(long4)
	}
	steps := 3 + r.Intn(3)
	var cur fl
	seq := ""
	for st := 0; st < steps; st++ {
		nf := filters[r.Intn(len(filters))]
		if st > 0 && nf.name == cur.name {
			nf = filters[(r.Intn(2)+1+indexOfFilter(cur.name))%len(filters)]
		}
		if err := src.SetPacketFilter(nf.spec); err != nil {
			if st == 0 {
				// the very first attach on a fresh socket is refused: the environment (privileges), not the tool
				c.Inconclusive(fmt.Sprintf("%s: SetPacketFilter(%s): %v", id, nf.name, err))
				return
			}
			// the kernel took the first program from this very socket; a later one is refused only if the capture source
			// did something to the socket in between (SO_LOCK_FILTER, a closed descriptor): the SACK run swaps its filter
			c.Violate("C12", "live-swap-refused/"+nf.name, fmt.Sprintf("%s: after %s the capture source refuses to install the %s filter: %v", id, seq, nf.name, err), nil)
			return
		}
		cur = nf
		seq += nf.name + ">"
		firstTagOfBatch := tag + 1
		batch()
		time.Sleep(3 * time.Millisecond) // let the loopback deliver both copies of every frame
		if st < steps-1 && r.Intn(3) != 0 {
			continue // swap again without reading: the frames just injected stay queued under the old filter
		}
		// read everything that is available
		got := map[uint16]int{}
		buf := make([]byte, 2048)
		for {
			src.SetReadDeadline(time.Now().Add(25 * time.Millisecond))
			n, err := src.Read(buf)
			if err != nil {
				break
			}
			p := buf[:n]
			if n < 20 {
				continue
			}
			var eth []byte
			var tg uint16
			if p[0]>>4 == 4 {
				eth = append([]byte{0, 0, 0, 0, 0, 0, 0, 0, 0, 0, 0, 0, 0x08, 0x00}, p...)
				tg = binary.BigEndian.Uint16(p[4:])
			} else {
				eth = append([]byte{0, 0, 0, 0, 0, 0, 0, 0, 0, 0, 0, 0, 0x86, 0xdd}, p...)
				tg = binary.BigEndian.Uint16(p[2:])
			}
			c.Count("live_frames_read", 1)
			if !cur.ref(eth) {
				which := "foreign traffic"
				if _, ok := injected[tg]; ok {
					which = fmt.Sprintf("injected frame %d (current batch starts at %d)", tg, firstTagOfBatch)
				}
				c.Violate("C12", "live-accepts-unwanted/"+cur.name, fmt.Sprintf("%s: after installing %s (sequence %s) the AF_PACKET source returned a frame its filter must reject: %s, % x", id, cur.name, seq, which, p[:min(n, 40)]), nil)
				return
			}
			if inj, ok := injected[tg]; ok {
				got[tg]++
				// accepting a frame means delivering it: all of it, unchanged (the filter's return value is also the number
				// of bytes the kernel keeps)
				if len(inj) > 14 && !bytes.Equal(p, inj[14:]) {
					c.Violate("C12", "live-frame-altered/"+cur.name, fmt.Sprintf("%s: frame %d was injected with %d bytes behind the Ethernet header, the AF_PACKET source (filter %s) returned %d bytes (equal prefix: %v)", id, tg, len(inj)-14, cur.name, n, bytes.HasPrefix(inj[14:], p)), nil)
					return
				}
			}
		}
		for tg := firstTagOfBatch; tg <= tag; tg++ {
			if cur.ref(injected[tg]) && got[tg] == 0 {
				c.Violate("C12", "live-rejects-wanted/"+cur.name, fmt.Sprintf("%s: frame %d injected after installing %s (sequence %s) satisfies the filter but was never returned", id, tg, cur.name, seq), nil)
				return
			}
		}
	}
	c.Count("live_sequences", 1)
	c.Nontrivial("live-swap/" + seq)
}

func indexOfFilter(name string) int {
	switch name {
	case "synack":
		return 0
	case "tuple":
		return 1
	}
	return 2
}

// runC12ConcurrentGen: 8 goroutines generate the programs of 8 different tuples over and over at the same time; every
// program must equal the one generated for that tuple when nothing else was running.
func runC12ConcurrentGen(c *fw.Ctx, id string, r *rand.Rand) {
	cfgs := tupleConfigs(r, 8)
	specOf := func(cfg tupleCfg) packets.PacketFilterSpec {
		return packets.PacketFilterSpec{FilterType: packets.FilterTypeTCP, FilterConfig: packets.FilterConfig{
			Src: netip.AddrPortFrom(netip.AddrFrom4(cfg.src), cfg.sport), Dst: netip.AddrPortFrom(netip.AddrFrom4(cfg.dst), cfg.dport)}}
	}
	var want [][]bpf.RawInstruction
	for _, cfg := range cfgs {
		p, err := packets.VerifClassicBPFFilter(specOf(cfg))
		if err != nil {
			c.Inconclusive(id + ": " + err.Error())
			return
		}
		want = append(want, append([]bpf.RawInstruction(nil), p...))
	}
	var wg sync.WaitGroup
	var bad atomic.Int64
	var firstBad atomic.Value
	gate := make(chan struct{})
	const per = 4000
	for g := range cfgs {
		wg.Add(1)
		go func(g int) {
			defer wg.Done()
			<-gate
			for i := 0; i < per; i++ {
				p, err := packets.VerifClassicBPFFilter(specOf(cfgs[g]))
				same := err == nil && len(p) == len(want[g])
				for k := 0; same && k < len(p); k++ {
					same = p[k] == want[g][k]
				}
				if !same && bad.Add(1) == 1 {
					firstBad.Store(fmt.Sprintf("goroutine %d iteration %d (tuple %v:%d->%v:%d)", g, i, cfgs[g].src, cfgs[g].sport, cfgs[g].dst, cfgs[g].dport))
				}
			}
		}(g)
	}
	close(gate)
	wg.Wait()
	c.Count("concurrent_generations", per*len(cfgs))
	c.Nontrivial("concurrent-generation")
	if n := bad.Load(); n > 0 {
		c.Violate("C12", "generation-not-reentrant/tuple", fmt.Sprintf("%s: %d of %d programs generated while other tuples were being generated differ from the program of their own tuple; first: %v", id, n, per*len(cfgs), firstBad.Load()), nil)
	}
}
