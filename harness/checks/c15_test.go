package checks

import (
	"context"
	"encoding/json"
	"errors"
	"fmt"
	"math"
	"net"
	"net/http"
	"net/http/httptest"
	"net/netip"
	"net/url"
	"os"
	"runtime"
	"sort"
	"strings"
	"sync"
	"syscall"
	"time"

	"github.com/DataDog/datadog-traceroute/publicip"
	"github.com/DataDog/datadog-traceroute/result"
	"github.com/DataDog/datadog-traceroute/server"
	"github.com/DataDog/datadog-traceroute/traceroute"

	"verif/harness/drive"
	"verif/harness/fw"
	"verif/harness/gen"
	"verif/harness/refmatch"
	"verif/harness/simnet"
)

func init() { register("C15", checkC15) }

type c15Req struct {
	proto    string
	q, e     int
	failRuns []int // ordinals of failing traceroute runs (order of appearance on the wire)
	failE2e  []int // ordinals of failing end-to-end probes
	fetcher  string
	rdns     bool
	// rdnsDead: the resolver fails every lookup of the request (no PTR records, resolver down)
	rdnsDead  bool
	delayPerm int
	reach     bool
	// slowDest > 0: the destination answers this late (longer than the spacing of the end-to-end probes)
	slowDest time.Duration
	// firewall > 0: the router at this TTL rejects UDP probes with destination-unreachable and the destination is silent
	firewall int
	// cancelAt >= 0: the caller's context is cancelled this long after the request started (0 = already cancelled)
	cancelAt time.Duration
}

func (r c15Req) String() string {
	return fmt.Sprintf("%s q=%d e=%d failRuns=%v failE2e=%v fetcher=%s rdns=%v/dead=%v perm=%d reach=%v cancelAt=%v", r.proto, r.q, r.e, r.failRuns, r.failE2e, r.fetcher, r.rdns, r.rdnsDead, r.delayPerm, r.reach, r.cancelAt)
}

func subsets(n int) [][]int {
	var out [][]int
	for m := 0; m < 1<<uint(n); m++ {
		var s []int
		for i := 0; i < n; i++ {
			if m&(1<<uint(i)) != 0 {
				s = append(s, i)
			}
		}
		out = append(out, s)
	}
	return out
}

func contains(s []int, x int) bool {
	for _, v := range s {
		if v == x {
			return true
		}
	}
	return false
}

func checkC15() fw.Check {
	return fw.Check{
		Prop:  "C15",
		Level: "exploration",
		Rule: "one case = one RunTraceroute request (protocol, q traceroute runs, e end-to-end probes, subset of failing runs/probes injected per capture handle by role, public-IP fetcher ok/error/slow, reverse DNS on/off, completion order forced by per-flow virtual delays) over one shared simulated wire in a bubble under the race detector; oracle: success iff no participant failed, then exactly q runs and e RTT samples, each sample = the destination-hop RTT of its own probe (0 when unanswered); on failure no result and an error tree exposing every injected per-flow sentinel via errors.Is; a failing fetcher never fails the request. " +
			"distinct_nontrivial counts distinct (protocol, q, e, #failing runs, #failing probes, fetcher, rdns) tuples executed",
		Workers:       1,
		MinNontrivial: 60,
		Assumptions:   []string{"failures are injected at the capture/send handle of the chosen run/probe (every later handle operation fails with a unique sentinel)", "Linux build"},
		Gen: func(tier string, seed int64) []fw.Case {
			var reqs []c15Req
			protos := []string{"udp", "icmp", "tcp"}
			maxQ, maxE := 3, 3
			if tier == "thorough" {
				maxQ, maxE = 4, 5
			}
			n := 0
			for _, proto := range protos {
				for q := 0; q <= maxQ; q++ {
					for e := 0; e <= maxE; e++ {
						if q+e == 0 {
							continue
						}
						for _, fr := range subsets(q) {
							for _, fe := range subsets(e) {
								n++
								full := tier == "thorough" || len(fr)+len(fe) <= 1 || (n+int(seed))%5 == 0
								if !full {
									continue
								}
								if tier == "thorough" && q+e > 6 && (n+int(seed))%4 != 0 {
									continue
								}
								reqs = append(reqs, c15Req{proto: proto, q: q, e: e, failRuns: fr, failE2e: fe,
									fetcher: []string{"ok", "error", "slow", "none"}[n%4], rdns: n%3 == 0, rdnsDead: n%6 == 0, delayPerm: n % 6, reach: n%7 != 0, cancelAt: -1})
								if len(fr)+len(fe) == 0 {
									// caller cancels its context: before the request, between the end-to-end launches, late
									for _, ca := range []time.Duration{0, 150 * time.Millisecond, 1100 * time.Millisecond, 2500 * time.Millisecond} {
										reqs = append(reqs, c15Req{proto: proto, q: q, e: e, fetcher: "ok", delayPerm: n % 6, reach: true, cancelAt: ca})
									}
									// the all-succeed request in more completion orders / fetcher behaviours
									for x := 1; x <= 5; x++ {
										reqs = append(reqs, c15Req{proto: proto, q: q, e: e, fetcher: []string{"ok", "error", "slow", "none"}[(n+x)%4],
											rdns: (n+x)%2 == 0 || x == 2, rdnsDead: x == 2, delayPerm: (n + x) % 6, reach: x != 3, cancelAt: -1})
									}
								}
							}
						}
					}
				}
			}
			for _, proto := range []string{"udp", "tcp"} {
				for _, ca := range []time.Duration{150 * time.Millisecond, 1100 * time.Millisecond, 2500 * time.Millisecond} {
					// some participants fail on their own AND the caller cancels: the individual failures must still be exposed
					reqs = append(reqs, c15Req{proto: proto, q: 2, e: 2, failRuns: []int{0}, failE2e: []int{0}, fetcher: "ok", reach: true, cancelAt: ca})
					reqs = append(reqs, c15Req{proto: proto, q: 3, e: 1, failRuns: []int{1, 2}, fetcher: "none", reach: false, cancelAt: ca})
				}
			}
			// many participants, all or most of them failing: every single failure is exposed, however many there are
			seq := func(n int) []int {
				var l []int
				for i := 0; i < n; i++ {
					l = append(l, i)
				}
				return l
			}
			for _, proto := range []string{"udp", "tcp"} {
				reqs = append(reqs, c15Req{proto: proto, q: 8, e: 14, failRuns: seq(8), failE2e: seq(14), fetcher: "ok", reach: true, cancelAt: -1})
				reqs = append(reqs, c15Req{proto: proto, q: 20, e: 0, failRuns: seq(19), fetcher: "none", reach: true, cancelAt: -1})
			}
			// far more end-to-end probes than fit into the probing budget one after the other: the launches are 15 ms apart
			// and every probe listens for its whole timeout, so about forty of them (plus the runs) are in flight at any time
			reqs = append(reqs, c15Req{proto: "udp", q: 3, e: 200, fetcher: "ok", reach: true, cancelAt: -1})
			reqs = append(reqs, c15Req{proto: "icmp", q: 2, e: 180, fetcher: "none", reach: seed%2 == 0, cancelAt: -1})
			if tier == "thorough" {
				reqs = append(reqs, c15Req{proto: "tcp", q: 3, e: 200, fetcher: "slow", reach: false, cancelAt: -1})
				reqs = append(reqs, c15Req{proto: "udp", q: 1, e: 240, failE2e: []int{7, 150}, fetcher: "ok", reach: true, cancelAt: -1})
			}
			var cases []fw.Case
			// real clock: a request in which end-to-end probes (and runs) fail must RETURN. If the aggregation blocks -
			// e.g. a failing participant waits for a lock it already holds - the virtual clock cannot show it (the bubble
			// stalls and the case watchdog ends the run as inconclusive); on the real clock the request, which needs
			// about 0.3 s, is given 20 s.
			for _, sh := range [][3]int{{0, 2, 1}, {2, 3, 2}, {1, 1, 1}} {
				sh := sh
				id := fmt.Sprintf("C15/realtime-failing/q%d-e%d-fail%d", sh[0], sh[1], sh[2])
				cases = append(cases, fw.Case{ID: id, Run: func(c *fw.Ctx) { runC15RealtimeFailing(c, id, sh[0], sh[1], sh[2]) }})
			}
			// "unanswered probes as 0": an end-to-end probe that only drew a time-exceeded from the target's own address is
			// unanswered (shared with C04 / C05)
			for _, proto := range []string{"icmp", "tcp"} {
				proto := proto
				id := "C15/e2e-te-from-target/" + proto
				cases = append(cases, fw.Case{ID: id, Bubble: true, Run: func(c *fw.Ctx) { runC04E2eTEFromTarget(c, id, proto) }})
			}
			cases = append(cases, fw.Case{ID: "C15/realtime-publicip-failure", Run: func(c *fw.Ctx) { runC15RealtimePublicIPFailure(c, c.ID) }})
			for i, rq := range reqs {
				rq := rq
				id := fmt.Sprintf("C15/%d/%s/q%d-e%d-f%d-%d", i, rq.proto, rq.q, rq.e, len(rq.failRuns), len(rq.failE2e))
				cases = append(cases, fw.Case{ID: id, Bubble: true, Run: func(c *fw.Ctx) { runC15Case(c, id, rq) }})
			}
			// public-IP failure while the caller's context ends (the udp and tcp runs never look at the context)
			for _, proto := range []string{"udp", "tcp", "icmp"} {
				for _, ca := range []time.Duration{0, 150 * time.Millisecond, 900 * time.Millisecond, 2500 * time.Millisecond} {
					proto, ca := proto, ca
					id := fmt.Sprintf("C15/fetcher-twin/%s/cancel%v", proto, ca)
					rq := c15Req{proto: proto, q: 2, e: 2, reach: true, cancelAt: ca}
					cases = append(cases, fw.Case{ID: id, Bubble: true, Run: func(c *fw.Ctx) { runC15FetcherTwin(c, id, rq) }})
				}
			}
			// through the HTTP handler: explicit counts, including an explicit 0 of either kind, are the numbers of path
			// runs and end-to-end probes that go on the wire and come back in the document
			for _, proto := range []string{"udp", "icmp"} {
				for _, qe := range [][2]int{{0, 2}, {2, 0}, {1, 1}, {3, 2}, {0, 1}, {1, 0}} {
					proto, qe := proto, qe
					cases = append(cases, fw.Case{ID: fmt.Sprintf("C15/http/%s/q%d-e%d", proto, qe[0], qe[1]), Bubble: true, Run: func(c *fw.Ctx) { runC15HTTP(c, c.ID, proto, qe[0], qe[1]) }})
					cases = append(cases, fw.Case{ID: fmt.Sprintf("C15/http-failing/%s/q%d-e%d", proto, qe[0], qe[1]), Bubble: true, Run: func(c *fw.Ctx) { runC15HTTPFail(c, c.ID, proto, qe[0], qe[1], true) }})
					cases = append(cases, fw.Case{ID: fmt.Sprintf("C15/http-unresolvable/%s/q%d-e%d", proto, qe[0], qe[1]), Run: func(c *fw.Ctx) { runC15HTTPUnresolvable(c, c.ID, proto, qe[0], qe[1]) }})
				}
			}
			return cases
		},
	}
}

// flowSentinel: one value per failing participant (errors.Is compares identity). In half of the requests all of them
// read the same - the common real case, every probe hitting "network is unreachable" - so that an aggregation which
// keys failures by their text loses some.
type flowSentinel struct {
	k    int
	same bool
}

func (f *flowSentinel) Error() string {
	if f.same {
		return "verif-injected failure: network is unreachable"
	}
	return fmt.Sprintf("verif-injected failure of flow %d", f.k)
}

func runC15Case(c *fw.Ctx, id string, rq c15Req) { runC15CaseR(c, id, rq) }

// runC15FetcherTwin: the same request - caller cancellation included - once with a public-IP fetcher that answers and
// once with one that fails. Whatever the request does under cancellation, the fetcher's failure must not be what
// decides it: both must succeed or both must fail.
func runC15FetcherTwin(c *fw.Ctx, id string, rq c15Req) {
	rq.fetcher = "ok"
	ran1, err1 := runC15CaseR(c, id+"/fetcher-ok", rq)
	rq.fetcher = "error"
	ran2, err2 := runC15CaseR(c, id+"/fetcher-error", rq)
	if !ran1 || !ran2 {
		return
	}
	c.Count("fetcher_twins", 1)
	if (err1 == nil) != (err2 == nil) {
		c.Violate("C15", "spurious-failure/fetcher-error-under-cancel", fmt.Sprintf("%s [%s]: with a working public-IP fetcher the request returned err=%v, with a failing one err=%v: the public-IP failure decided the outcome", id, rq.String(), err1, err2), nil)
	}
}

func runC15CaseR(c *fw.Ctx, id string, rq c15Req) (ran bool, rerrOut error) {
	resetProcessState()
	v := map[string]refmatch.Variant{"udp": refmatch.VariantByName("udp4"), "icmp": refmatch.VariantByName("icmp4"), "tcp": refmatch.VariantByName("syn")}[rq.proto]
	target := drive.TargetFor(v, c.Worker)
	maxTTL := 5
	params := traceroute.TracerouteParams{Hostname: target.String(), Port: 33434, Protocol: rq.proto, MinTTL: 1, MaxTTL: maxTTL, Delay: 20,
		Timeout: 600 * time.Millisecond, TCPMethod: traceroute.TCPConfigSYN, TracerouteQueries: rq.q, E2eQueries: rq.e,
		ReverseDns: rq.rdns, CollectSourcePublicIP: rq.fetcher != "none"}
	env, err := newReqEnv(c, params, target, 33434, false)
	if err != nil {
		c.Inconclusive(err.Error())
		return
	}
	defer env.close()
	switch rq.fetcher {
	case "ok", "none":
		env.fetcher = &scriptedFetcher{ip: net.ParseIP("192.0.2.77")}
	case "error":
		env.fetcher = &scriptedFetcher{err: errors.New("no public ip today")}
	case "slow":
		env.fetcher = &scriptedFetcher{ip: net.ParseIP("192.0.2.77"), delay: 7 * time.Second}
	}
	var res *rdnsScript
	if rq.rdns {
		res = installResolver(func(addr string) ([]string, error, time.Duration) {
			if rq.rdnsDead {
				return nil, &net.DNSError{Err: "no such host", Name: addr, IsNotFound: true}, 3 * time.Millisecond
			}
			return namesFor(addr), nil, 3 * time.Millisecond
		})
		defer res.restore()
	}
	dist := 4
	nRun, nE2e := 0, 0
	sentinels := map[int]*flowSentinel{}
	sameText := fw.Hash32(id)%2 == 0
	roles := map[int]string{}
	env.modelFor = func(k int, e *simEnv) *pathModel {
		// completion order: per-flow base delay chosen by the permutation index
		base := time.Duration(1+((k*5+rq.delayPerm*3)%7)*9) * time.Millisecond
		m := flowPath(k, e, dist, rq.reach, base)
		if rq.slowDest > 0 {
			m.destDelay = rq.slowDest + time.Duration(k)*time.Millisecond
		}
		if rq.firewall > 0 && e.spec.V.Proto == "udp" {
			m.dist = 0 // the destination never answers
			for t := rq.firewall; t <= int(e.spec.MaxTTL); t++ {
				delete(m.hops, t)
			}
			if rq.firewall >= int(e.spec.MinTTL) {
				m.hops[rq.firewall] = &hopSpec{addr: routerAddr(false, k, rq.firewall), delay: 20 * time.Millisecond, build: func(e *simEnv, p *refmatch.Probe, from netip.Addr) []byte {
					return gen.WrapError(from, e.local, gen.DestUnreach, 13, gen.QuoteBytes(p, 1, "fix"), "min", nil, 0)
				}}
			}
			// probes with a larger TTL are dropped by the firewall as well: it answers every one of them
			for t := rq.firewall + 1; t <= int(e.spec.MaxTTL); t++ {
				m.hops[t] = m.hops[rq.firewall]
			}
		}
		return m
	}
	env.onFlow = func(k int, e *simEnv) {
		env.mu.Lock()
		defer env.mu.Unlock()
		if e.spec.MinTTL == e.spec.MaxTTL {
			roles[k] = fmt.Sprintf("e2e#%d", nE2e)
			if contains(rq.failE2e, nE2e) {
				sentinels[k] = &flowSentinel{k, sameText}
			}
			nE2e++
		} else {
			roles[k] = fmt.Sprintf("run#%d", nRun)
			if contains(rq.failRuns, nRun) {
				sentinels[k] = &flowSentinel{k, sameText}
			}
			nRun++
		}
		if s := sentinels[k]; s != nil {
			switch {
			case k%3 == 2 && e.spec.MinTTL != e.spec.MaxTTL && e.handle != nil:
				// a path run whose SECOND send fails (the first probe is out, replies may already be in): the run has failed
				// all the same - answers to the probes that did leave do not make it a success
				env.w.Lock()
				env.w.Faults[simnet.FaultKey{Handle: e.handle.Idx, Op: "write", K: 2}] = simnet.Fault{Err: fmt.Errorf("sendto (2nd probe of flow %d): %w", k, s), Persist: true}
				env.w.Unlock()
			case k%3 == 1:
				// a failure that is ALSO a well-known errno (a netfilter rule refusing the send: EPERM; a broadcast target:
				// EACCES): being recognisable as "permission denied" must not cost the other failures their place
				errno := []syscall.Errno{syscall.EPERM, syscall.EACCES}[k%2]
				env.w.PoisonHandle(e.handle, fmt.Errorf("handle of flow %d: %w", k, errors.Join(s, os.NewSyscallError("sendto", errno))))
			case k%3 == 0 && k%2 == 0 && e.handle != nil:
				// a participant whose capture socket breaks (every read fails, e.g. ENETDOWN when the interface goes away)
				// while its sends and deadlines keep working: it has not measured anything
				env.w.Lock()
				env.w.Faults[simnet.FaultKey{Handle: e.handle.Idx, Op: "read", K: 1}] = simnet.Fault{Err: fmt.Errorf("recvfrom (flow %d): %w", k, errors.Join(s, os.NewSyscallError("recvfrom", syscall.ENETDOWN))), Persist: true}
				env.w.Unlock()
			case k%3 == 0 && k%2 == 1 && e.handle != nil && rq.slowDest == 0 && rq.proto != "tcp":
				// (parallel engines only: they listen for their whole window; a serial SYN run is over once its target answered)
				// a participant whose handle breaks 300 ms into its run: whatever it had collected by then (its destination
				// has answered long before when it is reachable) it is still listening, and it has failed
				h, err := e.handle, fmt.Errorf("handle of flow %d (late): %w", k, s)
				time.AfterFunc(300*time.Millisecond, func() { env.w.PoisonHandle(h, err) })
			case sameText:
				env.w.PoisonHandle(e.handle, fmt.Errorf("sendto: %w", s))
			default:
				env.w.PoisonHandle(e.handle, fmt.Errorf("handle of flow %d: %w", k, s))
			}
		}
	}
	ctx, cancel := context.WithCancel(context.Background())
	defer cancel()
	if rq.cancelAt == 0 {
		cancel()
	} else if rq.cancelAt > 0 {
		t := time.AfterFunc(rq.cancelAt, cancel)
		defer t.Stop()
	}
	out, rerr := env.run(ctx)
	ran, rerrOut = true, rerr
	tag := id + " [" + rq.String() + "]"
	detail := map[string]any{"request": rq.String(), "roles": fmt.Sprint(roles), "error": fmt.Sprint(rerr)}
	env.monitors(id)
	c.Count("requests", 1)
	c.Nontrivial(fmt.Sprintf("%s/q%d/e%d/fr%d/fe%d/%s/rdns%v/cancel%v", rq.proto, rq.q, rq.e, len(rq.failRuns), len(rq.failE2e), rq.fetcher, rq.rdns, rq.cancelAt >= 0))
	if out != nil && rerr != nil {
		c.Violate("C15", "result-and-error", tag+": both a result and an error", detail)
	}
	if len(sentinels) != len(rq.failRuns)+len(rq.failE2e) {
		c.Inconclusive(fmt.Sprintf("%s: only %d of %d failures could be injected (flows seen: %v)", tag, len(sentinels), len(rq.failRuns)+len(rq.failE2e), roles))
		return
	}
	if len(sentinels) > 0 {
		if rerr == nil {
			c.Violate("C15", fmt.Sprintf("failure-masked/%s", failKinds(rq)), fmt.Sprintf("%s: %d participant(s) failed but the request succeeded", tag, len(sentinels)), detail)
			return
		}
		for k, s := range sentinels {
			if !errors.Is(rerr, s) {
				c.Violate("C15", fmt.Sprintf("failure-not-exposed/%s", roleKind(roles[k])), fmt.Sprintf("%s: the returned error does not expose the failure of %s (flow %d)", tag, roles[k], k), detail)
			}
		}
		c.Count("failed_requests", 1)
		return
	}
	if rerr != nil && rq.cancelAt >= 0 {
		c.Count("cancelled_requests_failed", 1)
		return
	}
	if rerr != nil {
		c.Violate("C15", "spurious-failure/fetcher-"+rq.fetcher, fmt.Sprintf("%s: no run or probe failed but the request returned: %v", tag, rerr), detail)
		return
	}
	if out == nil {
		c.Violate("C15", "nil-nil", tag+": nil result, nil error", detail)
		return
	}
	if got := len(out.Traceroute.Runs); got != rq.q {
		c.Violate("C15", "run-count", fmt.Sprintf("%s: %d runs in the result, %d requested", tag, got, rq.q), detail)
	}
	if got := len(out.E2eProbe.RTTs); got != rq.e {
		c.Violate("C15", "rtt-count", fmt.Sprintf("%s: %d end-to-end samples, %d requested", tag, got, rq.e), detail)
	}
	// every sample is the destination-hop RTT of its own probe (multiset equality, completion order is free)
	var want []float64
	for _, f := range env.flowList() {
		if f.spec.MinTTL != f.spec.MaxTTL {
			continue
		}
		fl := f.flow()
		w := 0.0
		for _, j := range f.reads(fl) {
			if j.out.Kind == refmatch.Accept && j.out.Dest && len(fl.Probes) > 0 {
				w = msOf(j.d.ReadAt.Sub(fl.Probes[0].SentAt))
				break
			}
		}
		want = append(want, w)
	}
	got := append([]float64(nil), out.E2eProbe.RTTs...)
	sort.Float64s(want)
	sort.Float64s(got)
	if len(want) == len(got) {
		for i := range want {
			if math.Abs(want[i]-got[i]) > 0.002 {
				c.Violate("C05", "e2e-rtt", fmt.Sprintf("%s: end-to-end samples %v, destination-hop RTTs of the probes %v", tag, got, want), detail)
				break
			}
		}
		c.Count("e2e_samples_checked", len(got))
	}
	switch rq.fetcher {
	case "ok", "slow":
		if out.Source.PublicIP != "192.0.2.77" {
			c.Violate("C15", "public-ip-lost", fmt.Sprintf("%s: public ip %q", tag, out.Source.PublicIP), detail)
		}
	case "error", "none":
		if out.Source.PublicIP != "" {
			c.Violate("C15", "public-ip-invented", fmt.Sprintf("%s: public ip %q", tag, out.Source.PublicIP), detail)
		}
	}
	env.judgeRuns(out, tag)
	checkWireIdentifiers(c, env, tag) // flows that are live at once must be tellable apart on the wire (C11)
	if rq.rdns {
		for i := range out.Traceroute.Runs {
			for _, h := range out.Traceroute.Runs[i].Hops {
				want := namesFor(h.IPAddress.String())
				if rq.rdnsDead {
					want = nil
				}
				if len(h.IPAddress) > 0 && fmt.Sprint(h.ReverseDns) != fmt.Sprint(want) && !(len(want) == 0 && len(h.ReverseDns) == 0) {
					c.Violate("C18", "rdns-wrong-name", fmt.Sprintf("%s: hop %s has names %v", tag, h.IPAddress, h.ReverseDns), detail)
				}
			}
		}
	}
	c.Count("successful_requests", 1)
	c.Sample(map[string]any{"request": rq.String(), "runs": len(out.Traceroute.Runs), "rtts": out.E2eProbe.RTTs, "roles": fmt.Sprint(roles)})
	return
}

// runC15RealtimeFailing: q runs and e end-to-end probes on the real clock (timeouts of 60 ms); the first nfail
// end-to-end probes and the first run (if any) fail at their first send.
// runC15RealtimePublicIPFailure (REAL clock): two requests in a row through one production public-IP fetcher whose lookups
// fail at once (the caller's context is already over; UDP runs never look at it and complete). "Failing to determine the
// public IP never fails the request" - neither the first nor the one after it; a request that never returns because the
// failed lookup left something locked is the same failure. Threshold 20 s for requests that take a fraction of a second.
func runC15RealtimePublicIPFailure(c *fw.Ctx, id string) {
	resetProcessState()
	v := refmatch.VariantByName("udp4")
	target := drive.TargetFor(v, 160+c.Worker)
	params := traceroute.TracerouteParams{Hostname: target.String(), Port: 33434, Protocol: "udp", MinTTL: 1, MaxTTL: 3, Delay: 2,
		Timeout: 60 * time.Millisecond, TracerouteQueries: 1, E2eQueries: 1, CollectSourcePublicIP: true}
	env, err := newReqEnv(c, params, target, 33434, false)
	if err != nil {
		c.Inconclusive(err.Error())
		return
	}
	rt := &stallRT{behave: map[string]string{}, release: make(chan struct{})}
	for _, h := range providerHosts {
		rt.behave[h] = "transport-error"
	}
	env.fetcher = publicip.VerifNewPublicIPFetcher(&http.Client{Transport: rt})
	env.modelFor = func(k int, se *simEnv) *pathModel { return flowPath(k, se, 3, true, 300*time.Microsecond) }
	ctx, cancel := context.WithCancel(context.Background())
	cancel()
	for n := 1; n <= 3; n++ {
		type outcome struct {
			out *result.Results
			err error
		}
		done := make(chan outcome, 1)
		go func() {
			o, rerr := env.run(ctx)
			done <- outcome{o, rerr}
		}()
		select {
		case r := <-done:
			if r.err != nil || r.out == nil {
				c.Violate("C15", "publicip-failure-fails-request", fmt.Sprintf("%s: request %d: every run and probe succeeded, only the public-IP lookup failed, but the request returned result=%v err=%v", id, n, r.out != nil, r.err), nil)
				env.close()
				return
			}
		case <-time.After(20 * time.Second):
			c.Violate("C15", "publicip-failure-hangs-request", fmt.Sprintf("%s: request %d (the %d before it had their public-IP lookup fail) had not returned after 20 s", id, n, n-1), map[string]any{"goroutines": repoGoroutines()})
			return // a hung request still owns its handles
		}
	}
	env.close()
	c.Nontrivial("realtime-publicip-failure")
	c.Count("requests_after_failed_publicip_lookup", 2)
}

func runC15RealtimeFailing(c *fw.Ctx, id string, q, e, nfail int) {
	resetProcessState()
	v := refmatch.VariantByName("udp4")
	target := drive.TargetFor(v, 150+c.Worker)
	params := traceroute.TracerouteParams{Hostname: target.String(), Port: 33434, Protocol: "udp", MinTTL: 1, MaxTTL: 3, Delay: 2,
		Timeout: 60 * time.Millisecond, TracerouteQueries: q, E2eQueries: e}
	env, err := newReqEnv(c, params, target, 33434, false)
	if err != nil {
		c.Inconclusive(err.Error())
		return
	}
	// env is closed only if the request returned: a hung request still owns its handles
	env.fetcher = &scriptedFetcher{ip: net.ParseIP("192.0.2.77")}
	env.modelFor = func(k int, se *simEnv) *pathModel { return flowPath(k, se, 3, true, 300*time.Microsecond) }
	var mu sync.Mutex
	nE2e, nRun := 0, 0
	env.onFlow = func(k int, se *simEnv) {
		mu.Lock()
		defer mu.Unlock()
		if se.spec.MinTTL == se.spec.MaxTTL {
			if nE2e < nfail {
				env.w.PoisonHandle(se.handle, fmt.Errorf("sendto: %w", errInjected))
			}
			nE2e++
		} else {
			if nRun == 0 && q > 1 {
				env.w.PoisonHandle(se.handle, fmt.Errorf("sendto: %w", errInjected))
			}
			nRun++
		}
	}
	type outcome struct {
		out *result.Results
		err error
	}
	done := make(chan outcome, 1)
	t0 := time.Now()
	go func() {
		o, rerr := env.run(context.Background())
		done <- outcome{o, rerr}
	}()
	select {
	case r := <-done:
		env.close()
		c.Count("realtime_failing_request_ms", int(time.Since(t0).Milliseconds()))
		c.Nontrivial(fmt.Sprintf("realtime-failing/q%d-e%d", q, e))
		if r.err == nil {
			c.Violate("C15", "failure-masked/realtime", fmt.Sprintf("%s: %d end-to-end probe(s) failed but the request succeeded", id, nfail), nil)
		} else if r.out != nil {
			c.Violate("C15", "result-and-error", id+": both a result and an error", nil)
		} else if !errors.Is(r.err, errInjected) {
			c.Violate("C15", "failure-not-exposed/realtime", fmt.Sprintf("%s: the error does not expose the injected failure: %v", id, r.err), nil)
		}
	case <-time.After(20 * time.Second):
		c.Violate("C15", "request-never-returns/failing-e2e", fmt.Sprintf("%s: RunTraceroute with %d failing end-to-end probe(s) had not returned after 20 s of real time (the request needs about 0.3 s): neither a result nor an error", id, nfail), string(stackOfRepo()))
	}
}

func stackOfRepo() []byte {
	buf := make([]byte, 1<<20)
	n := runtime.Stack(buf, true)
	var out []byte
	for _, g := range strings.Split(string(buf[:n]), "\n\n") {
		if strings.Contains(g, "github.com/DataDog/datadog-traceroute/traceroute.") {
			out = append(out, g[:min(len(g), 1500)]...)
			out = append(out, '\n', '\n')
		}
	}
	return out[:min(len(out), 6000)]
}

func failKinds(rq c15Req) string {
	switch {
	case len(rq.failRuns) > 0 && len(rq.failE2e) > 0:
		return "run+e2e"
	case len(rq.failRuns) > 0:
		return "run"
	}
	return "e2e"
}

func roleKind(r string) string {
	if len(r) >= 3 {
		return r[:3]
	}
	return r
}

// flattenErr lists the leaves of an error tree built with errors.Join / fmt.Errorf("%w").
func flattenErr(err error) []error {
	if err == nil {
		return nil
	}
	if j, ok := err.(interface{ Unwrap() []error }); ok {
		var out []error
		for _, e := range j.Unwrap() {
			out = append(out, flattenErr(e)...)
		}
		return out
	}
	if inner := flattenErr(errors.Unwrap(err)); len(inner) > 1 {
		return inner // a wrapper around a joined error
	}
	return []error{err}
}

// runC15HTTPUnresolvable: the target is a host name the resolver reports as non-existent (syntactically not a domain
// name: decided locally, no network), so every one of the q+e participants fails on its own. The library call exposes
// q+e failures; the HTTP handler, given the same request, must answer with an error status, no result document, and a
// body in which every one of those failures can be found (with its multiplicity).
func runC15HTTPUnresolvable(c *fw.Ctx, id, proto string, q, e2e int) {
	resetProcessState()
	host := fmt.Sprintf("no..such-host-%d.invalid", q*100+e2e)
	params := traceroute.TracerouteParams{Hostname: host, Port: 33434, Protocol: proto, MinTTL: 1, MaxTTL: 4, Timeout: 60 * time.Millisecond, TracerouteQueries: q, E2eQueries: e2e}
	res, lerr := traceroute.NewTraceroute().RunTraceroute(context.Background(), params)
	leaves := flattenErr(lerr)
	c.Nontrivial(fmt.Sprintf("http-unresolvable/%s/q%d-e%d", proto, q, e2e))
	if lerr == nil || res != nil {
		c.Violate("C15", "failure-masked/unresolvable", fmt.Sprintf("%s: RunTraceroute for the non-existent host %q returned result=%v err=%v", id, host, res != nil, lerr), nil)
		return
	}
	if len(leaves) != q+e2e {
		c.Violate("C15", "failure-not-exposed/unresolvable", fmt.Sprintf("%s: %d participants cannot resolve %q but the error exposes %d failures: %v", id, q+e2e, host, len(leaves), lerr), nil)
		return
	}
	qv := url.Values{"target": {host}, "protocol": {proto}, "port": {"33434"}, "max-ttl": {"4"}, "timeout": {"60"},
		"traceroute-queries": {fmt.Sprint(q)}, "e2e-queries": {fmt.Sprint(e2e)}}
	rec := httptest.NewRecorder()
	server.NewServer().TracerouteHandler(rec, httptest.NewRequest("GET", "/traceroute?"+qv.Encode(), nil))
	body := rec.Body.String()
	c.Count("http_requests", 1)
	if rec.Code >= 200 && rec.Code < 300 {
		c.Violate("C15", "http-failure-masked", fmt.Sprintf("%s: every participant failed but the handler answered %d (body: %.120s)", id, rec.Code, body), nil)
		return
	}
	norm := func(s string) string { return strings.NewReplacer("\\", "", "\"", "").Replace(s) }
	nb := norm(body)
	want := map[string]int{}
	for _, l := range leaves {
		want[norm(l.Error())]++
	}
	for text, n := range want {
		if got := strings.Count(nb, text); got < n {
			c.Violate("C15", "http-failure-not-exposed", fmt.Sprintf("%s: the library call exposes %d failures reading %q; the HTTP answer (status %d) shows %d of them: %.300s", id, n, text, rec.Code, got, body), nil)
			return
		}
	}
}

func runC15HTTP(c *fw.Ctx, id, proto string, q, e2e int) { runC15HTTPFail(c, id, proto, q, e2e, false) }

// runC15HTTPFail: failOne poisons the capture handle of the second participant: over HTTP "returns an error and no
// result" means a non-2xx status and no result document in the body.
func runC15HTTPFail(c *fw.Ctx, id, proto string, q, e2e int, failOne bool) {
	resetProcessState()
	v := map[string]refmatch.Variant{"udp": refmatch.VariantByName("udp4"), "icmp": refmatch.VariantByName("icmp4")}[proto]
	target := drive.TargetFor(v, 180+c.Worker)
	const maxTTL = 4
	params := traceroute.TracerouteParams{Hostname: target.String(), Port: 33434, Protocol: proto, MinTTL: 1, MaxTTL: maxTTL, Timeout: 60 * time.Millisecond, TracerouteQueries: q, E2eQueries: e2e}
	env, err := newReqEnv(c, params, target, 33434, false)
	if err != nil {
		c.Inconclusive(err.Error())
		return
	}
	defer env.close()
	env.modelFor = func(k int, e *simEnv) *pathModel { return flowPath(k, e, 3, true, 300*time.Microsecond) }
	if failOne {
		env.onFlow = func(k int, e *simEnv) {
			if k == 1 || q+e2e == 1 {
				env.w.PoisonHandle(e.handle, fmt.Errorf("sendto: %w", errInjected))
			}
		}
	}
	qv := url.Values{"target": {target.String()}, "protocol": {proto}, "port": {"33434"}, "max-ttl": {fmt.Sprint(maxTTL)}, "timeout": {"60"},
		"traceroute-queries": {fmt.Sprint(q)}, "e2e-queries": {fmt.Sprint(e2e)}}
	rec := httptest.NewRecorder()
	allocMu.Lock()
	server.NewServer().TracerouteHandler(rec, httptest.NewRequest("GET", "/traceroute?"+qv.Encode(), nil))
	allocMu.Unlock()
	env.monitors(id)
	if failOne {
		c.Nontrivial(fmt.Sprintf("http-failing/%s/q%d-e%d", proto, q, e2e))
		var probe result.Results
		isDoc := json.Unmarshal(rec.Body.Bytes(), &probe) == nil && (len(probe.Traceroute.Runs) > 0 || len(probe.E2eProbe.RTTs) > 0)
		if rec.Code >= 200 && rec.Code < 300 {
			c.Violate("C15", "http-failure-masked", fmt.Sprintf("%s: one participant of the request failed but the handler answered %d (body: %.120s)", id, rec.Code, rec.Body.String()), nil)
		} else if isDoc {
			c.Violate("C15", "http-result-and-error", fmt.Sprintf("%s: status %d together with a result document", id, rec.Code), nil)
		}
		return
	}
	if rec.Code != 200 {
		c.Violate("C15", "http-failed", fmt.Sprintf("%s: fault-free request failed with %d: %s", id, rec.Code, rec.Body.String()), nil)
		return
	}
	var doc result.Results
	if err := json.Unmarshal(rec.Body.Bytes(), &doc); err != nil {
		c.Violate("C15", "http-json", fmt.Sprintf("%s: %v", id, err), nil)
		return
	}
	// senders on the wire: a path run starts at TTL 1, an end-to-end probe is a single probe at the last TTL
	env.w.Lock()
	first := map[int]int{}
	for _, em := range env.w.Emissions {
		if _, ok := first[em.Handle]; !ok && em.Pkt != nil {
			first[em.Handle] = int(em.Pkt.TTL)
		}
	}
	env.w.Unlock()
	runsOnWire, e2eOnWire := 0, 0
	for _, t := range first {
		if t == maxTTL {
			e2eOnWire++
		} else {
			runsOnWire++
		}
	}
	c.Nontrivial(fmt.Sprintf("http/%s/q%d-e%d", proto, q, e2e))
	c.Count("http_requests", 1)
	if runsOnWire != q || e2eOnWire != e2e {
		c.Violate("C15", "http-count/wire", fmt.Sprintf("%s: traceroute-queries=%d e2e-queries=%d put %d path runs and %d end-to-end probes on the wire", id, q, e2e, runsOnWire, e2eOnWire), nil)
	}
	if len(doc.Traceroute.Runs) != q || len(doc.E2eProbe.RTTs) != e2e {
		c.Violate("C15", "http-count/document", fmt.Sprintf("%s: traceroute-queries=%d e2e-queries=%d returned %d runs and %d RTT samples", id, q, e2e, len(doc.Traceroute.Runs), len(doc.E2eProbe.RTTs)), nil)
	}
}
