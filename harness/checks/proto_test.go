package checks

import (
	"context"
	"fmt"
	"math/rand"
	"net/netip"
	"sync"
	"time"

	"github.com/DataDog/datadog-traceroute/icmp"
	"github.com/DataDog/datadog-traceroute/packets"
	"github.com/DataDog/datadog-traceroute/tcp"
	"github.com/DataDog/datadog-traceroute/traceroute"

	"verif/harness/drive"
	"verif/harness/fw"
	"verif/harness/gen"
	"verif/harness/refmatch"
	"verif/harness/simnet"
	"verif/harness/wirefmt"
)

// window is a (first TTL, last TTL) pair.
type window struct{ first, last int }

var (
	windowsQuick    = []window{{1, 8}, {3, 12}, {250, 255}}
	windowsThorough = []window{{1, 8}, {1, 30}, {3, 12}, {250, 255}, {255, 255}, {1, 255}}
)

// base sets identifier bases at or around their wrap-around points.
type base struct {
	name   string
	echoID uint32 // allocator counter before the run (next id = +1)
	ipid   uint32
	isn    uint32
	tcpSeq *uint32
}

func u32(v uint32) *uint32 { return &v }

var basesQuick = []base{
	{name: "mid", echoID: 0x1233, ipid: 0x5000, isn: 0x10000000, tcpSeq: u32(0x12345678)},
	{name: "wrap", echoID: 0xfffe, ipid: 0xffff_ff80, isn: 0xffffff80, tcpSeq: u32(0xffffffff)},
}

var basesThorough = append(append([]base{}, basesQuick...),
	base{name: "zero", echoID: 0xffff, ipid: 0xffff_fffe, isn: 0, tcpSeq: u32(0)},
	base{name: "byte", echoID: 0x00fe, ipid: 0x00f0, isn: 0x7fffffff, tcpSeq: u32(0x80000000)},
	base{name: "hi", echoID: 0x7ffe, ipid: 0x7ff0, isn: 0xfffffed4, tcpSeq: nil},
	base{name: "one", echoID: 0, ipid: 65535 - 3, isn: 1, tcpSeq: u32(0x7fffffff)},
)

// thoroughWindows: the fixed thorough list plus n seed-determined windows (any first TTL, widths 1..24 and a few wide).
func thoroughWindows(seed int64, n int) []window {
	r := rand.New(rand.NewSource(seed*7919 + 13))
	out := append([]window(nil), windowsThorough...)
	for i := 0; i < n; i++ {
		width := 1 + r.Intn(24)
		if r.Intn(8) == 0 {
			width = 40 + r.Intn(120)
		}
		first := 1 + r.Intn(255)
		last := first + width - 1
		if last > 255 {
			last = 255
		}
		out = append(out, window{first, last})
	}
	return out
}

// thoroughBases: the fixed thorough list plus n seed-determined bases (uniform values and values within 40 of a
// 16/32-bit wrap).
func thoroughBases(seed int64, n int) []base {
	r := rand.New(rand.NewSource(seed*104729 + 71))
	near := func(mod uint64) uint32 {
		if r.Intn(2) == 0 {
			return uint32(uint64(r.Uint32()) % mod)
		}
		return uint32((mod - uint64(r.Intn(40)) - 1) % mod)
	}
	out := append([]base(nil), basesThorough...)
	for i := 0; i < n; i++ {
		b := base{name: fmt.Sprintf("r%d", i), echoID: near(1 << 16), ipid: near(1 << 32), isn: near(1 << 32)}
		if r.Intn(6) != 0 {
			b.tcpSeq = u32(near(1 << 32))
		}
		out = append(out, b)
	}
	return out
}

func (b base) apply(v refmatch.Variant) {
	switch v.Proto {
	case "icmp":
		icmp.VerifSetEchoIDBase(b.echoID)
	case "syn":
		packets.VerifSetPacketIDBase(b.ipid)
		tcp.VerifSetSeqNum(b.tcpSeq)
	}
}

// scenario is one simulated run.
type scenario struct {
	tag   string
	v     refmatch.Variant
	win   window
	b     base
	mode  simnet.FilterMode
	spec  func(s *drive.Spec) // optional spec tweak
	model func(e *simEnv) *pathModel
}

type scenarioOut struct {
	e    *simEnv
	res  drive.Result
	flow *refmatch.Flow
	js   []judged
}

// allocMu: single-flow scenarios pin the process-wide identifier allocators (echo id, IP-ID, TCP sequence) and may run
// in parallel with each other (each reads its identifiers back from the wire); a multi-flow request must not have the
// allocators reset under it by another worker, so it holds the lock exclusively.
var allocMu sync.RWMutex

// runScenario executes sc with all universal monitors attached. The caller must call out.e.close().
func runScenario(c *fw.Ctx, sc scenario) *scenarioOut {
	allocMu.RLock()
	defer allocMu.RUnlock()
	spec := defaultSpec(sc.v, c.Worker, sc.win.first, sc.win.last)
	if sc.spec != nil {
		sc.spec(&spec)
	}
	sc.b.apply(sc.v)
	e, err := newSimEnv(c, spec, sc.b.isn)
	if err != nil {
		c.Inconclusive(sc.tag + ": " + err.Error())
		return nil
	}
	e.w.Mode = sc.mode
	m := sc.model(e)
	res := e.run(m)
	if sc.v.Proto == "sack" && e.noiseSynAckOnConnection() {
		// a noise SYN-ACK built for "some other connection" landed on this one: its random destination port (or a mutated
		// byte) equals the local port the kernel chose after the frame was built. What the tool then takes from it -
		// sequence numbers, timestamps, whether SACK is permitted - is the handshake it was shown; the run says nothing
		// about the case's subject and is not judged.
		c.Count("handshake_port_coincidence", 1)
		e.close()
		return nil
	}
	f, js := e.judge(res, sc.tag)
	e.checkCompleteness(res, f, js, sc.tag)
	e.checkUniversal(res, f, js, sc.tag)
	return &scenarioOut{e: e, res: res, flow: f, js: js}
}

// ---------------------------------------------------------------------------------------------
// the device-behaviour catalogue of C02

type form struct {
	name    string
	applies func(v refmatch.Variant) bool
	// hop builds the reply of an on-path router (nil = default minimal time-exceeded)
	hop func(e *simEnv, p *refmatch.Probe, from netip.Addr) []byte
	// dest builds the reply of the target (nil = protocol default)
	dest func(e *simEnv, p *refmatch.Probe) []byte
	// prep adjusts the environment before the run (e.g. the form of the SACK handshake)
	prep func(e *simEnv)
}

func anyV(refmatch.Variant) bool     { return true }
func v4only(v refmatch.Variant) bool { return !v.V6 }

func teForm(name, style string, opts int, qttl uint8, ck string, tos int, applies func(refmatch.Variant) bool) form {
	return form{name: name, applies: applies, hop: func(e *simEnv, p *refmatch.Probe, from netip.Addr) []byte {
		q := gen.QuoteBytes(p, qttl, ck)
		if tos >= 0 {
			if e.spec.V.V6 {
				q[0] = q[0]&0xf0 | byte(tos>>4)
				q[1] = q[1]&0x0f | byte(tos<<4)
			} else {
				q[1] = byte(tos)
				gen.FixIPv4Checksum(q, "fix")
			}
		}
		return gen.WrapError(from, e.local, gen.TimeExceeded, 0, q, style, gen.OuterOpts(opts), 0)
	}}
}

func catalogue() []form {
	fs := []form{
		teForm("te-min", "min", 0, 1, "fix", -1, anyV),
		teForm("te-full", "full", 0, 1, "fix", -1, anyV),
		teForm("te-ext-mpls", "ext", 0, 1, "fix", -1, anyV),
		teForm("te-outer-ihl6", "min", 1, 1, "fix", -1, v4only),
		teForm("te-outer-ihl8-rr", "full", 2, 1, "fix", -1, v4only),
		teForm("te-outer-ihl15-ts", "min", 3, 1, "fix", -1, v4only),
		teForm("te-qttl0", "min", 0, 0, "fix", -1, anyV),
		teForm("te-qttl64", "full", 0, 64, "fix", -1, anyV),
		teForm("te-qttl255", "min", 0, 255, "fix", -1, anyV),
		teForm("te-qcksum-stale", "min", 0, 1, "stale", -1, v4only),
		teForm("te-qcksum-zero", "full", 0, 1, "zero", -1, v4only),
		teForm("te-qtos", "min", 0, 1, "fix", 0xb8, anyV),
	}
	// NAT rewrote the quoted source (address and port): must match with relaxed checking
	fs = append(fs, form{name: "te-nat-src", applies: func(v refmatch.Variant) bool { return v.Relaxed },
		hop: func(e *simEnv, p *refmatch.Probe, from netip.Addr) []byte {
			q := gen.QuoteBytes(p, 1, "fix")
			if e.spec.V.V6 {
				copy(q[8:24], netip.MustParseAddr("2001:db8:aa::77").AsSlice())
				q[40], q[41] = 0xc3, 0x50
			} else {
				copy(q[12:16], []byte{203, 0, 113, 77})
				q[20], q[21] = 0xc3, 0x50
				gen.FixIPv4Checksum(q, "fix")
			}
			return gen.WrapError(from, e.local, gen.TimeExceeded, 0, q, "min", nil, 0)
		}})
	// destination-unreachable codes for UDP probes, from routers and from the target
	for _, code := range []uint8{0, 1, 2, 3, 9, 10, 13} {
		code := code
		fs = append(fs, form{name: fmt.Sprintf("du-code%d", code), applies: func(v refmatch.Variant) bool { return v.Proto == "udp" },
			hop: func(e *simEnv, p *refmatch.Probe, from netip.Addr) []byte {
				cd := code
				if e.spec.V.V6 {
					cd = code % 7
				}
				return gen.WrapError(from, e.local, gen.DestUnreach, cd, gen.QuoteBytes(p, 1, "fix"), "min", nil, 0)
			},
			dest: func(e *simEnv, p *refmatch.Probe) []byte {
				cd := code
				if e.spec.V.V6 {
					cd = code % 7
				}
				return gen.WrapError(e.spec.Target, e.local, gen.DestUnreach, cd, gen.QuoteBytes(p, 1, "fix"), "full", nil, 0)
			}})
	}
	// echo reply with and without payload echo
	fs = append(fs, form{name: "echo-nopayload", applies: func(v refmatch.Variant) bool { return v.Proto == "icmp" },
		dest: func(e *simEnv, p *refmatch.Probe) []byte {
			return gen.EchoReply(e.spec.Target, e.local, e.echoID, uint16(p.Seq), nil, nil)
		}})
	fs = append(fs, form{name: "echo-bigpayload-ihl6", applies: func(v refmatch.Variant) bool { return v.Proto == "icmp" },
		dest: func(e *simEnv, p *refmatch.Probe) []byte {
			var o []byte
			if !e.spec.V.V6 {
				o = gen.OuterOpts(1)
			}
			return gen.EchoReply(e.spec.Target, e.local, e.echoID, uint16(p.Seq), make([]byte, 56), o)
		}})
	// TCP SYN destination forms
	synOpts := map[string][]byte{
		"plain":          nil,
		"mss":            wirefmt.OptMSS(1400),
		"mss-sack-ts-ws": append(append(append(append(wirefmt.OptMSS(1460), wirefmt.OptSackPerm()...), wirefmt.OptTS(777, 0)...), wirefmt.OptNop()...), wirefmt.OptWS(7)...),
	}
	for n, o := range synOpts {
		o := o
		fs = append(fs, form{name: "synack-" + n, applies: func(v refmatch.Variant) bool { return v.Proto == "syn" },
			dest: func(e *simEnv, p *refmatch.Probe) []byte {
				return gen.TCPReply(e.spec.Target, e.local, e.spec.Port, e.lport, 0x66000000, p.Seq+1, wirefmt.TCPSyn|wirefmt.TCPAck, o, nil, nil)
			}})
	}
	fs = append(fs, form{name: "synack-ecn-setup", applies: func(v refmatch.Variant) bool { return v.Proto == "syn" },
		dest: func(e *simEnv, p *refmatch.Probe) []byte {
			return gen.TCPReply(e.spec.Target, e.local, e.spec.Port, e.lport, 0x66000000, p.Seq+1, wirefmt.TCPSyn|wirefmt.TCPAck|0x40, wirefmt.OptMSS(1460), nil, nil)
		}})
	// SACK handshake forms: ECN-setup SYN-ACK (SYN|ACK|ECE), timestamps, window scale only
	fs = append(fs, form{name: "sack-handshake-ecn-ts", applies: func(v refmatch.Variant) bool { return v.Proto == "sack" },
		prep: func(e *simEnv) {
			e.peer.ExtraFlags = 0x40
			e.peer.TS = true
			e.peer.TSVal, e.peer.TSEcr = 0xfffffff0, 77
		}})
	fs = append(fs, form{name: "rst", applies: func(v refmatch.Variant) bool { return v.Proto == "syn" },
		dest: func(e *simEnv, p *refmatch.Probe) []byte {
			return gen.TCPReply(e.spec.Target, e.local, e.spec.Port, e.lport, 0, 0, wirefmt.TCPRst, nil, nil, nil)
		}})
	fs = append(fs, form{name: "rstack", applies: func(v refmatch.Variant) bool { return v.Proto == "syn" },
		dest: func(e *simEnv, p *refmatch.Probe) []byte {
			return gen.TCPReply(e.spec.Target, e.local, e.spec.Port, e.lport, 0, p.Seq+1, wirefmt.TCPRst|wirefmt.TCPAck, nil, nil, gen.OuterOpts(1))
		}})
	// SACK destination forms: block counts/orders, timestamps, time-exceeded sent by the target itself
	for _, k := range []int{1, 2, 3, 4} {
		for _, ts := range []bool{false, true} {
			if ts && k == 4 {
				continue
			}
			k, ts := k, ts
			fs = append(fs, form{name: fmt.Sprintf("sack-%dblk-ts%v", k, ts), applies: func(v refmatch.Variant) bool { return v.Proto == "sack" },
				dest: func(e *simEnv, p *refmatch.Probe) []byte {
					e.mu.Lock()
					real := sackBlocks(e.isn, e.arrived, 4)
					e.mu.Unlock()
					// pad with older, higher, already-received-looking blocks beyond the window so the minimum edge is unchanged
					blocks := append([][2]uint32{}, real...)
					for i := 0; len(blocks) < k; i++ {
						blocks = append(blocks, [2]uint32{e.isn + 1000 + uint32(10*i), e.isn + 1001 + uint32(10*i)})
					}
					if len(blocks) > k {
						blocks = blocks[:k]
					}
					if k >= 2 && len(real) == 1 {
						// any order: put the genuine block last
						blocks[0], blocks[len(blocks)-1] = blocks[len(blocks)-1], blocks[0]
					}
					var opts []byte
					if ts {
						opts = append(opts, 1, 1)
						opts = append(opts, wirefmt.OptTS(123456, 654321)...)
					}
					opts = append(opts, 1, 1)
					opts = append(opts, wirefmt.OptSack(blocks)...)
					return gen.TCPReply(e.spec.Target, e.local, e.spec.Port, e.lport, 0x51000001, e.isn, wirefmt.TCPAck, opts, nil, nil)
				}})
		}
	}
	fs = append(fs, form{name: "sack-te-from-target", applies: func(v refmatch.Variant) bool { return v.Proto == "sack" },
		dest: func(e *simEnv, p *refmatch.Probe) []byte {
			return gen.WrapError(e.spec.Target, e.local, gen.TimeExceeded, 0, gen.QuoteBytes(p, 1, "fix"), "min", nil, 0)
		}})
	return fs
}

// pathFor builds a path inside window w: routers answer with form.hop, the destination (at the middle of
// the window, at its end or never) with form.dest.
func pathFor(e *simEnv, fm form, flow int, w window, destAt int, r *rand.Rand, noise bool) *pathModel {
	v := e.spec.V
	if fm.prep != nil {
		fm.prep(e)
	}
	m := &pathModel{hops: map[int]*hopSpec{}}
	last := w.last
	if destAt > 0 {
		m.dist = destAt
		last = destAt - 1
	}
	n := w.last - w.first + 1
	for t := w.first; t <= last; t++ {
		// the engine listens until timeout + n*delay after its start (parallel) / timeout after each probe (serial):
		// the latest instant a reply to probe t may arrive and still be inside its listening window
		budget := e.spec.Timeout - 2*e.spec.EffectivePoll()
		if !v.Serial {
			budget += time.Duration(n-(t-w.first)) * e.spec.Delay
		}
		hs := &hopSpec{addr: routerAddr(v.V6, flow, t), build: fm.hop}
		hs.delay = time.Duration(1+r.Intn(80)) * time.Millisecond
		if noise {
			switch r.Intn(6) {
			case 0:
				hs.silent = true // loss
			case 1:
				hs.dups = []time.Duration{hs.delay + time.Duration(1+r.Intn(40))*time.Millisecond}
			case 2:
				hs.delay = budget - time.Duration(r.Intn(50))*time.Millisecond // as late as the window allows
			}
		}
		if v.Serial && len(hs.dups) > 0 {
			hs.dups = nil // serial engine: histories without replies after their own window
		}
		m.hops[t] = hs
	}
	m.destDelay = time.Duration(1+r.Intn(60)) * time.Millisecond
	m.destBuild = fm.dest
	if noise && r.Intn(3) == 0 {
		// other hosts' pings pass the capture filter (all ICMP does) right after every probe, more of them than the
		// listening window has poll intervals: they are skipped at no cost to the window, the reply behind them counts
		k := 2*int(e.spec.Timeout/e.spec.EffectivePoll()) + 5
		if k > 80 {
			k = 80
		}
		m.extra = func(e *simEnv, p *refmatch.Probe) {
			for i := 0; i < k; i++ {
				e.inject(gen.EchoReply(uniqueAddr(v.V6, 7000+i), e.local, 0x7777, uint16(i), []byte{1, 2, 3}, nil), "unrelated-ping", nil, oddUS(time.Duration(100+10*i)*time.Microsecond))
			}
		}
	}
	if noise && !v.Serial && last > w.first {
		// one send returns late (the sender is descheduled inside the write) while that hop answers at once:
		// the reply is read before the sender continues
		k := 2 + r.Intn(last-w.first)
		e.w.Faults[simnet.FaultKey{Handle: -1, Op: "write", K: k}] = simnet.Fault{StallAfter: 30 * time.Millisecond}
		if hs := m.hops[w.first+k-1]; hs != nil && !hs.silent {
			hs.delay = 3 * time.Millisecond
		}
	}
	return m
}

func destPositions(w window) []int {
	mid := (w.first + w.last + 1) / 2
	if mid == w.first && w.last > w.first {
		mid++
	}
	out := []int{mid, 0}
	if w.last != mid {
		out = append(out, w.last)
	}
	if w.first != mid && w.first != w.last {
		out = append(out, w.first)
	}
	return out
}

func init() { register("C02", checkC02) }

func checkC02() fw.Check {
	return fw.Check{
		Prop:  "C02",
		Level: "exploration",
		Rule: "one case = (variant, reply form of the device-behaviour catalogue, TTL window, identifier base, destination position) run through the variant's real entry point on the simulated wire in a virtual-time bubble, in the noisy runs with the capture filter the variant installs enforced in front of the handle (the emitted classic-BPF program, evaluated by a BPF VM); every TTL of the window is answered in that form, with seeded loss/duplication/late arrival of other replies; oracle = reference fold (parallel) / per-hop completeness (serial). " +
			"distinct_nontrivial counts distinct (variant, form, window) triples in which at least one must-accept reply of that form was read by the tool and the run succeeded",
		Workers:       16,
		MinNontrivial: 40,
		Assumptions:   []string{"wirefmt encoder and refmatch reference matcher are trusted", "serial variants: histories keep every reply inside its own window", "Linux build"},
		Gen: func(tier string, seed int64) []fw.Case {
			wins, bases := windowsThorough[:5], basesQuick
			reps := 2
			if tier == "thorough" {
				wins, bases = thoroughWindows(seed, 8), thoroughBases(seed, 4)
				reps = 12
			}
			var cases []fw.Case
			for _, v := range refmatch.Variants {
				for _, fm := range catalogue() {
					if !fm.applies(v) {
						continue
					}
					for wi, w := range wins {
						bs := bases
						if v.Proto == "sack" && wi == 0 {
							// a connection whose SYN is acknowledged with 0 (initial sequence number 2^32-1): every value of the
							// 32-bit space is an ordinary sequence number, 0 included
							bs = append(append([]base{}, bs...), basesThorough[2])
						}
						for bi, b := range bs {
							_, _ = wi, bi
							v, fm, w, b := v, fm, w, b
							id := fmt.Sprintf("C02/%s/%s/%d-%d/%s", v.Name, fm.name, w.first, w.last, b.name)
							cases = append(cases, fw.Case{ID: id, Bubble: true, Run: func(c *fw.Ctx) {
								for rep := 0; rep < reps; rep++ {
									for _, dp := range destPositions(w) {
										if (fm.dest != nil || fm.prep != nil) && fm.hop == nil && dp == 0 {
											continue // a destination form needs a reachable destination
										}
										for _, noise := range []bool{false, true} {
											if rep > 0 && !noise {
												continue
											}
											// the capture filter the variant installs is part of the receive path (real program, run by
											// the simulated handle's BPF VM): enforced in the noisy runs, absent in the quiet one
											mode := simnet.FilterOff
											if noise {
												mode = simnet.FilterEnforce
											}
											sc := scenario{tag: fmt.Sprintf("%s dest@%d rep%d noise%v", id, dp, rep, noise), v: v, win: w, b: b, mode: mode,
												model: func(e *simEnv) *pathModel {
													m := pathFor(e, fm, 1, w, dp, c.Rng, noise)
													if v.Proto == "sack" && noise && e.peer != nil {
														// the target retransmits its SYN-ACK (it has not seen the handshake's last ACK yet): a segment
														// of the probed connection that answers no probe - skipped, the run goes on
														prev := m.extra
														m.extra = func(e *simEnv, p *refmatch.Probe) {
															if prev != nil {
																prev(e, p)
															}
															if p.TTL == w.first {
																e.inject(e.peer.SynAckBytes(e.local, e.lport), "chatter:dup-synack", p, oddUS(2*time.Millisecond))
															}
														}
													}
													if rep%2 == 1 && !v.Serial && m.dist > 0 {
														// the destination's replies overtake each other: its answer to the probe that reached it
														// first (the true distance) arrives after its answers to the next probes
														dist := m.dist
														m.destDelayFor = func(ttl int) time.Duration {
															k := ttl - dist
															if k > 5 {
																k = 5
															}
															return 420*time.Millisecond - time.Duration(k)*65*time.Millisecond
														}
													}
													return m
												}}
											out := runScenario(c, sc)
											if out == nil {
												continue
											}
											n := 0
											for i := range out.js {
												if out.js[i].out.Kind == refmatch.Accept {
													n++
												}
											}
											c.Count("must_accept_frames_read", n)
											if n > 0 && out.res.Err == nil {
												c.Nontrivial(fmt.Sprintf("%s/%s/%d-%d", v.Name, fm.name, w.first, w.last))
											}
											if rep == 0 && dp != 0 {
												c.Sample(map[string]any{"case": sc.tag, "result": fmtRun(out.res), "frames": fmtJudged(out.js)})
											}
											out.e.close()
										}
									}
								}
							}})
						}
					}
				}
			}
			// whole requests whose target is a host NAME answered from the hosts file (IPv4-only, IPv6-only and a name
			// with both families): every genuine reply must be recognised exactly as for the literal address
			for _, rq := range [][2]string{{"icmp", "v4"}, {"udp", "v4"}, {"tcp", "v4"}, {"tcp/sack", "v4"}, {"icmp", "v6"}, {"udp", "v6"}, {"icmp", "dual4"}, {"udp", "dual4"}} {
				rq := rq
				cases = append(cases, fw.Case{ID: fmt.Sprintf("C02/request-by-name/%s/%s", rq[0], rq[1]), Bubble: true, Run: func(c *fw.Ctx) { runC02ByName(c, c.ID, rq[0], rq[1]) }})
			}
			return cases
		},
	}
}

func runC02ByName(c *fw.Ctx, id, proto, form string) {
	resetProcessState()
	k := 140 + c.Worker
	v6 := form == "v6"
	target := netip.AddrFrom4([4]byte{10, 204, byte(k), 9})
	name := fmt.Sprintf("verif-w%d-v4", k)
	if v6 {
		target = netip.MustParseAddr(fmt.Sprintf("fd00:204:%x::9", k))
		name = fmt.Sprintf("verif-w%d-v6", k)
	}
	if form == "dual4" {
		name = fmt.Sprintf("verif-w%d", k)
	}
	method := traceroute.TCPConfigSYN
	p := proto
	if proto == "tcp/sack" {
		p, method = "tcp", traceroute.TCPConfigSACK
	}
	port := uint16(22000 + c.Worker)
	params := traceroute.TracerouteParams{Hostname: name, Port: int(port), Protocol: p, MinTTL: 1, MaxTTL: 6, Delay: 5, Timeout: 300 * time.Millisecond,
		TCPMethod: method, WantV6: v6, TracerouteQueries: 2, E2eQueries: 1}
	env, err := newReqEnv(c, params, target, port, method == traceroute.TCPConfigSACK)
	if err != nil {
		c.Inconclusive(err.Error())
		return
	}
	defer env.close()
	env.modelFor = func(k int, e *simEnv) *pathModel { return flowPath(k, e, 4, true, 3*time.Millisecond) }
	res, rerr := env.run(context.Background())
	env.monitors(id)
	if rerr != nil {
		c.Violate("C02", "by-name-failed/"+proto, fmt.Sprintf("%s: a fault-free request for host name %q (= %s) failed: %v", id, name, target, rerr), nil)
		return
	}
	env.judgeRuns(res, id)
	answered := 0
	for _, run := range res.Traceroute.Runs {
		for _, h := range run.Hops {
			if len(h.IPAddress) > 0 {
				answered++
			}
		}
	}
	if answered >= 4 {
		c.Nontrivial(fmt.Sprintf("request-by-name/%s/%s", proto, form))
	}
}
