package checks

import (
	"context"
	"fmt"
	"math/rand"
	"net/netip"
	"strings"
	"sync"
	"time"

	"github.com/DataDog/datadog-traceroute/traceroute"
	"golang.org/x/sys/unix"

	"verif/harness/drive"
	"verif/harness/fw"
	"verif/harness/gen"
	"verif/harness/refmatch"
	"verif/harness/scripted"
	"verif/harness/simnet"
	"verif/harness/wirefmt"
)

func init() {
	register("C04", checkC04)
	register("C05", checkC05)
	register("C06", checkC06)
}

// destination-form builders: reply in the protocol's proof-of-arrival form, sent by `from`.
type destForm struct {
	name    string
	applies func(v refmatch.Variant) bool
	build   func(e *simEnv, p *refmatch.Probe, from netip.Addr) []byte
}

func destForms() []destForm {
	is := func(proto string) func(refmatch.Variant) bool {
		return func(v refmatch.Variant) bool { return v.Proto == proto }
	}
	return []destForm{
		{"echo-reply", is("icmp"), func(e *simEnv, p *refmatch.Probe, from netip.Addr) []byte {
			return gen.EchoReply(from, e.local, e.echoID, uint16(p.Seq), []byte{byte(p.TTL)}, nil)
		}},
		{"time-exceeded", anyV, func(e *simEnv, p *refmatch.Probe, from netip.Addr) []byte {
			return gen.WrapError(from, e.local, gen.TimeExceeded, 0, gen.QuoteBytes(p, 1, "fix"), "min", nil, 0)
		}},
		// another ping with the same identifier whose 16-bit sequence number merely shares its low byte with the probe's
		{"echo-reply-seq-high-byte", is("icmp"), func(e *simEnv, p *refmatch.Probe, from netip.Addr) []byte {
			return gen.EchoReply(from, e.local, e.echoID, uint16(p.Seq)+0x100*uint16(1+p.TTL%3), []byte{byte(p.TTL)}, nil)
		}},
		{"port-unreachable", is("udp"), func(e *simEnv, p *refmatch.Probe, from netip.Addr) []byte {
			code := uint8(3)
			if e.spec.V.V6 {
				code = 4
			}
			return gen.WrapError(from, e.local, gen.DestUnreach, code, gen.QuoteBytes(p, 1, "fix"), "full", nil, 0)
		}},
		{"admin-prohibited", is("udp"), func(e *simEnv, p *refmatch.Probe, from netip.Addr) []byte {
			code := uint8(13)
			if e.spec.V.V6 {
				code = 1
			}
			return gen.WrapError(from, e.local, gen.DestUnreach, code, gen.QuoteBytes(p, 1, "fix"), "min", nil, 0)
		}},
		// destination-unreachable from the target's own address for a probe that is not UDP (its firewall rejecting the
		// segment / the echo request): not the protocol's proof of arrival
		{"admin-prohibited-non-udp", func(v refmatch.Variant) bool { return v.Proto != "udp" }, func(e *simEnv, p *refmatch.Probe, from netip.Addr) []byte {
			code := uint8(13)
			if e.spec.V.V6 {
				code = 1
			}
			return gen.WrapError(from, e.local, gen.DestUnreach, code, gen.QuoteBytes(p, 1, "fix"), "min", nil, 0)
		}},
		{"syn-ack", is("syn"), func(e *simEnv, p *refmatch.Probe, from netip.Addr) []byte {
			return gen.TCPReply(from, e.local, e.spec.Port, e.lport, 0x66000000, p.Seq+1, wirefmt.TCPSyn|wirefmt.TCPAck, wirefmt.OptMSS(1460), nil, nil)
		}},
		{"rst-ack", is("syn"), func(e *simEnv, p *refmatch.Probe, from netip.Addr) []byte {
			return gen.TCPReply(from, e.local, e.spec.Port, e.lport, 0, p.Seq+1, wirefmt.TCPRst|wirefmt.TCPAck, nil, nil, nil)
		}},
		// the target's proof of arrival behind IP options (CIPSO labels, record route, router alert on the way back): the
		// capture filter the run installed is enforced for these forms, it is on the path the reply takes to the driver
		{"syn-ack-ip-options", is("syn"), func(e *simEnv, p *refmatch.Probe, from netip.Addr) []byte {
			return gen.TCPReply(from, e.local, e.spec.Port, e.lport, 0x66000000, p.Seq+1, wirefmt.TCPSyn|wirefmt.TCPAck, wirefmt.OptMSS(1460), nil, gen.OuterOpts(1+p.TTL%3))
		}},
		{"rst-ack-ip-options", is("syn"), func(e *simEnv, p *refmatch.Probe, from netip.Addr) []byte {
			return gen.TCPReply(from, e.local, e.spec.Port, e.lport, 0, p.Seq+1, wirefmt.TCPRst|wirefmt.TCPAck, nil, nil, gen.OuterOpts(1+p.TTL%3))
		}},
		{"dup-ack-sack-ip-options", is("sack"), func(e *simEnv, p *refmatch.Probe, from netip.Addr) []byte {
			return gen.TCPReply(from, e.local, e.spec.Port, e.lport, 0x51000001, e.isn, wirefmt.TCPAck,
				append([]byte{1, 1}, wirefmt.OptSack([][2]uint32{{e.isn + uint32(p.TTL), e.isn + uint32(p.TTL) + 1}})...), nil, gen.OuterOpts(1+p.TTL%3))
		}},
		// the same proofs of arrival as a physical NIC delivers them: padded by the link layer to the Ethernet minimum (the
		// capture source strips the 14-byte header, the padding stays behind the datagram)
		{"echo-reply-padded", func(v refmatch.Variant) bool { return v.Proto == "icmp" && !v.V6 }, func(e *simEnv, p *refmatch.Probe, from netip.Addr) []byte {
			return padTo46(gen.EchoReply(from, e.local, e.echoID, uint16(p.Seq), []byte{byte(p.TTL)}, nil))
		}},
		{"rst-ack-padded", is("syn"), func(e *simEnv, p *refmatch.Probe, from netip.Addr) []byte {
			return padTo46(gen.TCPReply(from, e.local, e.spec.Port, e.lport, 0, p.Seq+1, wirefmt.TCPRst|wirefmt.TCPAck, nil, nil, nil))
		}},
		{"syn-ack-mss-padded", is("syn"), func(e *simEnv, p *refmatch.Probe, from netip.Addr) []byte {
			return padTo46(gen.TCPReply(from, e.local, e.spec.Port, e.lport, 0x66000000, p.Seq+1, wirefmt.TCPSyn|wirefmt.TCPAck, wirefmt.OptMSS(1460), nil, nil))
		}},
		{"rst", is("syn"), func(e *simEnv, p *refmatch.Probe, from netip.Addr) []byte {
			return gen.TCPReply(from, e.local, e.spec.Port, e.lport, 0, 0, wirefmt.TCPRst, nil, nil, nil)
		}},
		{"syn-ack-other-port", is("syn"), func(e *simEnv, p *refmatch.Probe, from netip.Addr) []byte {
			return gen.TCPReply(from, e.local, e.spec.Port+1, e.lport, 0x66000000, p.Seq+1, wirefmt.TCPSyn|wirefmt.TCPAck, nil, nil, nil)
		}},
		{"dup-ack-sack", is("sack"), func(e *simEnv, p *refmatch.Probe, from netip.Addr) []byte {
			return gen.TCPReply(from, e.local, e.spec.Port, e.lport, 0x51000001, e.isn, wirefmt.TCPAck,
				append([]byte{1, 1}, wirefmt.OptSack([][2]uint32{{e.isn + uint32(p.TTL), e.isn + uint32(p.TTL) + 1}})...), nil, nil)
		}},
		// a duplicate acknowledgement WITHOUT selective-acknowledgement blocks says nothing about which probe arrived: it is no
		// proof of arrival for any TTL (the run may end with "SACK not supported", it may not mark a hop)
		{"plain-dup-ack", is("sack"), func(e *simEnv, p *refmatch.Probe, from netip.Addr) []byte {
			return gen.TCPReply(from, e.local, e.spec.Port, e.lport, 0x51000001, e.isn, wirefmt.TCPAck, nil, nil, nil)
		}},
		{"dup-ack-sack-other-port", is("sack"), func(e *simEnv, p *refmatch.Probe, from netip.Addr) []byte {
			return gen.TCPReply(from, e.local, e.spec.Port+1, e.lport, 0x51000001, e.isn, wirefmt.TCPAck,
				append([]byte{1, 1}, wirefmt.OptSack([][2]uint32{{e.isn + uint32(p.TTL), e.isn + uint32(p.TTL) + 1}})...), nil, nil)
		}},
	}
}

// responder classes of C04
func responders(e *simEnv, ttl int) map[string]netip.Addr {
	v6 := e.spec.V.V6
	off := uniqueAddr(v6, 7000+ttl)
	if ttl%2 == 0 {
		// every other off-path host is a neighbour of the target: same /24 resp. /64, another interface identifier
		b := e.spec.Target.AsSlice()
		b[len(b)-1] ^= byte(1 + ttl%200)
		off, _ = netip.AddrFromSlice(b)
	}
	return map[string]netip.Addr{
		"target":         e.spec.Target,
		"on-path-router": routerAddr(v6, 1, ttl),
		"off-path-host":  off,
		"local-address":  e.local,
	}
}

func checkC04() fw.Check {
	return fw.Check{
		Prop:  "C04",
		Level: "exploration",
		Rule: "table-driven product: variant x reply form (echo reply, time-exceeded, port/admin unreachable, SYN-ACK, RST, RST-ACK, SACK dup-ack, same from another port) x responder class (target, on-path router, off-path host echoing the same identifiers, the local address) x position (before/at/after the true destination distance, path with and without a reachable destination) x arrival order (before or after the genuine reply of that TTL); oracle = reference fold whose destination flag follows the statement's table. " +
			"distinct_nontrivial counts distinct (variant, form, responder, position) tuples whose special frame was read by the tool in a successful run",
		Workers:       16,
		MinNontrivial: 60,
		Assumptions:   []string{"wirefmt/refmatch trusted", "Linux build"},
		Gen: func(tier string, seed int64) []fw.Case {
			wins, bases := []window{{1, 8}, {3, 12}, {250, 255}}, basesQuick
			if tier == "thorough" {
				wins, bases = append([]window{{1, 8}, {3, 12}, {250, 255}, {1, 30}, {2, 9}}, thoroughWindows(seed, 10)[len(windowsThorough):]...), thoroughBases(seed, 3)
			}
			var cases []fw.Case
			for _, v := range refmatch.Variants {
				for _, df := range destForms() {
					if !df.applies(v) {
						continue
					}
					for _, w := range wins {
						for _, b := range bases {
							v, df, w, b := v, df, w, b
							id := fmt.Sprintf("C04/%s/%s/%d-%d/%s", v.Name, df.name, w.first, w.last, b.name)
							cases = append(cases, fw.Case{ID: id, Bubble: true, Run: func(c *fw.Ctx) {
								dists := []int{(w.first + w.last + 1) / 2}
								if tier == "thorough" {
									for d := w.first + 1; d < w.last; d++ {
										if d != dists[0] {
											dists = append(dists, d)
										}
									}
								}
								for _, dist := range dists {
									for _, reach := range []bool{true, false} {
										for _, pos := range []string{"before", "at", "after"} {
											for _, rc := range []string{"target", "on-path-router", "off-path-host", "local-address"} {
												for _, early := range []bool{true, false} {
													at := map[string]int{"before": dist - 1, "at": dist, "after": dist + 1}[pos]
													if at < w.first || at > w.last {
														continue
													}
													tag := fmt.Sprintf("%s reach=%v pos=%s responder=%s early=%v", id, reach, pos, rc, early)
													mode := simnet.FilterOff
													if strings.HasSuffix(df.name, "-ip-options") || fw.Hash32(id)%2 == 0 {
														// half of the cases run with the capture filter the run installs enforced by the wire
														// (the other half sees every frame, like a capture without kernel filtering)
														mode = simnet.FilterEnforce
													}
													sc := scenario{tag: tag, v: v, win: w, b: b, mode: mode, model: func(e *simEnv) *pathModel {
														m := simplePathWin(v, w, dist, reach, 9*time.Millisecond)
														if !v.Serial && early && pos == "at" && rc == "target" && at > w.first {
															// (never the FIRST write of a run: the parallel receiver only starts once the first send
															// has returned, by design, so a reply to the first probe legitimately waits for it)
															// the sender is still inside the write of this probe (150 ms) when its answers are
															// read by the receiver: the probe is on the wire, so its answers count
															e.w.Faults[simnet.FaultKey{Handle: -1, Op: "write", K: at - w.first + 1}] = simnet.Fault{StallAfter: 150 * time.Millisecond}
														}
														m.extra = func(e *simEnv, p *refmatch.Probe) {
															if p.TTL != at {
																return
															}
															d := 4 * time.Millisecond // before the genuine reply of this TTL (>= 9 ms)
															if !early {
																d = 400 * time.Millisecond
															}
															e.inject(df.build(e, p, responders(e, at)[rc]), "special:"+df.name+":"+rc, p, oddUS(d))
														}
														return m
													}}
													out := runScenario(c, sc)
													if out == nil {
														continue
													}
													for i := range out.js {
														if cl := out.js[i].d.Frame.Class; len(cl) > 8 && cl[:8] == "special:" && out.res.Err == nil {
															c.Nontrivial(fmt.Sprintf("%s/%s/%s/%s/reach%v", v.Name, df.name, rc, pos, reach))
															c.Count("special_"+out.js[i].out.Kind.String(), 1)
														}
													}
													if rc == "on-path-router" && pos == "at" && reach && early {
														c.Sample(map[string]any{"case": tag, "result": fmtRun(out.res)})
													}
													out.e.close()
												}
											}
										}
									}
								}
							}})
						}
					}
				}
			}
			cases = append(cases, engineShapeCases("C04")...)
			// single-probe runs (what every end-to-end probe is): a router's time-exceeded for THE probe and the target's
			// proof of arrival for the same probe, in both orders, both well inside the timeout - the entry is the target's
			for _, v := range refmatch.Variants {
				for _, k := range []int{1, 6, 30} {
					for _, order := range []string{"router-first", "target-first"} {
						v, k, order := v, k, order
						id := fmt.Sprintf("C04/single-probe/%s/ttl%d/%s", v.Name, k, order)
						cases = append(cases, fw.Case{ID: id, Bubble: true, Run: func(c *fw.Ctx) {
							w := window{k, k}
							sc := scenario{tag: id, v: v, win: w, b: basesQuick[0], model: func(e *simEnv) *pathModel {
								m := simplePathWin(v, w, k, true, 9*time.Millisecond) // the target answers after 39 ms
								m.extra = func(e *simEnv, p *refmatch.Probe) {
									d := 4 * time.Millisecond
									if order == "target-first" {
										d = 90 * time.Millisecond
									}
									if b := e.hopReply(p, &hopSpec{addr: routerAddr(v.V6, 1, k)}); b != nil {
										e.inject(b, "genuine-hop", p, oddUS(d))
									}
								}
								return m
							}}
							if out := runScenario(c, sc); out != nil {
								if out.res.Err == nil && out.res.Run != nil && len(out.res.Run.Hops) == 1 {
									c.Nontrivial(fmt.Sprintf("single-probe/%s/%s/dest%v", v.Name, order, out.res.Run.Hops[0].IsDest))
								}
								out.e.close()
							}
						}})
					}
				}
			}
			// request level: the end-to-end RTT is the RTT of the hop MARKED as the destination. The target's address
			// answering without proof of arrival (a time-exceeded sent by the target itself for an ICMP or SYN probe, as
			// from a host that also routes) gives a hop under the target's address that is not the destination: the
			// end-to-end sample stays 0, no hop carries the mark
			for _, proto := range []string{"icmp", "tcp"} {
				proto := proto
				id := "C04/e2e-te-from-target/" + proto
				cases = append(cases, fw.Case{ID: id, Bubble: true, Run: func(c *fw.Ctx) { runC04E2eTEFromTarget(c, id, proto) }})
			}
			return cases
		},
	}
}

func runC04E2eTEFromTarget(c *fw.Ctx, id, proto string) {
	resetProcessState()
	v := map[string]refmatch.Variant{"icmp": refmatch.VariantByName("icmp4"), "tcp": refmatch.VariantByName("syn")}[proto]
	target := drive.TargetFor(v, 70+c.Worker)
	params := traceroute.TracerouteParams{Hostname: target.String(), Port: 443, Protocol: proto, MinTTL: 1, MaxTTL: 4, Delay: 5, Timeout: 200 * time.Millisecond,
		TCPMethod: traceroute.TCPConfigSYN, TracerouteQueries: 1, E2eQueries: 3}
	env, err := newReqEnv(c, params, target, 443, false)
	if err != nil {
		c.Inconclusive(err.Error())
		return
	}
	defer env.close()
	env.modelFor = func(k int, e *simEnv) *pathModel {
		m := flowPath(k, e, 0, false, 2*time.Millisecond) // routers at every TTL, the destination never proves arrival
		// ... and the last TTL is answered with a time-exceeded from the target's own address
		m.hops[int(e.spec.MaxTTL)] = &hopSpec{addr: target, delay: 12 * time.Millisecond}
		return m
	}
	out, rerr := env.run(context.Background())
	env.monitors(id)
	if rerr != nil || out == nil {
		c.Violate("C04", "request-failed/e2e-te-from-target", fmt.Sprintf("%s: %v", id, rerr), nil)
		return
	}
	c.Nontrivial("e2e-te-from-target/" + proto)
	for _, run := range out.Traceroute.Runs {
		sawTarget := false
		for _, h := range run.Hops {
			if hopIP(h.IPAddress) == target {
				sawTarget = true
			}
			if h.IsDest {
				c.Violate("C04", "dest-mark/"+v.Name+"/e2e-te-from-target/gottrue", fmt.Sprintf("%s: ttl %d (%v) is marked as the destination; the target only sent a time-exceeded", id, h.TTL, h.IPAddress), fmtHops(&run))
			}
		}
		if !sawTarget {
			c.Inconclusive(id + ": the time-exceeded from the target's address did not become a hop")
		}
	}
	for i, r := range out.E2eProbe.RTTs {
		if r != 0 {
			c.Violate("C04", "e2e-rtt-without-destination/"+proto, fmt.Sprintf("%s: end-to-end sample %d is %v ms although no reply proving arrival came from the target (only a time-exceeded sent from its address): rtts=%v", id, i, r, out.E2eProbe.RTTs), nil)
			break
		}
	}
	c.Count("e2e_samples_checked", len(out.E2eProbe.RTTs))
}

func runC05RealtimeSlowSend(c *fw.Ctx, id string, v refmatch.Variant) {
	spec := defaultSpec(v, 90+c.Worker, 1, 4)
	spec.Timeout, spec.Delay, spec.Poll, spec.HandshakeTimeout = 600*time.Millisecond, 20*time.Millisecond, 50*time.Millisecond, 500*time.Millisecond
	if v.Proto == "sack" {
		spec.Port = uint16(26000 + c.Worker)
	}
	e, err := newSimEnv(c, spec, 0x10000000)
	if err != nil {
		c.Inconclusive(err.Error())
		return
	}
	defer e.close()
	// the 2nd probe's write returns 400 ms after the packet left
	e.w.Faults[simnet.FaultKey{Handle: -1, Op: "write", K: 2}] = simnet.Fault{StallAfter: 400 * time.Millisecond}
	m := &pathModel{hops: map[int]*hopSpec{}}
	for t := 1; t <= 4; t++ {
		m.hops[t] = &hopSpec{addr: routerAddr(v.V6, 1, t), delay: 30 * time.Millisecond}
	}
	res := e.run(m)
	if res.Err != nil || res.Run == nil || len(res.Run.Hops) == 0 {
		c.Inconclusive(fmt.Sprintf("%s: run failed: %v", id, res.Err))
		return
	}
	h := res.Run.Hops[0]
	c.Count("realtime_slow_send_rtt_ms", int(h.RTT))
	c.Sample(map[string]any{"case": id, "hop1_rtt_ms": h.RTT, "reply_delay_ms": 30, "send_stall_ms": 400})
	if len(h.IPAddress) == 0 {
		c.Inconclusive(id + ": hop 1 empty")
		return
	}
	c.Nontrivial("realtime-slow-send/" + v.Name)
	if h.RTT > 230 {
		c.Violate("C05", "rtt-waits-for-sender/"+v.Name, fmt.Sprintf("%s: the reply to probe 1 arrived 30 ms after the probe while the send of probe 2 was blocked for 400 ms; reported RTT %.1f ms (real clock; tolerance: one poll interval of 50 ms + 150 ms slack)", id, h.RTT), fmtRun(res))
	}
}

// clockStepMu: one wall-clock step at a time (the steps are relative, but two overlapping cases would see each other's).
var clockStepMu sync.Mutex

// runC05RealtimeClockStep (REAL clock): the system's wall clock is set back by two seconds 10 ms after the first probe left
// (an NTP step, a VM resume, `date -s`) and put forward again after the run. An RTT is elapsed time: it is neither
// negative nor longer than the run took. On the virtual clock wall and monotonic time move together, so only this
// real-clock case can see a send instant that lost its monotonic reading. Needs CAP_SYS_TIME; without it nothing is judged.
func runC05RealtimeClockStep(c *fw.Ctx, id string, v refmatch.Variant) {
	clockStepMu.Lock()
	defer clockStepMu.Unlock()
	step := func(d time.Duration) error {
		var ts unix.Timespec
		if err := unix.ClockGettime(unix.CLOCK_REALTIME, &ts); err != nil {
			return err
		}
		t := time.Unix(int64(ts.Sec), int64(ts.Nsec)).Add(d)
		nts := unix.NsecToTimespec(t.UnixNano())
		return unix.ClockSettime(unix.CLOCK_REALTIME, &nts)
	}
	if err := step(0); err != nil {
		c.Count("clock_step_not_permitted", 1)
		return
	}
	spec := defaultSpec(v, 110+c.Worker, 1, 4)
	spec.Timeout, spec.Delay, spec.Poll, spec.HandshakeTimeout = 500*time.Millisecond, 20*time.Millisecond, 50*time.Millisecond, 500*time.Millisecond
	if v.Proto == "sack" {
		spec.Port = uint16(28000 + c.Worker)
	}
	e, err := newSimEnv(c, spec, 0x10000000)
	if err != nil {
		c.Inconclusive(err.Error())
		return
	}
	defer e.close()
	m := &pathModel{hops: map[int]*hopSpec{}, dist: 4, destDelay: 80 * time.Millisecond}
	for t := 1; t < 4; t++ {
		m.hops[t] = &hopSpec{addr: routerAddr(v.V6, 1, t), delay: 80 * time.Millisecond}
	}
	var once sync.Once
	stepped := make(chan error, 1)
	m.extra = func(e *simEnv, p *refmatch.Probe) {
		once.Do(func() { time.AfterFunc(10*time.Millisecond, func() { stepped <- step(-2 * time.Second) }) })
	}
	t0 := time.Now()
	res := e.run(m)
	el := time.Since(t0) // monotonic
	select {
	case err := <-stepped:
		if err == nil {
			step(2 * time.Second)
		}
	case <-time.After(time.Second):
	}
	if res.Err != nil || res.Run == nil {
		c.Inconclusive(fmt.Sprintf("%s: run failed: %v", id, res.Err))
		return
	}
	c.Nontrivial("realtime-clock-step/" + v.Name)
	for _, h := range res.Run.Hops {
		if len(h.IPAddress) == 0 {
			continue
		}
		c.Count("rtt_checked_across_clock_step", 1)
		if h.RTT < 0 || h.RTT > msOf(el)+1 {
			c.Violate("C05", "rtt-follows-wall-clock/"+v.Name, fmt.Sprintf("%s: hop %d reports an RTT of %.3f ms; the whole run took %.3f ms and the wall clock was set back by 2 s while the probes were outstanding", id, h.TTL, h.RTT, msOf(el)), fmtRun(res))
			return
		}
	}
}

func padTo46(b []byte) []byte {
	for len(b) < 46 {
		b = append(b, 0)
	}
	return b
}

// engineShapeCases: both engines behind the scripted driver (replies for any TTL in any order, destination replies for
// several TTLs, a router's and the destination's reply for one TTL) judged by the shape / stop-rule oracle (used by C04 for
// "only the destination's proof of arrival marks a hop, and it does so even when a router answered that TTL first" and by
// C06 for the stop rule).
func engineShapeCases(prop string) []fw.Case {
	var cases []fw.Case
	for _, par := range []bool{true, false} {
		for _, pr := range [][2]int{{1, 8}, {3, 12}, {1, 30}, {250, 255}, {2, 9}} {
			par, pr := par, pr
			id := fmt.Sprintf("%s/engine/%s/%d-%d", prop, engName(par), pr[0], pr[1])
			cases = append(cases, fw.Case{ID: id, Bubble: true, Run: func(c *fw.Ctx) {
				for k := 0; k < 12; k++ {
					p := engParams{first: uint8(pr[0]), last: uint8(pr[1]), timeout: 100 * time.Millisecond, poll: 20 * time.Millisecond, delay: 10 * time.Millisecond}
					d := scripted.New(par, genShapeScript(c.Rng, par, p))
					res, err := runEngine(context.Background(), par, d, p)
					checkShape(c, fmt.Sprintf("%s rep %d", id, k), par, p, d.Snapshot(), res, err)
				}
				c.Nontrivial(fmt.Sprintf("engine/%s/%d-%d", engName(par), pr[0], pr[1]))
			}})
		}
	}
	return cases
}

// objectReuseCases: one protocol object, three runs, the capture filter of each run enforced (used by C06 and C12).
func objectReuseCases(prop string) []fw.Case {
	var cases []fw.Case
	for _, vn := range []string{"syn", "synP", "synPR", "udp4", "udp6"} {
		for _, t16 := range []bool{false, true} {
			vn, t16 := vn, t16
			if t16 && vn == "udp6" {
				continue
			}
			id := fmt.Sprintf("%s/object-reuse/%s/target16-%v", prop, vn, t16)
			cases = append(cases, fw.Case{ID: id, Bubble: true, Run: func(c *fw.Ctx) {
				v := refmatch.VariantByName(vn)
				var obj any
				for k := 0; k < 3; k++ {
					w := window{1, 6}
					sc := scenario{tag: fmt.Sprintf("%s run %d on the same object", id, k+1), v: v, win: w, b: basesQuick[0], mode: simnet.FilterEnforce,
						spec:  func(s *drive.Spec) { s.Obj, s.Target16 = &obj, t16 },
						model: func(e *simEnv) *pathModel { return simplePathWin(v, w, 4, true, 7*time.Millisecond) }}
					out := runScenario(c, sc)
					if out == nil {
						return
					}
					if out.res.Err == nil && len(out.flow.Probes) >= 2 {
						c.Nontrivial(fmt.Sprintf("object-reuse/%s/t16%v/run%d", vn, t16, k+1))
					}
					out.e.close()
				}
			}})
		}
	}
	return cases
}

// simplePathWin: routers at every TTL of the window below dist, destination at dist (if reach).
func simplePathWin(v refmatch.Variant, w window, dist int, reach bool, base time.Duration) *pathModel {
	m := &pathModel{hops: map[int]*hopSpec{}}
	last := w.last
	if reach {
		m.dist = dist
		last = dist - 1
	}
	for t := w.first; t <= last; t++ {
		m.hops[t] = &hopSpec{addr: routerAddr(v.V6, 1, t), delay: base + time.Duration(t-w.first)*time.Millisecond}
	}
	m.destDelay = base + 30*time.Millisecond
	return m
}

// ---------------------------------------------------------------------------------------------
// C05

type delayPlan struct {
	name string
	f    func(i, n int) (time.Duration, []time.Duration)
}

// randomDelayPlans: k seed-determined plans mixing sub-millisecond, millisecond and near-budget delays per hop, some
// hops with a later duplicate.
func randomDelayPlans(budget time.Duration, seed int64, k int) []delayPlan {
	var out []delayPlan
	for j := 0; j < k; j++ {
		j := j
		out = append(out, delayPlan{fmt.Sprintf("rand%d", j), func(i, n int) (time.Duration, []time.Duration) {
			r := rand.New(rand.NewSource(seed*1000003 + int64(j)*977 + int64(i)))
			var d time.Duration
			switch r.Intn(5) {
			case 0:
				d = time.Duration(10+r.Intn(900)) * time.Microsecond
			case 1:
				d = budget - time.Duration(1+r.Intn(40))*time.Millisecond
			default:
				d = time.Duration(1+r.Intn(400))*time.Millisecond + time.Duration(r.Intn(1000))*time.Microsecond
			}
			var dups []time.Duration
			if r.Intn(4) == 0 {
				dups = []time.Duration{d + time.Duration(1+r.Intn(300))*time.Millisecond}
			}
			return d, dups
		}})
	}
	return out
}

func delayPlans(budget time.Duration) []delayPlan {
	ms := time.Millisecond
	return []delayPlan{
		{"monotone", func(i, n int) (time.Duration, []time.Duration) { return time.Duration(3+7*i) * ms, nil }},
		{"decreasing", func(i, n int) (time.Duration, []time.Duration) { return time.Duration(5+90*(n-i)) * ms, nil }},
		{"equal", func(i, n int) (time.Duration, []time.Duration) { return 40 * ms, nil }},
		{"sawtooth", func(i, n int) (time.Duration, []time.Duration) { return time.Duration(10+170*(i%3)) * ms, nil }},
		{"near-budget", func(i, n int) (time.Duration, []time.Duration) { return budget - time.Duration(1+i)*ms, nil }},
		{"dup-larger", func(i, n int) (time.Duration, []time.Duration) {
			return time.Duration(20+3*i) * ms, []time.Duration{time.Duration(120+3*i) * ms, time.Duration(333) * ms}
		}},
		{"sub-ms", func(i, n int) (time.Duration, []time.Duration) { return time.Duration(37+i) * time.Microsecond, nil }},
		// a very fast hop, then one that takes most of (but less than) the per-probe timeout, alternating: how long the
		// previous hop took says nothing about how long this one may take
		{"fast-then-slow", func(i, n int) (time.Duration, []time.Duration) {
			if i%2 == 0 {
				return 8 * ms, nil
			}
			return budget - 120*ms, nil
		}},
		{"multi-delay", func(i, n int) (time.Duration, []time.Duration) { return time.Duration(260+251*i) * ms, nil }},
		// parallel variants: the first ten hops answer inside the LAST poll interval before the listening deadline
		// (delays are computed in the model from the run's own timeout and send delay); serial variants: ordinary
		{"last-poll", func(i, n int) (time.Duration, []time.Duration) { return time.Duration(15+4*i) * ms, nil }},
		// three malformed packets (time-exceeded quoting only 4 transport bytes) are queued just ahead of every reply:
		// skipping them costs no time, the RTT is still arrival minus send
		{"bad-ahead", func(i, n int) (time.Duration, []time.Duration) { return time.Duration(20+3*i) * ms, nil }},
		// the reply leaves its own (serial) window and is read while a later probe is outstanding
		{"window-crossing", func(i, n int) (time.Duration, []time.Duration) {
			return budget + 250*ms + 150*ms + time.Duration(7*i)*ms, nil
		}},
	}
}

func checkC05() fw.Check {
	return fw.Check{
		Prop:  "C05",
		Level: "exploration",
		Rule: "one case = (variant, delay plan, timing scale): per-hop delay assignments (monotone, strictly decreasing so replies overtake, equal, saw-tooth, near the listening budget, duplicates with larger delay, sub-millisecond, multiples of the send delay) at production scale (3 s / 50 ms / 100 ms) and at a discriminating scale (send delay 250 ms > poll 100 ms); the reported RTT of every hop is compared with (instant the first accepted reply was read - instant that TTL's probe was handed to Sink.WriteTo) on the virtual clock; plus RunTraceroute with end-to-end probes: rtts[i] must equal the destination-hop RTT of probe i (0 when unanswered). " +
			"distinct_nontrivial counts distinct (variant, plan, scale, destination reached) tuples with at least 2 RTTs checked",
		Workers:       16,
		MinNontrivial: 60,
		Assumptions:   []string{"virtual clock of testing/synctest: no time passes between time.Now() in SendProbe and Sink.WriteTo, so a send timestamp taken after WriteTo is not detectable", "Linux build"},
		Gen: func(tier string, seed int64) []fw.Case {
			wins := []window{{1, 8}, {3, 12}, {250, 255}}
			if tier == "thorough" {
				wins = append([]window{{1, 8}, {3, 12}, {250, 255}, {1, 30}, {2, 17}, {1, 64}}, thoroughWindows(seed, 24)[len(windowsThorough):]...)
			}
			var cases []fw.Case
			// end-to-end clause: whole requests (1 run + e probes); every sample must be the destination-hop RTT of its own probe
			for i, proto := range []string{"udp", "icmp", "tcp"} {
				for _, e := range []int{1, 3, 5} {
					for _, reach := range []bool{true, false} {
						for perm := 0; perm < 3; perm++ {
							rq := c15Req{proto: proto, q: 1, e: e, fetcher: "none", delayPerm: perm + i, reach: reach, cancelAt: -1}
							id := fmt.Sprintf("C05/e2e/%s/e%d/reach%v/%d", proto, e, reach, perm)
							cases = append(cases, fw.Case{ID: id, Bubble: true, Run: func(c *fw.Ctx) {
								runC15Case(c, id, rq)
								c.Nontrivial(fmt.Sprintf("e2e/%s/e%d/reach%v", rq.proto, rq.e, rq.reach))
							}})
						}
					}
				}
			}
			for i, proto := range []string{"icmp", "udp", "tcp"} {
				// replies slower than the spacing of the end-to-end probes: a reply to probe k arrives while probe k+1 is outstanding
				rq := c15Req{proto: proto, q: 1, e: 8, fetcher: "none", delayPerm: i, reach: true, cancelAt: -1, slowDest: 500 * time.Millisecond}
				id := fmt.Sprintf("C05/e2e-overlap/%s", proto)
				cases = append(cases, fw.Case{ID: id, Bubble: true, Run: func(c *fw.Ctx) { runC15Case(c, id, rq); c.Nontrivial("e2e-overlap/" + rq.proto) }})
			}
			for i, proto := range []string{"icmp", "udp"} {
				// the target's answer takes longer than the per-probe timeout (600 ms) and still arrives inside the single
				// probe's listening window (timeout + one pause of 20 ms): the sample is that RTT, as the hop's is
				rq := c15Req{proto: proto, q: 1, e: 3, fetcher: "none", delayPerm: i, reach: true, cancelAt: -1, slowDest: 608 * time.Millisecond}
				id := fmt.Sprintf("C05/e2e-slower-than-timeout/%s", proto)
				cases = append(cases, fw.Case{ID: id, Bubble: true, Run: func(c *fw.Ctx) { runC15Case(c, id, rq); c.Nontrivial("e2e-slower-than-timeout/" + rq.proto) }})
			}
			for _, fwTTL := range []int{2, 3, 5} {
				// a firewall on the path rejects the probes (destination-unreachable), the destination stays silent: no end-to-end answer
				rq := c15Req{proto: "udp", q: 1, e: 3, fetcher: "none", reach: true, cancelAt: -1, firewall: fwTTL}
				id := fmt.Sprintf("C05/e2e-firewall/ttl%d", fwTTL)
				cases = append(cases, fw.Case{ID: id, Bubble: true, Run: func(c *fw.Ctx) { runC15Case(c, id, rq); c.Nontrivial(fmt.Sprintf("e2e-firewall/%d", rq.firewall)) }})
			}
			// real clock: a send that blocks in the kernel for 400 ms while the reply to the previous probe arrives. On
			// the virtual clock a receiver that has to wait for the sender (e.g. on a lock held across the write) cannot
			// be timed - the bubble stalls instead (the case watchdog then ends the run as inconclusive); here it shows
			// up as an RTT of ~400 ms for a reply that arrived after 30 ms. Threshold 230 ms (30 + one poll of 50 + 150
			// ms of scheduling slack on a loaded machine).
			// "0 meaning no answer": a time-exceeded from the target's own address for the end-to-end probe's TTL is a hop under
			// that address, not an answer of the destination - the sample stays 0 (shared with C04)
			for _, proto := range []string{"icmp", "tcp"} {
				proto := proto
				id := "C05/e2e-te-from-target/" + proto
				cases = append(cases, fw.Case{ID: id, Bubble: true, Run: func(c *fw.Ctx) { runC04E2eTEFromTarget(c, id, proto) }})
			}
			for _, vn := range []string{"udp4", "icmp4", "syn", "sackR", "udp6"} {
				vn := vn
				id := "C05/realtime-clock-step/" + vn
				cases = append(cases, fw.Case{ID: id, Run: func(c *fw.Ctx) { runC05RealtimeClockStep(c, id, refmatch.VariantByName(vn)) }})
			}
			for _, vn := range []string{"icmp4", "udp4", "sackR"} {
				vn := vn
				id := "C05/realtime-slow-send/" + vn
				cases = append(cases, fw.Case{ID: id, Run: func(c *fw.Ctx) { runC05RealtimeSlowSend(c, id, refmatch.VariantByName(vn)) }})
			}
			// SACK across the 32-bit wrap: the connection's initial sequence number is such that the first probe that reaches
			// the target sits just below 2^32 and the later ones just above 0; that first probe's acknowledgement is lost,
			// the next probe is lost on the way, so the first acknowledgement the tool reads carries two blocks, one on each
			// side of the wrap. The lowest RELATIVE left edge names the probe: hop = first probe that reached the target,
			// RTT = read instant - that probe's send instant.
			for _, v := range refmatch.Variants {
				if v.Proto != "sack" {
					continue
				}
				for _, dist := range []int{2, 3, 5} {
					v, dist := v, dist
					id := fmt.Sprintf("C05/%s/sack-blocks-across-wrap/dist%d", v.Name, dist)
					cases = append(cases, fw.Case{ID: id, Bubble: true, Run: func(c *fw.Ctx) {
						b := base{name: "across-wrap", echoID: 0x1233, ipid: 0x5000, isn: uint32(0xffffffff - uint32(dist)), tcpSeq: u32(0x12345678)}
						sc := scenario{tag: id, v: v, win: window{1, 8}, b: b, model: func(e *simEnv) *pathModel {
							m := &pathModel{hops: map[int]*hopSpec{}, dist: dist, destDelay: 40 * time.Millisecond, lost: map[int]bool{dist + 1: true}}
							for t := 1; t < dist; t++ {
								m.hops[t] = &hopSpec{addr: routerAddr(v.V6, 1, t), delay: time.Duration(10+3*t) * time.Millisecond}
							}
							m.destBuild = func(e *simEnv, p *refmatch.Probe) []byte {
								if p.TTL == dist {
									return nil // the acknowledgement of the first probe that arrived is lost
								}
								return e.destReply(p)
							}
							return m
						}}
						out := runScenario(c, sc)
						if out == nil {
							return
						}
						defer out.e.close()
						if out.res.Err == nil && out.res.Run != nil && len(out.res.Run.Hops) == dist {
							c.Nontrivial(fmt.Sprintf("%s/sack-blocks-across-wrap/%d", v.Name, dist))
						}
					}})
				}
			}
			for _, v := range refmatch.Variants {
				for _, scale := range []string{"prod", "discr"} {
					for _, w := range wins {
						v, scale, w := v, scale, w
						budget := 3 * time.Second
						if v.Serial {
							budget = time.Second
						}
						plans := delayPlans(budget - 250*time.Millisecond)
						if tier == "thorough" {
							plans = append(plans, randomDelayPlans(budget-250*time.Millisecond, seed, 150)...)
						}
						for _, dp := range plans {
							dp := dp
							id := fmt.Sprintf("C05/%s/%s/%s/%d-%d", v.Name, dp.name, scale, w.first, w.last)
							cases = append(cases, fw.Case{ID: id, Bubble: true, Run: func(c *fw.Ctx) {
								for _, reach := range []bool{true, false} {
									n := w.last - w.first + 1
									dist := w.first + n*2/3
									sc := scenario{tag: fmt.Sprintf("%s reach=%v", id, reach), v: v, win: w, b: basesQuick[0],
										spec: func(s *drive.Spec) {
											if scale == "discr" {
												s.Delay = 250 * time.Millisecond
											}
										},
										model: func(e *simEnv) *pathModel {
											m := &pathModel{hops: map[int]*hopSpec{}}
											last := w.last
											if reach {
												m.dist = dist
												last = dist - 1
											}
											for t := w.first; t <= last; t++ {
												d, dups := dp.f(t-w.first, n)
												if v.Serial {
													dups = nil
													if dp.name != "window-crossing" && d >= e.spec.Timeout-150*time.Millisecond {
														d = e.spec.Timeout - 150*time.Millisecond - time.Duration(t)*time.Millisecond
													}
												}
												if dp.name == "last-poll" && !v.Serial && t-w.first < 10 {
													// arrival = first send + timeout + n*delay - (5+9k) ms: between the last poll boundary and the deadline
													d = e.spec.Timeout + time.Duration(n)*e.spec.Delay - time.Duration(t-w.first)*e.spec.Delay - time.Duration(5+9*(t-w.first))*time.Millisecond
												}
												m.hops[t] = &hopSpec{addr: routerAddr(v.V6, 1, t), delay: d, dups: dups}
											}
											dd, _ := dp.f(0, n) // destination faster than the routers in most plans
											if v.Serial && dp.name != "window-crossing" && dd >= e.spec.Timeout-150*time.Millisecond {
												dd = e.spec.Timeout - 200*time.Millisecond
											}
											m.destDelay = dd
											if !v.Serial && reach && (dp.name == "equal" || dp.name == "sawtooth") {
												// the destination's answer to the first probe that reached it is its slowest (a listener that
												// wakes up, an ARP resolution behind it); its answers to the following probes are 260 ms
												// faster. The destination hop's RTT is that of ITS probe, not the best of the samples
												first := dist
												m.destDelayFor = func(ttl int) time.Duration {
													if ttl == first {
														return dd + 260*time.Millisecond
													}
													return dd
												}
											}
											if !v.Serial {
												// (a) one send returns late: the sender sits 150 ms (more than a poll interval) inside the write
												// after the packet left; the RTT reference is the hand-off, not the return
												e.w.Faults[simnet.FaultKey{Handle: -1, Op: "write", K: 2}] = simnet.Fault{StallAfter: 150 * time.Millisecond}
												// (b) after the destination's reply for its TTL was accepted, a slower router on another
												// path answers the same probe: the first accepted reply keeps the hop and its RTT
												if reach {
													m.extra = func(e *simEnv, p *refmatch.Probe) {
														if p.TTL == dist {
															e.inject(gen.WrapError(routerAddr(v.V6, 2, p.TTL), e.local, gen.TimeExceeded, 0, gen.QuoteBytes(p, 1, "fix"), "min", nil, 0),
																"late-router-same-ttl", p, oddUS(dd+333*time.Millisecond))
														}
													}
												}
											}
											if dp.name == "bad-ahead" {
												prev := m.extra
												m.extra = func(e *simEnv, p *refmatch.Probe) {
													if prev != nil {
														prev(e, p)
													}
													q := gen.QuoteBytes(p, 1, "fix")
													cut := 24
													if v.V6 {
														cut = 44
													}
													if len(q) > cut {
														q = q[:cut]
													}
													d, _ := dp.f(p.TTL-w.first, n)
													for k := 0; k < 3; k++ {
														e.inject(gen.WrapError(routerAddr(v.V6, 3, p.TTL), e.local, gen.TimeExceeded, 0, q, "min", nil, 0), "noise:short-quote", p, oddUS(d-time.Duration(900-k*100)*time.Microsecond))
													}
												}
											}
											if dp.name == "window-crossing" && v.Proto == "syn" {
												// a closed port answers RST-ACK
												m.destBuild = func(e *simEnv, p *refmatch.Probe) []byte {
													return gen.TCPReply(e.spec.Target, e.local, e.spec.Port, e.lport, 0, p.Seq+1, wirefmt.TCPRst|wirefmt.TCPAck, nil, nil, nil)
												}
											}
											return m
										}}
									out := runScenario(c, sc)
									if out == nil {
										continue
									}
									n2 := 0
									if out.res.Err == nil {
										for _, h := range out.res.Run.Hops {
											if len(h.IPAddress) > 0 {
												n2++
											}
										}
									}
									if n2 >= 2 {
										c.Nontrivial(fmt.Sprintf("%s/%s/%s/reach%v", v.Name, dp.name, scale, reach))
									}
									if reach {
										c.Sample(map[string]any{"case": sc.tag, "result": fmtRun(out.res)})
									}
									out.e.close()
								}
							}})
						}
					}
				}
			}
			return cases
		},
	}
}

// ---------------------------------------------------------------------------------------------
// C06

func checkC06() fw.Check {
	return fw.Check{
		Prop:  "C06",
		Level: "exploration",
		Rule: "one case = (variant, TTL window incl. 1..255, identifier base incl. wrap points, destination behaviour): every packet handed to Sink.WriteTo is decoded and verified by the independent wirefmt codec (version, lengths, IPv4/ICMP/ICMPv6/UDP/TCP checksums with pseudo header, TTL = first+k, protocol, flags, options) and the emission sequence by an automaton (one probe per TTL, increasing, spacing >= delay on the virtual clock also after an injected slow send, constant flow, pairwise distinct per-probe identifiers, <=1 (parallel) / 0 (serial) probes after the destination reply was handed to the driver, reported endpoints = wire endpoints). " +
			"distinct_nontrivial counts distinct (variant, window, base, destination-instant class) tuples in which at least 2 probes were verified",
		Workers:       16,
		MinNontrivial: 60,
		Assumptions:   []string{"wirefmt is the independent verifier (cross-validated by the kernel routers of C13)", "Paris-mode identifiers are random: collisions are counted, not flagged", "Linux build"},
		Gen: func(tier string, seed int64) []fw.Case {
			wins, bases := windowsThorough, basesThorough[:3]
			if tier == "thorough" {
				wins, bases = thoroughWindows(seed, 30), thoroughBases(seed, 10)
			}
			var cases []fw.Case
			// checksum hunt: the UDP source port is chosen by the kernel, so the probe bytes (and their checksum) differ
			// from run to run; many full-window runs sweep the checksum space (a computed checksum of 0 must go out as 0xffff)
			hunts := 24
			if tier == "thorough" {
				hunts = 1500
			}
			for i := 0; i < hunts; i++ {
				for _, vn := range []string{"udp6", "udp4"} {
					v := refmatch.VariantByName(vn)
					id := fmt.Sprintf("C06/checksum-hunt/%s/%d", vn, i)
					cases = append(cases, fw.Case{ID: id, Bubble: true, Run: func(c *fw.Ctx) {
						for k := 0; k < 40; k++ {
							sc := scenario{tag: fmt.Sprintf("%s run %d", id, k), v: v, win: window{1, 255}, b: basesQuick[0],
								spec: func(s *drive.Spec) {
									s.Timeout = 20 * time.Millisecond
									s.Delay = time.Millisecond
									s.Port = uint16(33434 + k)
								},
								model: func(e *simEnv) *pathModel { return &pathModel{hops: map[int]*hopSpec{}} }}
							if out := runScenario(c, sc); out != nil {
								out.e.close()
							}
						}
						c.Nontrivial("checksum-hunt/" + vn)
					}})
				}
			}
			for _, v := range refmatch.Variants {
				for _, w := range wins {
					for _, b := range bases {
						v, w, b := v, w, b
						id := fmt.Sprintf("C06/%s/%d-%d/%s", v.Name, w.first, w.last, b.name)
						cases = append(cases, fw.Case{ID: id, Bubble: true, Run: func(c *fw.Ctx) {
							n := w.last - w.first + 1
							// destination-instant classes: never / between sends / exactly at a send instant (declared tie) / immediately
							type dcls struct {
								name  string
								dist  int
								delay func(s drive.Spec) time.Duration
								stall bool
							}
							mid := w.first + n/2
							classes := []dcls{
								{"never", 0, nil, false},
								{"between-sends", mid, func(s drive.Spec) time.Duration { return s.Delay*3 + s.Delay/2 }, false},
								{"at-send-instant", mid, func(s drive.Spec) time.Duration { return s.Delay * 2 }, false},
								{"immediately", w.first, func(s drive.Spec) time.Duration { return time.Millisecond }, false},
								{"slow-send", 0, nil, true},
								// listening timeout far below the send delay (30 ms / 250 ms) with silent hops: the next probe may
								// only leave a full send delay after the previous one, however early the wait for a reply ended
								{"short-timeout", 0, nil, false},
								// a router on a second path answers the destination's TTL first (time-exceeded), the destination's
								// own reply for that TTL comes later and replaces it: that reply, too, ends the sending
								{"dest-after-router-same-ttl", mid, func(s drive.Spec) time.Duration { return s.Delay + s.Delay/2 }, false},
								// a filtering target: its answer is "administratively prohibited" (UDP variants; the default form for the
								// others). It is the destination's answer all the same: nothing is sent after it
								{"filtering-target", mid, func(s drive.Spec) time.Duration { return s.Delay*2 + s.Delay/2 }, false},
							}
							if n > 100 && tier != "thorough" {
								classes = classes[:2]
							}
							for _, dc := range classes {
								dc := dc
								sc := scenario{tag: id + " dest=" + dc.name, v: v, win: w, b: b,
									spec: func(s *drive.Spec) {
										if n > 100 {
											s.Timeout = 500 * time.Millisecond
											if v.Serial {
												s.Timeout = 200 * time.Millisecond
											}
										}
										if dc.name == "short-timeout" {
											s.Timeout, s.Delay = 30*time.Millisecond, 250*time.Millisecond
										}
									},
									model: func(e *simEnv) *pathModel {
										m := &pathModel{hops: map[int]*hopSpec{}}
										if dc.dist > 0 {
											m.dist = dc.dist
											d := dc.delay(e.spec)
											if dc.name == "at-send-instant" {
												// deliver exactly at a send instant: bypass the odd-microsecond rule
												m.destBuild = func(e *simEnv, p *refmatch.Probe) []byte {
													if p.TTL == dc.dist {
														e.w.Deliver(e.w.NewFrame(e.destReply(p), "genuine-dest", p), d, nil)
													}
													return nil
												}
											} else {
												m.destDelay = d
											}
										}
										for t := w.first; t <= w.last && (dc.dist == 0 || t < dc.dist); t++ {
											if t%3 != 0 {
												m.hops[t] = &hopSpec{addr: routerAddr(v.V6, 1, t), delay: time.Duration(5+t%50) * time.Millisecond}
											}
										}
										if dc.name == "filtering-target" && v.Proto == "udp" {
											code := uint8(13)
											if v.V6 {
												code = 1
											}
											m.destBuild = func(e *simEnv, p *refmatch.Probe) []byte {
												return gen.WrapError(e.spec.Target, e.local, gen.DestUnreach, code, gen.QuoteBytes(p, 1, "fix"), "min", nil, 0)
											}
										}
										if dc.name == "dest-after-router-same-ttl" && !v.Serial {
											m.extra = func(e *simEnv, p *refmatch.Probe) {
												if p.TTL == dc.dist {
													e.inject(gen.WrapError(routerAddr(v.V6, 2, p.TTL), e.local, gen.TimeExceeded, 0, gen.QuoteBytes(p, 1, "fix"), "min", nil, 0),
														"early-router-same-ttl", p, oddUS(3*time.Millisecond))
												}
											}
										}
										if dc.stall {
											// the 3rd write takes five send delays
											e.w.Faults[simnet.FaultKey{Handle: -1, Op: "write", K: 3}] = simnet.Fault{Stall: 5 * e.spec.Delay}
										}
										return m
									}}
								out := runScenario(c, sc)
								if out == nil {
									continue
								}
								if len(out.flow.Probes) >= 2 || n == 1 {
									c.Nontrivial(fmt.Sprintf("%s/%d-%d/%s/%s", v.Name, w.first, w.last, b.name, dc.name))
								}
								if dc.name == "between-sends" && len(out.flow.Probes) > 0 {
									c.Sample(map[string]any{"case": sc.tag, "probes": len(out.flow.Probes), "first_probe_hex": fmt.Sprintf("%x", out.flow.Probes[0].Raw)})
								}
								out.e.close()
							}
						}})
					}
				}
			}
			// one protocol object, several runs (a library caller that keeps its *tcp.TCPv4 / *udp.UDPv4 around): every run
			// reserves its own source port and installs its own filter - probes, filter and reported endpoints of run k are
			// all run k's. And the IPv4 target handed over in its 16-byte form (what net.ParseIP returns).
			cases = append(cases, objectReuseCases("C06")...)
			// the stop rule at the engine boundary (scripted driver, both engines): a destination reply for ANY TTL - also one
			// that is credited to an earlier probe than the one being waited for - ends the sending
			cases = append(cases, engineShapeCases("C06")...)
			// whole requests: the endpoints reported by RunTraceroute vs the wire, with the port omitted (documented
			// default) and given, both families
			for _, proto := range []string{"udp", "tcp", "icmp"} {
				for _, port := range []int{0, 8080, 33434} {
					for _, v6 := range []bool{false, true} {
						proto, port, v6 := proto, port, v6
						cases = append(cases, fw.Case{ID: fmt.Sprintf("C06/request/%s/port%d/v6%v", proto, port, v6), Bubble: true, Run: func(c *fw.Ctx) {
							runC06Request(c, c.ID, proto, port, v6)
						}})
					}
				}
			}
			return cases
		},
	}
}

func runC06Request(c *fw.Ctx, id, proto string, port int, v6 bool) {
	resetProcessState()
	vn := map[string]string{"udp": "udp4", "tcp": "syn", "icmp": "icmp4"}[proto]
	if v6 {
		vn = map[string]string{"udp": "udp6", "tcp": "syn", "icmp": "icmp6"}[proto]
		if proto == "tcp" {
			return // the TCP variants are IPv4 only
		}
	}
	v := refmatch.VariantByName(vn)
	target := drive.TargetFor(v, 40+c.Worker)
	params := traceroute.TracerouteParams{Hostname: target.String(), Port: port, Protocol: proto, MinTTL: 1, MaxTTL: 5, Delay: 75, Timeout: 60 * time.Millisecond,
		TCPMethod: traceroute.TCPConfigSYN, WantV6: v6, TracerouteQueries: 2, E2eQueries: 2}
	wire := port
	if wire == 0 {
		wire = 33434
	}
	env, err := newReqEnv(c, params, target, uint16(wire), false)
	if err != nil {
		c.Inconclusive(err.Error())
		return
	}
	defer env.close()
	env.modelFor = func(k int, e *simEnv) *pathModel { return flowPath(k, e, 4, true, 300*time.Microsecond) }
	res, rerr := env.run(context.Background())
	env.monitors(id)
	if rerr != nil {
		c.Violate("C06", "request-failed", fmt.Sprintf("%s: fault-free request failed: %v", id, rerr), nil)
		return
	}
	env.judgeRuns(res, id)
	c.Nontrivial(fmt.Sprintf("request/%s/port%d/v6%v", proto, port, v6))
}
