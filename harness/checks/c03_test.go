package checks

import (
	"context"
	"fmt"
	"math/rand"
	"net/netip"
	"time"

	"github.com/DataDog/datadog-traceroute/common"
	"github.com/DataDog/datadog-traceroute/traceroute"

	"verif/harness/drive"
	"verif/harness/fw"
	"verif/harness/gen"
	"verif/harness/refmatch"
	"verif/harness/scripted"
	"verif/harness/wirefmt"
)

func init() { register("C03", checkC03) }

type engParams struct {
	first, last          uint8
	timeout, poll, delay time.Duration
}

func (p engParams) tp() common.TracerouteParams {
	return common.TracerouteParams{MinTTL: p.first, MaxTTL: p.last, TracerouteTimeout: p.timeout, PollFrequency: p.poll, SendDelay: p.delay}
}

func runEngine(ctx context.Context, parallel bool, d *scripted.Driver, p engParams) ([]*common.ProbeResponse, error) {
	if parallel {
		return common.TracerouteParallel(ctx, d, common.TracerouteParallelParams{TracerouteParams: p.tp()})
	}
	return common.TracerouteSerial(ctx, d, common.TracerouteSerialParams{TracerouteParams: p.tp()})
}

func hopAddr(ttl uint8, k int) netip.Addr {
	return netip.AddrFrom4([4]byte{10, byte(k), 0, ttl})
}

// genShapeScript draws a network behaviour for C03: answered subset, 0..3 destination TTLs,
// duplicates, late replies, shuffled arrival.
func genShapeScript(r *rand.Rand, parallel bool, p engParams) []scripted.Reply {
	n := int(p.last) - int(p.first) + 1
	var script []scripted.Reply
	answerP := []float64{0, 0.3, 0.7, 1}[r.Intn(4)]
	ndest := r.Intn(4)
	destSet := map[int]bool{}
	for i := 0; i < ndest; i++ {
		destSet[int(p.first)+r.Intn(n)] = true
	}
	if !parallel && len(destSet) > 0 {
		// a serial destination keeps answering every later probe
		lo := 256
		for t := range destSet {
			if t < lo {
				lo = t
			}
		}
		if r.Intn(2) == 0 {
			for t := lo; t <= int(p.last); t++ {
				destSet[t] = true
			}
		}
	}
	total := p.timeout + time.Duration(n)*p.delay
	mixed := r.Intn(2) == 0
	for t := int(p.first); t <= int(p.last); t++ {
		if !destSet[t] && r.Float64() >= answerP {
			continue
		}
		copies := 1
		if r.Intn(4) == 0 {
			copies = 2 + r.Intn(2)
		}
		for c := 0; c < copies; c++ {
			rep := scripted.Reply{TTL: uint8(t), Dest: destSet[t], Addr: hopAddr(uint8(t), c)}
			if copies > 1 && mixed {
				// replies for one TTL from a router and from the destination (e.g. a late destination answer
				// after a router already answered, or the reverse)
				rep.Dest = r.Intn(2) == 0
			}
			if parallel {
				// any instant after its send up to beyond the deadline (late replies are never handed out)
				sendAt := time.Duration(t-int(p.first)) * p.delay
				span := total - sendAt + p.poll
				rep.At = sendAt + time.Duration(r.Int63n(int64(span))) | 1
				if r.Intn(8) == 0 {
					rep.At = time.Duration(r.Int63n(int64(total))) | 1 // may precede its own send (early/spoofed)
				}
			} else {
				rep.Rel = true
				rep.At = time.Duration(r.Int63n(int64(p.timeout+p.timeout/4))) | 1 // some arrive after their own window
			}
			script = append(script, rep)
		}
	}
	if r.Intn(3) == 0 {
		for i := 0; i < 3; i++ {
			script = append(script, scripted.Reply{At: time.Duration(r.Int63n(int64(total))) | 1, Bad: 1 + r.Intn(4)})
		}
	}
	return script
}

// checkShape is the C03 oracle over one engine run.
func checkShape(c *fw.Ctx, tag string, parallel bool, p engParams, ev []scripted.Event, res []*common.ProbeResponse, err error) {
	if err != nil {
		c.Violate("C03", "engine-error/"+engName(parallel), fmt.Sprintf("%s: fault-free run failed: %v", tag, err), ev)
		return
	}
	lowestDest := -1
	answered := map[int]bool{}
	for _, e := range ev {
		if e.Kind != "reply" {
			continue
		}
		answered[int(e.TTL)] = true
		if e.Dest && (lowestDest == -1 || int(e.TTL) < lowestDest) {
			lowestDest = int(e.TTL)
		}
	}
	// C06, at the engine boundary: once a destination reply has been handed to the engine (for whichever TTL) no probe is
	// handed to the driver at a later virtual instant (the serial engine sends only after a wait has ended; the parallel
	// sender re-checks after every pause; a send at the very same instant is the one already in flight)
	destAt := time.Duration(-1)
	for _, e := range ev {
		if e.Kind == "reply" && e.Dest && destAt < 0 {
			destAt = e.At
		}
		if e.Kind == "send" && destAt >= 0 && e.At > destAt {
			c.Violate("C06", "send-after-dest/engine-"+engName(parallel), fmt.Sprintf("%s: probe for TTL %d handed to the driver at %v, a destination reply had been handed to the engine at %v", tag, e.TTL, e.At, destAt), map[string]any{"first": p.first, "last": p.last, "events": ev})
			break
		}
	}
	end := int(p.last)
	if lowestDest >= 0 {
		end = lowestDest
	}
	want := end - int(p.first) + 1
	detail := map[string]any{"first": p.first, "last": p.last, "events": ev, "result": fmtProbes(res)}
	if len(res) == 0 {
		c.Violate("C03", "empty-list/"+engName(parallel), tag+": empty hop list", detail)
		return
	}
	if len(res) != want {
		c.Violate("C03", "length/"+engName(parallel), fmt.Sprintf("%s: %d entries, expected %d (first=%d last=%d lowest destination TTL=%d)", tag, len(res), want, p.first, p.last, lowestDest), detail)
		return
	}
	for i, pr := range res {
		ttl := int(p.first) + i
		if pr == nil {
			continue
		}
		if int(pr.TTL) != ttl {
			c.Violate("C03", "ttl-gap/"+engName(parallel), fmt.Sprintf("%s: entry %d has TTL %d, expected %d", tag, i, pr.TTL, ttl), detail)
		}
		if !answered[ttl] {
			c.Violate("C03", "phantom/"+engName(parallel), fmt.Sprintf("%s: TTL %d non-empty but never answered", tag, ttl), detail)
		}
		if pr.IsDest && i != len(res)-1 {
			c.Violate("C03", "dest-not-last/"+engName(parallel), fmt.Sprintf("%s: destination at index %d of %d", tag, i, len(res)), detail)
		}
	}
	if lowestDest >= 0 && (res[len(res)-1] == nil || !res[len(res)-1].IsDest) {
		c.Violate("C03", "dest-missing/"+engName(parallel), fmt.Sprintf("%s: destination answered TTL %d but last entry is not the destination", tag, lowestDest), detail)
	}
	hops, herr := common.ToHops(p.tp(), res)
	if herr != nil {
		c.Violate("C03", "tohops-error", fmt.Sprintf("%s: ToHops: %v", tag, herr), detail)
		return
	}
	if len(hops) != len(res) {
		c.Violate("C03", "tohops-length", fmt.Sprintf("%s: ToHops changed the length %d -> %d", tag, len(res), len(hops)), detail)
	}
	for i, h := range hops {
		if h == nil || h.TTL != int(p.first)+i {
			c.Violate("C03", "tohops-ttl", fmt.Sprintf("%s: ToHops entry %d: %+v", tag, i, h), detail)
			continue
		}
		if (res[i] == nil) != (len(h.IPAddress) == 0) {
			c.Violate("C03", "tohops-empty", fmt.Sprintf("%s: ToHops entry %d emptiness differs", tag, i), detail)
		}
		if h.IsDest && i != len(hops)-1 {
			c.Violate("C03", "tohops-dest", fmt.Sprintf("%s: ToHops destination at %d", tag, i), detail)
		}
	}
	sig := fmt.Sprintf("%s/len%d/dest%v/answered%d", engName(parallel), bucket(len(res)), lowestDest >= 0, bucket(len(answered)))
	if len(answered) > 0 {
		c.Nontrivial(sig)
	}
	c.Count("engine_runs", 1)
	c.Count("replies_handed_out", len(answered))
}

func bucket(n int) int {
	switch {
	case n <= 4:
		return n
	case n <= 16:
		return 16
	case n <= 64:
		return 64
	}
	return 255
}

func engName(parallel bool) string {
	if parallel {
		return "parallel"
	}
	return "serial"
}

func fmtProbes(res []*common.ProbeResponse) []string {
	var out []string
	for _, p := range res {
		if p == nil {
			out = append(out, "-")
		} else {
			out = append(out, fmt.Sprintf("%d:%s:%v", p.TTL, p.IP, p.IsDest))
		}
	}
	return out
}

func checkC03() fw.Check {
	return fw.Check{
		Prop:  "C03",
		Level: "exploration",
		Rule: "one case = (engine, first TTL, last TTL) with several seeded network behaviours (answered subset, 0-3 destination TTLs, duplicates, late/early replies, bad packets) driven through the real common.TracerouteParallel/TracerouteSerial and common.ToHops with a scripted driver in a virtual-time bubble; plus every real variant over the simulated wire (destination at the first / a middle / the last TTL / absent, silent routers, identifier bases at the wrap) judged by the reference fold (parallel) or the first-destination-read rule (serial) for the list length; " +
			"distinct_nontrivial counts distinct (engine, result-length bucket, destination seen, answered-count bucket) signatures in which at least one reply was handed to the engine",
		Workers:       16,
		MinNontrivial: 8,
		Assumptions:   []string{"driver contract: replies carry TTLs inside [first,last]", "Linux build"},
		Gen: func(tier string, seed int64) []fw.Case {
			var pairs [][2]int
			if tier == "thorough" {
				for f := 1; f <= 255; f++ {
					for l := f; l <= 255; l++ {
						pairs = append(pairs, [2]int{f, l})
					}
				}
			} else {
				for f := 1; f <= 24; f++ {
					for l := f; l <= 24; l++ {
						pairs = append(pairs, [2]int{f, l})
					}
				}
				pairs = append(pairs, [][2]int{{1, 255}, {255, 255}, {254, 255}, {250, 255}, {128, 255}, {1, 30}, {3, 30}, {1, 64}, {200, 254}, {2, 255}}...)
			}
			reps := 6
			if tier == "thorough" {
				reps = 10
			}
			var cases []fw.Case
			for _, par := range []bool{true, false} {
				for _, pr := range pairs {
					par, pr := par, pr
					id := fmt.Sprintf("C03/%s/%d-%d", engName(par), pr[0], pr[1])
					cases = append(cases, fw.Case{ID: id, Bubble: true, Run: func(c *fw.Ctx) {
						for k := 0; k < reps; k++ {
							p := engParams{first: uint8(pr[0]), last: uint8(pr[1]), timeout: 100 * time.Millisecond, poll: 20 * time.Millisecond, delay: 10 * time.Millisecond}
							script := genShapeScript(c.Rng, par, p)
							d := scripted.New(par, script)
							res, err := runEngine(context.Background(), par, d, p)
							ev := d.Snapshot()
							checkShape(c, fmt.Sprintf("%s rep %d", id, k), par, p, ev, res, err)
							if par && err == nil {
								// the expected length is computed from the replies the engine took; a run that stops listening
								// early takes fewer. Every reply that was available before the end of the listening window
								// (timeout + probes x pause) must have been taken.
								n := int(p.last) - int(p.first) + 1
								if un := d.Unused(p.timeout + time.Duration(n)*p.delay - time.Microsecond); len(un) > 0 {
									c.Violate("C03", "reply-never-taken/engine-parallel", fmt.Sprintf("%s rep %d: %d reply(ies) available before the end of the listening window were never taken by the engine (first: ttl %d dest=%v due at %v)", id, k, len(un), un[0].TTL, un[0].Dest, un[0].At), ev)
								}
							}
							if k == 0 {
								c.Sample(map[string]any{"case": id, "script_replies": len(script), "result": fmtProbes(res)})
							}
						}
					}})
				}
			}
			// the same shape rules on the lists the REAL variants return (every driver behind the engines, over the simulated
			// wire): destination at the first / a middle / the last TTL / out of range, some routers silent, identifier bases
			// in the middle of their ranges and at the wrap. The reference fold (parallel) and the first-destination-read rule
			// (serial) give the expected length; soundness and completeness of the entries ride along (C01/C02).
			wins := []window{{1, 8}, {3, 12}, {250, 255}}
			if tier == "thorough" {
				wins = thoroughWindows(seed, 10)
			}
			for _, v := range refmatch.Variants {
				for _, w := range wins {
					bs := basesQuick
					if v.Proto == "syn" {
						bs = append(append([]base{}, bs...), basesThorough[2]) // IP-IDs that pass through 0 inside the window
					}
					for bi, b := range bs {
						v, w, b := v, w, b
						id := fmt.Sprintf("C03/real/%s/%d-%d/%s", v.Name, w.first, w.last, b.name)
						cases = append(cases, fw.Case{ID: id, Bubble: true, Run: func(c *fw.Ctx) {
							n := w.last - w.first + 1
							for di, dist := range []int{w.first, w.first + n/2, w.last, 0} {
								if di > 0 && dist == w.first {
									continue
								}
								sc := scenario{tag: fmt.Sprintf("%s dist=%d", id, dist), v: v, win: w, b: b, model: func(e *simEnv) *pathModel {
									m := &pathModel{hops: map[int]*hopSpec{}, dist: dist, destDelay: 4 * time.Millisecond}
									if v.Proto == "udp" && (di+bi)%2 == 1 {
										// a filtering target: administratively prohibited (IPv4 code 13 / 10, IPv6 code 1) instead of
										// port unreachable - from the target's own address it ends the path all the same
										code := uint8([]int{13, 10}[di%2])
										if v.V6 {
											code = 1
										}
										m.destBuild = func(e *simEnv, p *refmatch.Probe) []byte {
											return gen.WrapError(e.spec.Target, e.local, gen.DestUnreach, code, gen.QuoteBytes(p, 1, "fix"), "min", nil, 0)
										}
									}
									if v.Proto == "syn" && (di+bi)%2 == 1 {
										// a target (or the firewall in front of it) that refuses the SYN with a bare RST: no ACK flag, no
										// acknowledgement number - it ends the path like a SYN-ACK does
										m.destBuild = func(e *simEnv, p *refmatch.Probe) []byte {
											return gen.TCPReply(e.spec.Target, e.local, e.spec.Port, e.lport, 0, 0, wirefmt.TCPRst, nil, nil, nil)
										}
									}
									if !v.Serial && di == 1 && dist < w.last-1 {
										// the destination's answer to the first probe that reaches it takes longer than the per-probe
										// timeout - and still arrives inside the run's listening window (timeout + probes x delay),
										// after its quick answers to the next probes: the list ends at ITS TTL
										first := dist
										m.destDelayFor = func(ttl int) time.Duration {
											if ttl == first {
												return e.spec.Timeout + e.spec.Delay
											}
											return 4 * time.Millisecond
										}
									}
									if di == 2 && dist > 0 {
										// the lowest TTL the destination answers is answered by a router first (a middlebox that
										// expires the probe and still forwards it), 2 ms ahead of the destination: for the parallel
										// engines the destination's answer takes the entry over and the list ends there
										m.extra = func(e *simEnv, p *refmatch.Probe) {
											if p.TTL != dist {
												return
											}
											if b := e.hopReply(p, &hopSpec{addr: routerAddr(v.V6, 2, dist)}); b != nil {
												e.inject(b, "genuine-hop", p, oddUS(2*time.Millisecond))
											}
										}
									}
									last := w.last
									if dist > 0 {
										last = dist - 1
									}
									for t := w.first; t <= last; t++ {
										if (t+bi+di)%5 == 3 {
											continue // a silent router
										}
										m.hops[t] = &hopSpec{addr: routerAddr(v.V6, 1, t), delay: time.Duration(2+t%7) * time.Millisecond}
									}
									return m
								}}
								out := runScenario(c, sc)
								if out == nil {
									continue
								}
								if out.res.Err == nil && out.res.Run != nil {
									c.Nontrivial(fmt.Sprintf("real/%s/len%d/dest%v", v.Name, bucket(len(out.res.Run.Hops)), dist > 0))
									c.Count("real_variant_runs", 1)
								}
								out.e.close()
							}
						}})
					}
				}
			}
			// the lists a whole request returns, after its post-processing (normalisation, private-hop redaction): still one
			// entry per TTL, consecutive from the first TTL, whatever the first TTL and whichever entries were redacted
			for i, proto := range []string{"udp", "icmp", "tcp", "tcp-sack"} {
				for _, first := range []int{1, 3} {
					for _, skip := range []bool{false, true} {
						i, proto, first, skip := i, proto, first, skip
						id := fmt.Sprintf("C03/request/%s/first%d/skip%v", proto, first, skip)
						cases = append(cases, fw.Case{ID: id, Bubble: true, Run: func(c *fw.Ctx) { runC03Request(c, id, proto, first, skip, i) }})
					}
				}
			}
			return cases
		},
	}
}

func runC03Request(c *fw.Ctx, id, proto string, first int, skip bool, k int) {
	resetProcessState()
	v := map[string]refmatch.Variant{"udp": refmatch.VariantByName("udp4"), "icmp": refmatch.VariantByName("icmp4"), "tcp": refmatch.VariantByName("syn"), "tcp-sack": refmatch.VariantByName("syn")}[proto]
	target := drive.TargetFor(v, 50+c.Worker)
	const maxTTL, dist = 9, 7
	method, port := traceroute.TCPConfigSYN, 33434
	if proto == "tcp-sack" {
		// the path runs use selective acknowledgements against a target that permits them (the end-to-end probe is a SYN)
		proto, method, port = "tcp", traceroute.TCPConfigSACK, 24000+c.Worker
		if k%2 == 1 {
			method = traceroute.TCPConfigPreferSACK
		}
	}
	params := traceroute.TracerouteParams{Hostname: target.String(), Port: port, Protocol: proto, MinTTL: first, MaxTTL: maxTTL, Delay: 10, Timeout: 200 * time.Millisecond,
		TCPMethod: method, TracerouteQueries: 2, E2eQueries: 1, SkipPrivateHops: skip}
	env, err := newReqEnv(c, params, target, uint16(port), method != traceroute.TCPConfigSYN)
	if err != nil {
		c.Inconclusive(err.Error())
		return
	}
	defer env.close()
	env.modelFor = func(fk int, e *simEnv) *pathModel {
		m := &pathModel{hops: map[int]*hopSpec{}, dist: dist, destDelay: 20 * time.Millisecond}
		for t := int(e.spec.MinTTL); t < dist && t <= int(e.spec.MaxTTL); t++ {
			if (t+k)%4 == 0 {
				continue // silent
			}
			a := routerAddr(false, 1, t)
			if t%2 == 1 {
				a = netip.AddrFrom4([4]byte{10, 77, byte(fk), byte(t)}) // a private router
			}
			if t == dist-1 && skip == (k%2 == 0) && (proto == "icmp" || (proto == "tcp" && method == traceroute.TCPConfigSYN)) {
				// the hop before the target answers from the TARGET's address (a host that also routes, a load balancer's
				// virtual address): for ICMP and TCP SYN a time-exceeded proves no arrival - the entry is no destination and not
				// the last one (for UDP and SACK it would be: C04's table)
				a = target
			}
			m.hops[t] = &hopSpec{addr: a, delay: time.Duration(2+t) * time.Millisecond}
		}
		return m
	}
	out, rerr := env.run(context.Background())
	if rerr != nil || out == nil {
		c.Violate("C03", "request-failed", fmt.Sprintf("%s: %v", id, rerr), nil)
		return
	}
	for ri, run := range out.Traceroute.Runs {
		var ttls []int
		for _, h := range run.Hops {
			ttls = append(ttls, h.TTL)
		}
		tag := fmt.Sprintf("%s run %d ttls %v", id, ri, ttls)
		if len(run.Hops) != dist-first+1 {
			c.Violate("C03", "request-length", fmt.Sprintf("%s: %d entries, the destination answers TTL %d and the first TTL is %d", tag, len(run.Hops), dist, first), nil)
			continue
		}
		for j, h := range run.Hops {
			if h.TTL != first+j {
				c.Violate("C03", "request-ttl-sequence", fmt.Sprintf("%s: entry %d has TTL %d, expected %d", tag, j, h.TTL, first+j), nil)
				break
			}
			if h.IsDest && j != len(run.Hops)-1 {
				c.Violate("C03", "request-dest-not-last", fmt.Sprintf("%s: entry %d is marked as the destination", tag, j), nil)
			}
		}
		c.Count("request_runs_shaped", 1)
	}
	c.Nontrivial(fmt.Sprintf("request/%s/%s/first%d/skip%v", proto, method, first, skip))
}
