package checks

import (
	"flag"
	"fmt"
	"net"
	"os"
	"os/exec"
	"strings"
	"syscall"
	"testing"

	"verif/harness/fw"
)

var registry = map[string]func() fw.Check{}

func register(prop string, f func() fw.Check) { registry[prop] = f }

var exitCode = 0

// TestVerif runs the check selected by -prop.
func TestVerif(t *testing.T) {
	prop := *fw.FlagProp
	if prop == "" {
		t.Skip("no -prop given")
	}
	mk, ok := registry[prop]
	if !ok {
		fmt.Printf("INCONCLUSIVE property=%s no such check\n", prop)
		exitCode = 2
		return
	}
	exitCode = fw.RunCheck(t, mk())
}

func sh(args ...string) error {
	out, err := exec.Command(args[0], args[1:]...).CombinedOutput()
	if err != nil {
		return fmt.Errorf("%s: %v: %s", strings.Join(args, " "), err, out)
	}
	return nil
}

// setupNS builds the private namespace pair and re-executes the test binary inside "main".
func setupNS() (int, error) {
	pid := os.Getpid()
	mainNS, peerNS := fmt.Sprintf("vfm%d", pid), fmt.Sprintf("vfp%d", pid)
	etcDir := "/etc/netns/" + mainNS
	cleanup := func() {
		exec.Command("ip", "netns", "del", mainNS).Run()
		exec.Command("ip", "netns", "del", peerNS).Run()
		os.RemoveAll(etcDir)
	}
	cleanup()
	// `ip netns exec` bind-mounts /etc/netns/<name>/* over /etc/*: a private hosts file gives the checks host NAMES
	// (answered from the hosts file, like localhost or container aliases) for their simulated targets
	if err := os.MkdirAll(etcDir, 0o755); err == nil {
		var sb strings.Builder
		sb.WriteString("127.0.0.1 localhost\n::1 localhost ip6-localhost\n")
		for k := 0; k < 256; k++ {
			fmt.Fprintf(&sb, "10.204.%d.9 verif-w%d-v4 verif-w%d\nfd00:204:%x::9 verif-w%d-v6 verif-w%d\n", k, k, k, k, k, k)
		}
		os.WriteFile(etcDir+"/hosts", []byte(sb.String()), 0o644)
	}
	cmds := [][]string{
		{"ip", "netns", "add", mainNS},
		{"ip", "netns", "add", peerNS},
		{"ip", "link", "add", "vm0", "netns", mainNS, "type", "veth", "peer", "name", "vp0", "netns", peerNS},
		{"ip", "-n", mainNS, "link", "set", "lo", "up"},
		{"ip", "-n", peerNS, "link", "set", "lo", "up"},
		{"ip", "-n", mainNS, "addr", "add", "10.203.0.2/24", "dev", "vm0"},
		{"ip", "-n", peerNS, "addr", "add", "10.203.0.1/24", "dev", "vp0"},
		{"ip", "-n", mainNS, "-6", "addr", "add", "fd00:203::2/64", "dev", "vm0", "nodad"},
		{"ip", "-n", peerNS, "-6", "addr", "add", "fd00:203::1/64", "dev", "vp0", "nodad"},
		{"ip", "-n", mainNS, "link", "set", "vm0", "up"},
		{"ip", "-n", peerNS, "link", "set", "vp0", "up"},
		{"ip", "-n", mainNS, "route", "add", "default", "via", "10.203.0.1"},
		{"ip", "-n", mainNS, "-6", "route", "add", "default", "via", "fd00:203::1"},
		// every 10.204/16 address is local in the peer namespace (SACK listeners)
		{"ip", "-n", peerNS, "addr", "add", "10.204.0.0/16", "dev", "lo"},
	}
	for _, c := range cmds {
		if err := sh(c...); err != nil {
			cleanup()
			return 2, err
		}
	}
	// every SACK run is a real TCP connection between the two namespaces; at the rate of the thorough tiers and of the
	// native fuzz stage (thousands of runs a minute) their TIME_WAIT entries used up the ephemeral ports and the tool's
	// own `listen tcp :0` failed with "address already in use" (seen once, thorough C09 at seed 2). No TIME_WAIT
	// buckets in the private pair.
	for _, ns := range []string{mainNS, peerNS} {
		exec.Command("ip", "netns", "exec", ns, "sysctl", "-qw", "net.ipv4.tcp_max_tw_buckets=0").Run()
	}
	defer cleanup()
	args := append([]string{"netns", "exec", mainNS, os.Args[0]}, os.Args[1:]...)
	if sh := os.Getenv("VERIF_NS_EXEC"); sh != "" {
		// run an arbitrary command (e.g. `go test -fuzz`) inside the private namespaces instead of this binary
		args = []string{"netns", "exec", mainNS, "sh", "-c", sh}
	}
	cmd := exec.Command("ip", args...)
	cmd.Env = append(os.Environ(), "VERIF_NS_MAIN="+mainNS, "VERIF_NS_PEER="+peerNS, fmt.Sprintf("VERIF_OUTER_PID=%d", pid))
	cmd.Stdout, cmd.Stderr, cmd.Stdin = os.Stdout, os.Stderr, nil
	err := cmd.Run()
	if err == nil {
		return 0, nil
	}
	if ee, ok := err.(*exec.ExitError); ok {
		if ws, ok := ee.Sys().(syscall.WaitStatus); ok && ws.Signaled() {
			return 128 + int(ws.Signal()), nil
		}
		return ee.ExitCode(), nil
	}
	return 2, err
}

func TestMain(m *testing.M) {
	flag.Parse()
	if os.Getenv("VERIF_NS_MAIN") == "" && os.Getenv("VERIF_NO_NS") == "" {
		code, err := setupNS()
		if err != nil {
			fmt.Fprintf(os.Stderr, "namespace setup failed: %v\n", err)
			fmt.Printf("INCONCLUSIVE property=%s namespace setup failed\n", *fw.FlagProp)
			os.Exit(2)
		}
		os.Exit(code)
	}
	// the net package creates some process-wide channels lazily (resolv.conf reload semaphore, cgo thread limiter); the
	// first use must happen outside any synctest bubble or a later bubble dies with "send on synctest channel from
	// outside bubble"
	net.LookupIP("localhost")
	net.LookupIP("verif-w0-v4")
	net.LookupIP("verif-w0-v6")
	code := m.Run()
	if exitCode != 0 {
		code = exitCode
	}
	os.Exit(code)
}
