package checks

import (
	"fmt"
	"net/netip"
	"strings"
	"time"

	"verif/harness/drive"
	"verif/harness/refmatch"
	"verif/harness/simnet"
	"verif/harness/wirefmt"
)

// checkEmissions is the C06 monitor over everything the flow's handle wrote to its Sink.
func (e *simEnv) checkEmissions(res drive.Result, f *refmatch.Flow, js []judged, tag string) {
	c := e.c
	v := e.spec.V
	e.w.Lock()
	var ems []*simnet.Emission
	for _, em := range e.w.Emissions {
		if e.handle != nil && em.Handle == e.handle.Idx {
			ems = append(ems, em)
		}
	}
	e.w.Unlock()
	detail := func() map[string]any {
		var l []string
		for _, em := range ems {
			if len(l) > 40 {
				break
			}
			l = append(l, fmt.Sprintf("@%s %x", em.At.Format("05.000000"), em.Bytes))
		}
		return map[string]any{"variant": v.Name, "spec": fmt.Sprintf("%+v", e.spec), "emissions": l}
	}
	viol := func(sig, msg string) { c.Violate("C06", sig+"/"+v.Name, tag+": "+msg, detail()) }
	first := int(e.spec.MinTTL)
	ids := map[string]int{}
	var prev *simnet.Emission
	var destSeen time.Time
	var destTick int64
	for i := range js {
		if js[i].out.Kind == refmatch.Accept && js[i].out.Dest {
			destSeen, destTick = js[i].d.ReadAt, js[i].d.ReadTick
			break
		}
	}
	after, later := 0, 0
	for k, em := range ems {
		c.Count("probes_verified", 1)
		if em.ParseErr != nil {
			sig := "malformed"
			if strings.Contains(em.ParseErr.Error(), "zero udp checksum") {
				sig = "malformed-zero-udp-checksum"
			}
			viol(sig, fmt.Sprintf("probe %d is not a well-formed packet: %v", k, em.ParseErr))
			continue
		}
		p := em.Pkt
		if (p.Version == 6) != v.V6 {
			viol("family", fmt.Sprintf("probe %d has IP version %d", k, p.Version))
		}
		if int(p.TTL) != first+k {
			viol("ttl-order", fmt.Sprintf("probe %d has TTL %d, expected %d", k, p.TTL, first+k))
		}
		if int(p.TTL) > int(e.spec.MaxTTL) {
			viol("ttl-range", fmt.Sprintf("probe TTL %d beyond last TTL %d", p.TTL, e.spec.MaxTTL))
		}
		if p.Dst != e.spec.Target {
			viol("dst-addr", fmt.Sprintf("probe %d goes to %s, target is %s", k, p.Dst, e.spec.Target))
		}
		if em.Dst.Addr() != e.spec.Target {
			viol("sink-dst", fmt.Sprintf("probe %d handed to the sink for %s", k, em.Dst))
		}
		wantProto := map[string]uint8{"icmp": 1, "udp": 17, "syn": 6, "sack": 6}[v.Proto]
		if v.Proto == "icmp" && v.V6 {
			wantProto = 58
		}
		if p.Proto != wantProto {
			viol("protocol", fmt.Sprintf("probe %d has protocol %d", k, p.Proto))
		}
		if v.Proto != "icmp" && p.DstPort != e.spec.Port {
			viol("dst-port", fmt.Sprintf("probe %d goes to port %d, requested %d", k, p.DstPort, e.spec.Port))
		}
		switch v.Proto {
		case "icmp":
			want := uint8(8)
			if v.V6 {
				want = 128
			}
			if p.ICMPType != want || p.ICMPCode != 0 {
				viol("icmp-type", fmt.Sprintf("probe %d is ICMP type %d code %d", k, p.ICMPType, p.ICMPCode))
			}
		case "syn":
			if p.TCPFlags != wirefmt.TCPSyn {
				viol("tcp-flags", fmt.Sprintf("probe %d has TCP flags %#x, expected SYN only", k, p.TCPFlags))
			}
		case "sack":
			if p.TCPFlags != wirefmt.TCPAck|wirefmt.TCPPsh {
				viol("tcp-flags", fmt.Sprintf("probe %d has TCP flags %#x, expected ACK|PSH", k, p.TCPFlags))
			}
			if len(p.TCPPayload) == 0 {
				viol("sack-payload", fmt.Sprintf("probe %d carries no data byte", k))
			}
			if p.Seq-e.isn != uint32(p.TTL) {
				viol("sack-seq", fmt.Sprintf("probe %d seq-isn = %d, TTL %d", k, p.Seq-e.isn, p.TTL))
			}
		}
		if prev != nil {
			pp := prev.Pkt
			if pp != nil && (pp.Src != p.Src || pp.SrcPort != p.SrcPort || pp.DstPort != p.DstPort || pp.Dst != p.Dst) {
				viol("flow-changed", fmt.Sprintf("probe %d flow %s:%d->%s:%d differs from previous %s:%d->%s:%d", k, p.Src, p.SrcPort, p.Dst, p.DstPort, pp.Src, pp.SrcPort, pp.Dst, pp.DstPort))
			}
			if pp != nil && (pp.FlowLabel != p.FlowLabel || pp.TOS != p.TOS) {
				// same flow for the whole run: what load-balancing routers hash on besides addresses and ports - the IPv6
				// flow label, and the traffic class / TOS byte - stays the same from probe to probe
				viol("flow-changed", fmt.Sprintf("probe %d flow label %#x / traffic class %#x, previous probe %#x / %#x", k, p.FlowLabel, p.TOS, pp.FlowLabel, pp.TOS))
			}
			if v.Proto == "icmp" && pp != nil && pp.EchoID != p.EchoID {
				viol("echo-id-changed", fmt.Sprintf("probe %d echo id %d, previous %d", k, p.EchoID, pp.EchoID))
			}
			if gap := em.At.Sub(prev.At); gap < e.spec.Delay {
				viol("pacing", fmt.Sprintf("probe %d sent %v after the previous one, configured delay %v", k, gap, e.spec.Delay))
			}
		}
		// per-probe identifier under the variant's scheme
		var id string
		switch {
		case v.Proto == "icmp":
			id = fmt.Sprintf("seq%d", p.EchoSeq)
		case v.Proto == "udp" && !v.V6:
			id = fmt.Sprintf("ipid%d", p.ID)
		case v.Proto == "udp":
			id = fmt.Sprintf("plen%d", p.TotalLen)
		case v.Proto == "syn":
			id = fmt.Sprintf("ipid%d/seq%d", p.ID, p.Seq)
		default:
			id = fmt.Sprintf("seq%d", p.Seq)
		}
		if o, dup := ids[id]; dup {
			if v.Paris {
				c.Count("paris_random_collision", 1)
			} else {
				viol("dup-identifier", fmt.Sprintf("probes %d and %d share identifier %s", o, k, id))
			}
		}
		ids[id] = k
		if !destSeen.IsZero() && em.Tick > destTick {
			after++
			if em.At.After(destSeen) {
				later++
			}
		}
		prev = em
	}
	if e.handle != nil && e.handle.Overrun {
		viol("runaway-sender", "the run wrote more than 600 packets to its sink")
	}
	if len(ems) > int(e.spec.MaxTTL)-first+1 {
		viol("too-many", fmt.Sprintf("%d probes for TTL window %d..%d", len(ems), first, e.spec.MaxTTL))
	}
	if !destSeen.IsZero() {
		c.Count("runs_with_dest_seen", 1)
		limit := 1
		if v.Serial {
			limit = 0
		}
		if after > limit {
			viol("send-after-dest", fmt.Sprintf("%d probes written after the destination reply was handed to the driver (allowed %d)", after, limit))
		} else if later > 0 {
			// "one already in flight": the excepted probe is one whose send had been decided when the answer came in,
			// i.e. handed to the sink at that very (virtual) instant - never one emitted at a later instant
			viol("send-after-dest", fmt.Sprintf("%d probe(s) handed to the sink at a later instant than the one at which the destination reply had been read (%s): not in flight, sent after the answer was seen", later, destSeen.Format("05.000000")))
		}
	}
	// endpoints reported == endpoints on the wire
	if res.Err == nil && res.Run != nil && len(ems) > 0 && ems[0].Pkt != nil {
		p := ems[0].Pkt
		src, _ := netip.AddrFromSlice(res.Run.Source.IPAddress)
		dst, _ := netip.AddrFromSlice(res.Run.Destination.IPAddress)
		if src.Unmap() != p.Src.Unmap() {
			viol("reported-src", fmt.Sprintf("result source %s, wire source %s", src, p.Src))
		}
		if dst.Unmap() != p.Dst.Unmap() {
			viol("reported-dst", fmt.Sprintf("result destination %s, wire destination %s", dst, p.Dst))
		}
		if v.Proto != "icmp" {
			if res.Run.Source.Port != p.SrcPort {
				viol("reported-sport", fmt.Sprintf("result source port %d, wire %d", res.Run.Source.Port, p.SrcPort))
			}
			if res.Run.Destination.Port != p.DstPort {
				viol("reported-dport", fmt.Sprintf("result destination port %d, wire %d", res.Run.Destination.Port, p.DstPort))
			}
		}
	}
}

// timeBound is the closed-form upper bound on the virtual duration of one run (C08).
func timeBound(s drive.Spec) time.Duration {
	n := time.Duration(int(s.MaxTTL) - int(s.MinTTL) + 1)
	poll := s.EffectivePoll()
	switch {
	case s.V.Serial:
		return n * (s.Timeout + poll + s.Delay)
	case s.V.Proto == "sack":
		hs := s.HandshakeTimeout
		if hs == 0 {
			hs = s.Timeout
		}
		return hs + 500*time.Millisecond + s.Timeout + n*s.Delay + poll
	}
	return s.Timeout + n*s.Delay + poll
}

// checkUniversal runs the monitors that apply to every fault-free simulated run.
func (e *simEnv) checkUniversal(res drive.Result, f *refmatch.Flow, js []judged, tag string) {
	c := e.c
	e.checkEmissions(res, f, js, tag)
	if lc := e.w.Lifecycle(); len(lc) > 0 {
		c.Violate("C10", "lifecycle/"+e.spec.V.Name, fmt.Sprintf("%s: %v", tag, lc), nil)
	}
	if el, b := res.End.Sub(res.Start), timeBound(e.spec); el > b {
		c.Violate("C08", "bound/"+e.spec.V.Name, fmt.Sprintf("%s: run took %v of virtual time, bound %v", tag, el, b), fmt.Sprintf("%+v", e.spec))
	}
	if e.handle != nil && e.handle.ReadOverrun {
		c.Violate("C08", "runaway-reader/"+e.spec.V.Name, tag+": the run kept reading without bound (stopped by the harness after 400000 reads)", nil)
	}
	c.Count("runs", 1)
}
