package checks

import (
	"context"
	"errors"
	"fmt"
	"net"
	"net/netip"
	"strings"
	"sync"
	"time"

	"github.com/DataDog/datadog-traceroute/cache"
	"github.com/DataDog/datadog-traceroute/packets"
	"github.com/DataDog/datadog-traceroute/publicip"
	"github.com/DataDog/datadog-traceroute/result"
	"github.com/DataDog/datadog-traceroute/reversedns"
	"github.com/DataDog/datadog-traceroute/traceroute"
	gocache "github.com/patrickmn/go-cache"

	"verif/harness/drive"
	"verif/harness/fw"
	"verif/harness/refmatch"
	"verif/harness/simnet"
)

// scriptedFetcher is a publicip.Fetcher with a scripted outcome.
type scriptedFetcher struct {
	ip    net.IP
	err   error
	delay time.Duration
	calls int
	mu    sync.Mutex
}

func (f *scriptedFetcher) GetIP(ctx context.Context) (net.IP, error) {
	f.mu.Lock()
	f.calls++
	f.mu.Unlock()
	if f.delay > 0 {
		time.Sleep(f.delay)
	}
	return f.ip, f.err
}

var _ publicip.Fetcher = (*scriptedFetcher)(nil)

// reqEnv runs traceroute.RunTraceroute (the whole request: N runs + M end-to-end probes + public IP +
// enrichment) over one shared simulated wire on which every handle sees every frame.
type reqEnv struct {
	c      *fw.Ctx
	w      *simnet.Wire
	params traceroute.TracerouteParams
	target netip.Addr
	port   uint16
	peer   *drive.SackPeer
	unreg  func()
	mu     sync.Mutex
	flows  map[int]*simEnv
	// modelFor builds the path model of flow k (k = handle index = order of handle creation)
	modelFor func(k int, e *simEnv) *pathModel
	// onFlow is called when a flow's identity (variant, window) became known
	onFlow  func(k int, e *simEnv)
	fetcher publicip.Fetcher
	isnBase uint32
	closed  bool
	// specs, when set, are the runs started directly by the check (not through RunTraceroute): a new handle is
	// bound to the first unclaimed spec that matches its first probe
	specs   []drive.Spec
	claimed []bool
	unregs  []func()
	peers   map[netip.AddrPort]*drive.SackPeer
}

// resetProcessState gives the case a clean, janitor-less process-wide cache (entries are stamped with the
// bubble's clock; the production janitor runs on the real clock and would purge them).
func resetProcessState() {
	cache.Cache = gocache.New(5*time.Minute, 0)
}

func variantOfProbe(pk *simnet.Emission, relaxedSack bool) (refmatch.Variant, bool) {
	p := pk.Pkt
	if p == nil {
		return refmatch.Variant{}, false
	}
	v6 := p.Version == 6
	switch p.Proto {
	case 1, 58:
		if v6 {
			return refmatch.VariantByName("icmp6"), true
		}
		return refmatch.VariantByName("icmp4"), true
	case 17:
		if v6 {
			return refmatch.VariantByName("udp6"), true
		}
		return refmatch.VariantByName("udp4"), true
	case 6:
		if p.TCPFlags&0x02 != 0 {
			return refmatch.VariantByName("syn"), true
		}
		return refmatch.VariantByName("sackR"), true // the runner always uses relaxed source checking for SACK
	}
	return refmatch.Variant{}, false
}

func newReqEnv(c *fw.Ctx, params traceroute.TracerouteParams, target netip.Addr, port uint16, needPeer bool) (*reqEnv, error) {
	r := &reqEnv{c: c, w: simnet.NewWire(), params: params, target: target, port: port, flows: map[int]*simEnv{}, isnBase: 0x20000000}
	r.w.Loopback = true
	r.unreg = simnet.Register(r.w, target)
	if needPeer {
		p, err := drive.ListenPeer(netip.AddrPortFrom(target, port))
		if err != nil {
			r.unreg()
			return nil, err
		}
		p.ServerISN = 0x51000000
		p.ISNForPort = func(port uint16) uint32 { return r.isnBase + uint32(port)*0x10000 }
		r.peer = p
		r.w.OnFilter = func(h *simnet.Handle, s packets.PacketFilterSpec) { p.OnFilter(h, s) }
		r.w.OnReadStart = func(h *simnet.Handle) { p.OnReadStart(r.w, h) }
		r.w.OnBeforeFilter = func(h *simnet.Handle, s packets.PacketFilterSpec) { p.OnBeforeFilter(r.w, h, s) }
	}
	r.w.OnEmit = r.onEmit
	return r, nil
}

func (r *reqEnv) onEmit(h *simnet.Handle, em *simnet.Emission) {
	r.mu.Lock()
	fe := r.flows[h.Idx]
	if fe == nil {
		v, ok := variantOfProbe(em, true)
		if !ok {
			r.mu.Unlock()
			return
		}
		first, last := r.params.MinTTL, r.params.MaxTTL
		if int(em.Pkt.TTL) == last&0xff && first != last {
			first = last // end-to-end probe
		}
		spec := drive.Spec{V: v, Target: r.target, Port: r.port, MinTTL: uint8(first), MaxTTL: uint8(last), Timeout: r.params.Timeout,
			Delay: time.Duration(r.params.Delay) * time.Millisecond, Poll: 100 * time.Millisecond}
		if v.Proto == "sack" {
			spec.Delay = 10 * time.Millisecond
			spec.HandshakeTimeout = r.params.Timeout
		}
		if r.specs != nil {
			found := false
			for i, sp := range r.specs {
				if r.claimed[i] || sp.V.Proto != v.Proto || sp.V.V6 != v.V6 || sp.Target != em.Pkt.Dst || int(sp.MinTTL) != int(em.Pkt.TTL) {
					continue
				}
				if v.Proto != "icmp" && sp.Port != em.Pkt.DstPort {
					continue
				}
				r.claimed[i] = true
				spec = sp
				found = true
				break
			}
			if !found {
				r.mu.Unlock()
				r.c.Violate("C11", "unexpected-flow", fmt.Sprintf("a handle sent a %s probe (ttl %d to %s) that matches no started run", v.Name, em.Pkt.TTL, em.Pkt.Dst), nil)
				return
			}
			v = spec.V
		}
		fe = &simEnv{c: r.c, w: r.w, spec: spec, peer: r.peer, handle: h, unreg: func() {}}
		if r.peers != nil {
			fe.peer = r.peers[netip.AddrPortFrom(spec.Target, spec.Port)]
		}
		if v.Proto == "sack" && fe.peer != nil && fe.peer.ISNForPort != nil {
			fe.isn = fe.peer.ISNForPort(em.Pkt.SrcPort)
		}
		r.flows[h.Idx] = fe
		if r.modelFor != nil {
			fe.model = r.modelFor(h.Idx, fe)
		}
		cb := r.onFlow
		r.mu.Unlock()
		if cb != nil {
			cb(h.Idx, fe)
		}
	} else {
		r.mu.Unlock()
	}
	fe.onEmit(h, em)
}

// run executes the request.
func (r *reqEnv) run(ctx context.Context) (*result.Results, error) {
	allocMu.Lock()
	defer allocMu.Unlock()
	f := r.fetcher
	if f == nil {
		f = &scriptedFetcher{ip: net.ParseIP("192.0.2.200")}
	}
	tr := traceroute.NewTracerouteWithFetcher(f)
	return tr.RunTraceroute(ctx, r.params)
}

func (r *reqEnv) close() {
	if r.closed {
		return
	}
	r.closed = true
	r.unreg()
	for _, u := range r.unregs {
		u()
	}
	if r.peer != nil {
		r.peer.Close()
	}
}

// monitors runs the wire-level monitors that apply to every request: handle life cycle (C10) and the runaway guards (C08).
func (r *reqEnv) monitors(tag string) {
	if lc := r.w.Lifecycle(); len(lc) > 0 {
		r.c.Violate("C10", "lifecycle/request", fmt.Sprintf("%s: %v", tag, lc), nil)
	}
	r.w.Lock()
	defer r.w.Unlock()
	for _, h := range r.w.Handles {
		if h.ReadOverrun {
			r.c.Violate("C08", "runaway-reader/request", fmt.Sprintf("%s: handle %d kept reading without bound (stopped by the harness after 400000 reads)", tag, h.Idx), nil)
		}
		if h.Overrun {
			r.c.Violate("C06", "runaway-sender/request", fmt.Sprintf("%s: handle %d wrote more than 600 packets", tag, h.Idx), nil)
		}
	}
}

func (r *reqEnv) flowList() []*simEnv {
	r.mu.Lock()
	defer r.mu.Unlock()
	out := make([]*simEnv, 0, len(r.flows))
	for k := 0; k < len(r.w.Handles); k++ {
		if f := r.flows[k]; f != nil {
			out = append(out, f)
		}
	}
	return out
}

// matchRun finds the flow a result run belongs to: the routers of flow k have addresses unique to k,
// TCP/UDP/SACK runs additionally report their source port.
func (r *reqEnv) matchRun(run *result.TracerouteRun, used map[int]bool) *simEnv {
	flows := r.flowList()
	first := 0
	if len(run.Hops) > 0 {
		first = run.Hops[0].TTL
	}
	var fallback *simEnv
	for _, f := range flows {
		if used[f.handle.Idx] || int(f.spec.MinTTL) != first {
			continue
		}
		if f.spec.V.Proto != "icmp" {
			// every UDP/TCP/SACK flow of one process has its own source port
			if f.lport == run.Source.Port {
				return f
			}
			continue
		}
		if fallback == nil {
			fallback = f
		}
		for _, h := range run.Hops {
			if len(h.IPAddress) > 0 && !h.IsDest && hopIP(h.IPAddress) == routerAddr(f.spec.V.V6, f.handle.Idx, h.TTL) {
				return f
			}
		}
	}
	return fallback
}

// judgeRuns charges every run of the result against the ledger of its own flow (C01/C02/C04/C05 via judge,
// C11 when a hop carries an address that belongs to another flow).
func (r *reqEnv) judgeRuns(res *result.Results, tag string) {
	used := map[int]bool{}
	r.checkReportedDestination(res, tag)
	for i := range res.Traceroute.Runs {
		run := &res.Traceroute.Runs[i]
		f := r.matchRun(run, used)
		if f == nil {
			r.c.Violate("C11", "unattributable-run", fmt.Sprintf("%s: result run %d (source port %d, %d hops) matches no flow seen on the wire", tag, i, run.Source.Port, len(run.Hops)), fmtHops(run))
			continue
		}
		used[f.handle.Idx] = true
		for _, h := range run.Hops {
			if len(h.IPAddress) == 0 {
				continue
			}
			a := hopIP(h.IPAddress)
			for _, g := range r.flowList() {
				if g != f && !h.IsDest && a == routerAddr(g.spec.V.V6, g.handle.Idx, h.TTL) {
					r.c.Violate("C11", "cross-flow-hop/"+f.spec.V.Name, fmt.Sprintf("%s: run of flow %d reports %s at TTL %d, which is the router of flow %d", tag, f.handle.Idx, a, h.TTL, g.handle.Idx), fmtHops(run))
				}
			}
		}
		fl, js := f.judge(drive.Result{Run: run}, fmt.Sprintf("%s flow%d", tag, f.handle.Idx))
		f.checkCompleteness(drive.Result{Run: run}, fl, js, tag)
		f.checkEmissions(drive.Result{Run: run}, fl, js, tag)
	}
}

// checkReportedDestination (C06, "the destination endpoint reported in the result is the one that was on the wire"),
// for the request-level destination: when the target was given without a literal port, the reported port is the one
// every UDP/TCP probe of the request went to (an omitted port means the documented default, which is what is sent).
func (r *reqEnv) checkReportedDestination(res *result.Results, tag string) {
	if res == nil || hasLiteralPort(r.params.Hostname) {
		return
	}
	r.w.Lock()
	ports := map[uint16]int{}
	for _, em := range r.w.Emissions {
		if em.Pkt != nil && (em.Pkt.Proto == 6 || em.Pkt.Proto == 17) && em.Pkt.Dst == r.target {
			ports[em.Pkt.DstPort]++
		}
	}
	r.w.Unlock()
	if len(ports) != 1 {
		return
	}
	for p := range ports {
		r.c.Count("reported_destination_checked", 1)
		if res.Destination.Port != int(p) {
			r.c.Violate("C06", "reported-dport/request", fmt.Sprintf("%s: the result reports destination port %d (requested %d); every probe went to port %d", tag, res.Destination.Port, r.params.Port, p), nil)
		}
	}
}

func hasLiteralPort(h string) bool {
	if strings.HasPrefix(h, "[") {
		return strings.Contains(h, "]:")
	}
	return strings.Count(h, ":") == 1
}

func fmtHops(run *result.TracerouteRun) []string {
	var out []string
	for _, h := range run.Hops {
		if len(h.IPAddress) == 0 {
			out = append(out, fmt.Sprintf("%d:-", h.TTL))
		} else {
			out = append(out, fmt.Sprintf("%d:%s:dest=%v:%.3f", h.TTL, hopIP(h.IPAddress), h.IsDest, h.RTT))
		}
	}
	return out
}

// flowPath is the default per-flow model: routers unique to flow k, destination at dist.
func flowPath(k int, e *simEnv, dist int, reach bool, base time.Duration) *pathModel {
	m := &pathModel{hops: map[int]*hopSpec{}}
	last := int(e.spec.MaxTTL)
	if reach && dist > 0 {
		m.dist = dist
		if dist-1 < last {
			last = dist - 1
		}
	}
	for t := int(e.spec.MinTTL); t <= last; t++ {
		m.hops[t] = &hopSpec{addr: routerAddr(e.spec.V.V6, k, t), delay: base + time.Duration(t)*time.Millisecond + time.Duration(k)*137*time.Microsecond}
	}
	m.destDelay = base + 20*time.Millisecond + time.Duration(k)*211*time.Microsecond
	return m
}

// scripted reverse-DNS resolver
type rdnsScript struct {
	mu      sync.Mutex
	calls   map[string]int
	byAddr  func(addr string) (names []string, err error, delay time.Duration)
	restore func()
}

func installResolver(f func(addr string) ([]string, error, time.Duration)) *rdnsScript {
	s := &rdnsScript{calls: map[string]int{}, byAddr: f}
	old := reversedns.LookupAddrFn
	reversedns.LookupAddrFn = func(ctx context.Context, addr string) ([]string, error) {
		s.mu.Lock()
		s.calls[addr]++
		s.mu.Unlock()
		names, err, d := s.byAddr(addr)
		if d > 0 {
			select {
			case <-time.After(d):
			case <-ctx.Done():
				// what net.Resolver hands back when the lookup's context ends: a *net.DNSError, "temporary" in the
				// net.Error sense when it was the deadline
				if errors.Is(ctx.Err(), context.DeadlineExceeded) {
					return nil, &net.DNSError{Err: "i/o timeout", Name: addr, IsTimeout: true, UnwrapErr: ctx.Err()}
				}
				return nil, &net.DNSError{Err: "operation was canceled", Name: addr, UnwrapErr: ctx.Err()}
			}
		}
		return names, err
	}
	s.restore = func() { reversedns.LookupAddrFn = old }
	return s
}

func namesFor(addr string) []string {
	return []string{"host-" + strings.NewReplacer(".", "-", ":", "-").Replace(addr) + ".example.net."}
}

var errResolver = errors.New("scripted resolver failure")

// resolverFailure returns the k-th kind of lookup failure a real resolver produces: whatever its kind, a failure is a
// failure (names stay empty, nothing is cached). All of them wrap errResolver except the bare DNS errors.
func resolverFailure(k int, addr string) error {
	switch k % 6 {
	case 0:
		return errResolver
	case 1:
		return &net.DNSError{Err: "no such host", Name: addr, IsNotFound: true} // NXDOMAIN: no PTR record
	case 2:
		return &net.DNSError{Err: "i/o timeout", Name: addr, IsTimeout: true}
	case 3:
		return &net.DNSError{Err: "server misbehaving", Name: addr, IsTemporary: true}
	case 4:
		return fmt.Errorf("lookup %s: %w", addr, context.DeadlineExceeded)
	}
	return fmt.Errorf("lookup %s: %w", addr, &net.DNSError{Err: "no such host", Name: addr, IsNotFound: true})
}
