package checks

import (
	"bytes"
	"context"
	"crypto/tls"
	"encoding/json"
	"errors"
	"fmt"
	"io"
	"math/rand"
	"net"
	"net/http"
	"net/http/httptest"
	"net/url"
	"strings"
	"sync"
	"sync/atomic"
	"testing"
	"testing/synctest"
	"time"

	"github.com/DataDog/datadog-traceroute/cache"
	"github.com/DataDog/datadog-traceroute/publicip"
	"github.com/DataDog/datadog-traceroute/result"
	"github.com/DataDog/datadog-traceroute/reversedns"
	"github.com/DataDog/datadog-traceroute/server"
	"github.com/DataDog/datadog-traceroute/traceroute"
	"github.com/anishathalye/porcupine"
	"github.com/cenkalti/backoff/v5"

	"verif/harness/drive"
	"verif/harness/fw"
	"verif/harness/refmatch"
)

func init() { register("C18", checkC18) }

// ---------------------------------------------------------------------------------------------
// enrichment

type rdnsBehaviour int

const (
	rdNames rdnsBehaviour = iota
	rdEmpty
	rdError
	rdSlow    // answers after a virtual delay shorter than the lookup timeout
	rdTooSlow // exceeds the 5 s lookup timeout
	rdFlakyOK // the first query answers at once, every concurrent duplicate query fails later (the failure finishes last)
	rdFlakyKO // the first query fails at once, a duplicate query answers later
)

func runC18Enrich(c *fw.Ctx, id string) {
	resetProcessState()
	r := c.Rng
	// address pool with duplicates and both encodings of the same IPv4 address
	pool := []string{"8.8.8.8", "1.1.1.1", "203.0.113.5", "198.51.100.7", "2001:db8::7", "2606:4700::1111", "10.1.2.3", "192.0.2.1"}
	// hops also answer from link-local, loopback, shared and multicast-range addresses: an answered hop is looked up
	// whatever range its address is in
	pool = append(pool, [][]string{{"169.254.169.1", "fe80::1"}, {"127.0.0.53", "100.64.0.1"}, {"224.0.0.9", "ff02::1"}, {"255.255.255.255", "::1"}}[r.Intn(4)]...)
	beh := map[string]rdnsBehaviour{}
	delay := map[string]time.Duration{}
	for _, a := range pool {
		beh[a] = rdnsBehaviour(r.Intn(7))
		delay[a] = time.Duration(1+r.Intn(900)) * time.Millisecond
	}
	var qmu sync.Mutex
	nq := map[string]int{}
	rs := installResolver(func(addr string) ([]string, error, time.Duration) {
		qmu.Lock()
		nq[addr]++
		k := nq[addr]
		qmu.Unlock()
		switch beh[addr] {
		case rdFlakyOK:
			if k == 1 {
				return namesFor(addr), nil, time.Millisecond
			}
			return nil, resolverFailure(len(addr)+k, addr), 300 * time.Millisecond
		case rdFlakyKO:
			if k == 1 {
				return nil, resolverFailure(len(addr), addr), time.Millisecond
			}
			return namesFor(addr), nil, 300 * time.Millisecond
		case rdNames:
			return namesFor(addr), nil, delay[addr] / 100
		case rdEmpty:
			return []string{}, nil, delay[addr] / 100
		case rdError:
			return nil, resolverFailure(int(delay[addr]/time.Millisecond), addr), delay[addr] / 100
		case rdSlow:
			return namesFor(addr), nil, delay[addr] + time.Second
		}
		return namesFor(addr), nil, 6 * time.Second
	})
	defer rs.restore()
	occurrences := map[string]int{}
	encodings := map[string]int{}
	unknownNames := []string{"<either>"} // which of two racing lookups (one failing) fills which encoding is not decided
	mkIP := func() net.IP {
		a := pool[r.Intn(len(pool))]
		ip := net.ParseIP(a)
		if v4 := ip.To4(); v4 != nil && r.Intn(2) == 0 {
			return v4
		}
		return ip
	}
	d := &result.Results{Protocol: "udp", TestRunID: "keep-me"}
	nr := 1 + r.Intn(3)
	for i := 0; i < nr; i++ {
		run := result.TracerouteRun{RunID: fmt.Sprintf("run-%d", i), Destination: result.TracerouteDestination{IPAddress: mkIP(), Port: 443}}
		for h := 0; h < 1+r.Intn(8); h++ {
			hop := &result.TracerouteHop{TTL: h + 1, RTT: float64(h) + 0.5}
			if r.Intn(5) != 0 {
				hop.IPAddress = mkIP()
			} else if r.Intn(2) == 0 {
				hop.IPAddress = net.IP{}
			}
			run.Hops = append(run.Hops, hop)
		}
		if n := len(run.Hops); n > 0 && len(run.Hops[n-1].IPAddress) > 0 && r.Intn(2) == 0 {
			// the last answered hop is flagged as the destination and carries an address of its own (documents are data:
			// the flag and the two address fields are independent) - every hop gets the names of ITS address
			run.Hops[n-1].IsDest = true
		}
		d.Traceroute.Runs = append(d.Traceroute.Runs, run)
	}
	d.E2eProbe.RTTs = []float64{1, 0, 2}
	encSeen := map[string]map[int]bool{}
	note := func(ip net.IP) {
		if len(ip) == 0 {
			return
		}
		occurrences[ip.String()]++
		if encSeen[ip.String()] == nil {
			encSeen[ip.String()] = map[int]bool{}
		}
		encSeen[ip.String()][len(ip)] = true
		encodings[ip.String()] = len(encSeen[ip.String()])
	}
	for _, run := range d.Traceroute.Runs {
		note(run.Destination.IPAddress)
		for _, h := range run.Hops {
			note(h.IPAddress)
		}
	}
	before := cloneDoc(d)
	d.EnrichWithReverseDns()
	expect := func(ip net.IP) []string {
		if len(ip) == 0 {
			return nil
		}
		switch beh[ip.String()] {
		case rdNames, rdSlow:
			return namesFor(ip.String())
		case rdFlakyOK:
			// one of the concurrent lookups of this address succeeded: a failed duplicate must not erase its names.
			// With two encodings of the address the result map has two keys and which of them the successful
			// lookup fills depends on which goroutine queried first: not decided.
			if encodings[ip.String()] == 1 {
				return namesFor(ip.String())
			}
			return unknownNames
		case rdFlakyKO:
			// the first query fails at once; a successful one only exists when the address is looked up again
			if occurrences[ip.String()] < 2 {
				return nil
			}
			if encodings[ip.String()] == 1 {
				return namesFor(ip.String())
			}
			return unknownNames
		}
		return nil
	}
	detail := func() any {
		return map[string]any{"behaviours": fmt.Sprint(beh), "doc": fmtDocNames(d)}
	}
	for i := range d.Traceroute.Runs {
		run, orig := &d.Traceroute.Runs[i], &before.Traceroute.Runs[i]
		if got, want := fmt.Sprint(run.Destination.ReverseDns), fmt.Sprint(expect(run.Destination.IPAddress)); got != want && !(got == "[]" && want == "[]") && want != "[<either>]" {
			c.Violate("C18", "dest-names/"+behName(beh[run.Destination.IPAddress.String()]), fmt.Sprintf("%s: destination %s has names %v, resolver script says %v", id, run.Destination.IPAddress, run.Destination.ReverseDns, expect(run.Destination.IPAddress)), detail())
		}
		for j, h := range run.Hops {
			want := expect(h.IPAddress)
			if len(want) == 1 && want[0] == "<either>" {
				continue
			}
			if len(h.ReverseDns) != len(want) || (len(want) > 0 && h.ReverseDns[0] != want[0]) {
				kind := "empty-hop"
				if len(h.IPAddress) > 0 {
					kind = behName(beh[h.IPAddress.String()]) + "/" + addrKind(h.IPAddress)
				}
				c.Violate("C18", "hop-names/"+kind, fmt.Sprintf("%s: hop %d (%s) has names %v, resolver script says %v", id, h.TTL, h.IPAddress, h.ReverseDns, want), detail())
			}
			o := orig.Hops[j]
			if !h.IPAddress.Equal(o.IPAddress) || h.RTT != o.RTT || h.TTL != o.TTL || h.IsDest != o.IsDest {
				c.Violate("C18", "enrichment-altered-hop", fmt.Sprintf("%s: hop %d changed beyond its names", id, h.TTL), detail())
			}
			if len(h.IPAddress) > 0 {
				c.Nontrivial("enrich/" + behName(beh[h.IPAddress.String()]) + "/" + addrKind(h.IPAddress))
			}
			c.Count("hops_enriched", 1)
		}
		if run.RunID != orig.RunID || len(run.Hops) != len(orig.Hops) {
			c.Violate("C18", "enrichment-altered-run", id+": run changed", detail())
		}
	}
	if d.TestRunID != "keep-me" || fmt.Sprint(d.E2eProbe.RTTs) != "[1 0 2]" {
		c.Violate("C18", "enrichment-altered-doc", id+": document changed beyond names", detail())
	}
	// names belong to an address: once an entry has lost its address (private-hop redaction of the enriched document, as
	// RunTraceroute does it) it cannot keep the names that were looked up for it
	d.RemovePrivateHops()
	for i := range d.Traceroute.Runs {
		for _, h := range d.Traceroute.Runs[i].Hops {
			if len(h.IPAddress) == 0 && len(h.ReverseDns) > 0 {
				c.Violate("C18", "names-without-address", fmt.Sprintf("%s: hop %d has no address but the names %v", id, h.TTL, h.ReverseDns), detail())
			}
		}
	}
	c.Sample(map[string]any{"case": id, "doc": fmtDocNames(d)})
}

func behName(b rdnsBehaviour) string {
	return [...]string{"names", "empty", "error", "slow", "too-slow", "flaky-ok-then-fail", "flaky-fail-then-ok"}[b]
}

func fmtDocNames(d *result.Results) []string {
	var out []string
	for i, run := range d.Traceroute.Runs {
		out = append(out, fmt.Sprintf("run%d dest %s %v", i, run.Destination.IPAddress, run.Destination.ReverseDns))
		for _, h := range run.Hops {
			out = append(out, fmt.Sprintf("  ttl%d %s(%d bytes) %v", h.TTL, h.IPAddress, len(h.IPAddress), h.ReverseDns))
		}
	}
	return out
}

// ---------------------------------------------------------------------------------------------
// reverse-DNS cache: sequential programs against an exact reference

func runC18RdnsCache(c *fw.Ctx, id string) {
	resetProcessState()
	r := c.Rng
	addrs := []string{"8.8.8.8", "2001:db8::1", "203.0.113.9"}
	gen := map[string]int{}   // resolver generation per address (names change every query so stale data is visible)
	fail := map[string]bool{} // whether the next query fails
	queries := map[string]int{}
	lastAnswer := map[string]string{}
	rs := installResolver(func(addr string) (answer []string, _ error, _ time.Duration) {
		queries[addr]++
		if fail[addr] {
			return nil, resolverFailure(queries[addr]+len(addr), addr), 0
		}
		gen[addr]++
		n := fmt.Sprintf("gen%d.%s.example.", gen[addr], addr)
		defer func() { lastAnswer[addr] = fmt.Sprint(answer) }()
		switch gen[addr] % 4 {
		case 1:
			// several PTR records, the same name twice in a row among them (duplicated records, round-robin answers): the
			// names of an address are EXACTLY what the resolver returned, first time and from the cache
			return []string{n, n, "alias-" + n, "alias-" + n, n}, nil, 0
		case 2:
			return []string{n, "second-" + n}, nil, 0
		}
		return []string{n}, nil, 0
	})
	defer rs.restore()
	type entry struct {
		names  string
		expiry time.Time
	}
	ref := map[string]entry{}
	var trace []string
	for step := 0; step < 60; step++ {
		a := addrs[r.Intn(len(addrs))]
		switch r.Intn(4) {
		case 0:
			// odd offsets: an access never falls exactly on an expiry instant (ties are not decided by the property)
			dt := []time.Duration{time.Minute + time.Millisecond, 29*time.Minute + 3*time.Millisecond, 59*time.Minute + 59*time.Second, 61 * time.Minute, 3*time.Hour + 7*time.Millisecond}[r.Intn(5)]
			time.Sleep(dt)
			trace = append(trace, fmt.Sprintf("advance %v", dt))
			continue
		case 1:
			fail[a] = !fail[a]
			trace = append(trace, fmt.Sprintf("resolver for %s now fails=%v", a, fail[a]))
			continue
		}
		q0 := queries[a]
		names, err := reversedns.GetReverseDns(a)
		queried := queries[a] - q0
		now := time.Now()
		e, has := ref[a]
		valid := has && now.Before(e.expiry)
		trace = append(trace, fmt.Sprintf("get %s -> %v err=%v queried=%d", a, names, err != nil, queried))
		switch {
		case valid:
			if queried != 0 {
				c.Violate("C18", "cache-hit-requeried", fmt.Sprintf("%s: %s was cached until %v but the resolver was queried again", id, a, e.expiry.Sub(now)), trace)
			}
			if err != nil || fmt.Sprint(names) != e.names {
				c.Violate("C18", "cache-hit-wrong-value", fmt.Sprintf("%s: cached %s, got %v err=%v", id, e.names, names, err), trace)
			}
			c.Count("cache_hits", 1)
			c.Nontrivial("rdns-cache/hit")
		default:
			if queried != 1 {
				c.Violate("C18", "cache-miss-not-queried", fmt.Sprintf("%s: no valid entry for %s (has=%v) but resolver queried %d times", id, a, has, queried), trace)
			}
			if has {
				c.Nontrivial("rdns-cache/expired-miss")
			}
			if fail[a] {
				if err == nil && len(names) > 0 {
					c.Violate("C18", "failure-served", fmt.Sprintf("%s: resolver failed for %s but a value %v was returned", id, a, names), trace)
				}
				delete(ref, a) // an expired entry stays expired; nothing new is stored
				c.Nontrivial("rdns-cache/failed-miss")
			} else {
				if err != nil {
					c.Violate("C18", "success-lost", fmt.Sprintf("%s: resolver answered for %s but got error %v", id, a, err), trace)
				}
				if fmt.Sprint(names) != lastAnswer[a] {
					c.Violate("C18", "names-differ-from-answer", fmt.Sprintf("%s: the resolver answered %s for %s, the lookup returned %v", id, lastAnswer[a], a, names), trace)
				}
				ref[a] = entry{names: lastAnswer[a], expiry: now.Add(time.Hour)}
				c.Nontrivial("rdns-cache/stored-miss")
			}
			c.Count("cache_misses", 1)
		}
	}
}

// runC18ManyKeys: a long-lived process looks up many more addresses than one path has (600, each answered); inside the
// hour every one of them - the first as well as the last - is served from the cache without another query, and so is the
// public IP that was stored before them.
func runC18ManyKeys(c *fw.Ctx, id string) {
	resetProcessState()
	var qmu sync.Mutex
	queriesM := map[string]int{}
	rs := installResolver(func(addr string) ([]string, error, time.Duration) {
		qmu.Lock()
		defer qmu.Unlock()
		queriesM[addr]++
		return []string{fmt.Sprintf("q%d.%s.example.", queriesM[addr], addr)}, nil, 0
	})
	defer rs.restore()
	queries := func(a string) int { qmu.Lock(); defer qmu.Unlock(); return queriesM[a] }
	rt := &scriptedRT{scripts: map[string][]providerStep{}, t0: time.Now()}
	for _, h := range providerHosts {
		rt.scripts[h] = []providerStep{{kind: "valid4", ip: "192.0.2.55"}}
	}
	f := publicip.VerifNewPublicIPFetcher(&http.Client{Transport: rt})
	if _, err := f.GetIP(context.Background()); err != nil {
		c.Inconclusive(id + ": " + err.Error())
		return
	}
	n0 := len(rt.log)
	addr := func(i int) string { return fmt.Sprintf("198.51.%d.%d", 100+i/250, 1+i%250) }
	const N = 600
	for i := 0; i < N; i++ {
		if _, err := reversedns.GetReverseDns(addr(i)); err != nil {
			c.Violate("C18", "success-lost", fmt.Sprintf("%s: lookup %d failed: %v", id, i, err), nil)
			return
		}
		if i%100 == 99 {
			time.Sleep(time.Minute)
		}
	}
	for _, i := range []int{0, 1, 255, 511, 512, 513, N - 1} {
		names, err := reversedns.GetReverseDns(addr(i))
		if queries(addr(i)) != 1 || err != nil || len(names) != 1 || !strings.HasPrefix(names[0], "q1.") {
			c.Violate("C18", "cache-hit-requeried", fmt.Sprintf("%s: %s was looked up %d minutes ago (entries live one hour, %d addresses were looked up since): resolver queried %d times, got %v err=%v", id, addr(i), 6, N, queries(addr(i)), names, err), nil)
			return
		}
	}
	if _, err := f.GetIP(context.Background()); err != nil || len(rt.log) != n0 {
		c.Violate("C18", "fetcher-hit-requeried", fmt.Sprintf("%s: the public IP was stored %d minutes ago (2 h expiry) and %d reverse-DNS entries later the providers were asked again (%d new requests, err=%v)", id, 6, N, len(rt.log)-n0, err), nil)
		return
	}
	c.Nontrivial("many-keys")
	c.Count("many_keys_lookups", N)
}

// runC18RequestEnrich: enrichment as a whole request performs it (RunTraceroute with ReverseDns over the simulated wire):
// one router's lookup is slow but successful (3.5 s, inside the 5 s lookup limit), the others answer at once. Every
// answered hop and the destination carry exactly the names the resolver returned for their address.
func runC18RequestEnrich(c *fw.Ctx, id string, k int) {
	resetProcessState()
	proto := []string{"udp", "icmp", "tcp"}[k%3]
	v := map[string]refmatch.Variant{"udp": refmatch.VariantByName("udp4"), "icmp": refmatch.VariantByName("icmp4"), "tcp": refmatch.VariantByName("syn")}[proto]
	target := drive.TargetFor(v, 60+c.Worker)
	params := traceroute.TracerouteParams{Hostname: target.String(), Port: 33434, Protocol: proto, MinTTL: 1, MaxTTL: 6, Delay: 10, Timeout: 200 * time.Millisecond,
		TCPMethod: traceroute.TCPConfigSYN, TracerouteQueries: 2, E2eQueries: 1, ReverseDns: true}
	env, err := newReqEnv(c, params, target, 33434, false)
	if err != nil {
		c.Inconclusive(err.Error())
		return
	}
	defer env.close()
	env.modelFor = func(fk int, e *simEnv) *pathModel { return flowPath(fk, e, 4, true, 2*time.Millisecond) }
	var smu sync.Mutex
	slowSeen := ""
	rs := installResolver(func(addr string) ([]string, error, time.Duration) {
		smu.Lock()
		if slowSeen == "" && addr != target.String() {
			slowSeen = addr
		}
		slow := addr == slowSeen
		smu.Unlock()
		if slow {
			return namesFor(addr), nil, time.Duration(2500+500*(k%4)) * time.Millisecond
		}
		return namesFor(addr), nil, time.Millisecond
	})
	defer rs.restore()
	out, rerr := env.run(context.Background())
	if rerr != nil || out == nil {
		c.Inconclusive(fmt.Sprintf("%s: request failed: %v", id, rerr))
		return
	}
	checked := 0
	for ri, run := range out.Traceroute.Runs {
		if want := namesFor(run.Destination.IPAddress.String()); len(run.Destination.IPAddress) > 0 && fmt.Sprint(run.Destination.ReverseDns) != fmt.Sprint(want) {
			c.Violate("C18", "request-dest-names", fmt.Sprintf("%s: run %d destination %s has names %v, the resolver returned %v", id, ri, run.Destination.IPAddress, run.Destination.ReverseDns, want), nil)
		}
		for _, h := range run.Hops {
			if len(h.IPAddress) == 0 {
				continue
			}
			checked++
			if want := namesFor(h.IPAddress.String()); fmt.Sprint(h.ReverseDns) != fmt.Sprint(want) {
				c.Violate("C18", "request-hop-names", fmt.Sprintf("%s: run %d hop %d (%s) has names %v, the resolver returned %v (one lookup of the request took %v)", id, ri, h.TTL, h.IPAddress, h.ReverseDns, want, time.Duration(2500+500*(k%4))*time.Millisecond), nil)
				return
			}
		}
	}
	if checked > 0 {
		c.Nontrivial(fmt.Sprintf("request-enrich/%s", proto))
	}
	c.Count("request_hops_enriched", checked)
}

// ---------------------------------------------------------------------------------------------
// cache: concurrent histories checked with porcupine against a register-with-expiry model

type lookupIn struct {
	Key string
	T   int64 // virtual ns
}
type lookupOut struct {
	Hit   bool
	Value string
}
type storeIn struct {
	Key    string
	Value  string
	Expiry int64 // virtual ns; 0 = never
}
type regState struct {
	Has    bool
	Value  string
	Expiry int64
}

var cacheModel = porcupine.Model{
	Partition: func(h []porcupine.Operation) [][]porcupine.Operation {
		m := map[string][]porcupine.Operation{}
		for _, op := range h {
			k := ""
			switch in := op.Input.(type) {
			case lookupIn:
				k = in.Key
			case storeIn:
				k = in.Key
			}
			m[k] = append(m[k], op)
		}
		var out [][]porcupine.Operation
		for _, v := range m {
			out = append(out, v)
		}
		return out
	},
	Init: func() interface{} { return regState{} },
	Step: func(st, in, out interface{}) (bool, interface{}) {
		s := st.(regState)
		switch i := in.(type) {
		case storeIn:
			return true, regState{Has: true, Value: i.Value, Expiry: i.Expiry}
		case lookupIn:
			o := out.(lookupOut)
			valid := s.Has && (s.Expiry == 0 || i.T <= s.Expiry)
			if o.Hit {
				return valid && s.Value == o.Value, s
			}
			return !valid, s
		}
		return false, s
	},
	Equal:             func(a, b interface{}) bool { return a.(regState) == b.(regState) },
	DescribeOperation: func(in, out interface{}) string { return fmt.Sprintf("%+v -> %+v", in, out) },
}

func runC18CachePorcupine(c *fw.Ctx, id string, t *testing.T) {
	var ops []porcupine.Operation
	var mu sync.Mutex
	var tick int64
	seed := c.Rng.Int63()
	var t0 time.Time
	synctest.Test(t, func(t *testing.T) {
		resetProcessState()
		t0 = time.Now()
		keys := []string{"k0", "k1", "k2"}
		var wg sync.WaitGroup
		var uniq int64
		nClients := 4
		for cl := 0; cl < nClients; cl++ {
			wg.Add(1)
			cl := cl
			go func() {
				defer wg.Done()
				r := rand.New(rand.NewSource(seed + int64(cl)))
				for i := 0; i < 12; i++ {
					time.Sleep(time.Duration(1+r.Intn(400))*time.Millisecond | 1)
					key := keys[r.Intn(len(keys))]
					ttl := []time.Duration{300 * time.Millisecond, time.Second, 0}[r.Intn(3)]
					failing := r.Intn(4) == 0
					cbDur := time.Duration(r.Intn(300)) * time.Millisecond
					val := fmt.Sprintf("v%d", atomic.AddInt64(&uniq, 1))
					callTick := atomic.AddInt64(&tick, 1)
					callT := time.Since(t0).Nanoseconds()
					var cbStartTick, cbEndTick, cbEndT int64
					invoked := false
					exp := ttl
					if ttl == 0 {
						exp = -1 // cache.NoExpiration
					}
					got, err := cache.GetWithExpiration(key, func() (string, error) {
						invoked = true
						cbStartTick = atomic.AddInt64(&tick, 1)
						time.Sleep(cbDur)
						cbEndTick = atomic.AddInt64(&tick, 1)
						cbEndT = time.Since(t0).Nanoseconds()
						if failing {
							return "", errors.New("scripted callback failure")
						}
						return val, nil
					}, exp)
					retTick := atomic.AddInt64(&tick, 1)
					mu.Lock()
					if !invoked {
						ops = append(ops, porcupine.Operation{ClientId: cl, Input: lookupIn{key, callT}, Call: callTick, Output: lookupOut{true, got}, Return: retTick})
					} else {
						ops = append(ops, porcupine.Operation{ClientId: cl, Input: lookupIn{key, callT}, Call: callTick, Output: lookupOut{false, ""}, Return: cbStartTick})
						if err == nil {
							e := int64(0)
							if ttl > 0 {
								e = cbEndT + ttl.Nanoseconds()
							}
							ops = append(ops, porcupine.Operation{ClientId: cl, Input: storeIn{key, val, e}, Call: cbEndTick, Output: nil, Return: retTick})
						}
					}
					mu.Unlock()
				}
			}()
		}
		wg.Wait()
	})
	res, info := porcupine.CheckOperationsVerbose(cacheModel, ops, 60*time.Second)
	hits, misses, stores := 0, 0, 0
	for _, op := range ops {
		switch o := op.Output.(type) {
		case lookupOut:
			if o.Hit {
				hits++
			} else {
				misses++
			}
		default:
			stores++
		}
	}
	c.Count("porcupine_histories", 1)
	c.Count("porcupine_ops", len(ops))
	c.Count("porcupine_hits", hits)
	c.Count("porcupine_misses", misses)
	switch res {
	case porcupine.Illegal:
		var lines []string
		for _, op := range ops {
			lines = append(lines, fmt.Sprintf("client %d [%d,%d] %+v -> %+v", op.ClientId, op.Call, op.Return, op.Input, op.Output))
		}
		_ = info
		c.Violate("C18", "cache-history-not-linearizable", fmt.Sprintf("%s: the recorded cache history (%d lookups, %d stores) is not explained by a register-with-expiry that stores only successes", id, hits+misses, stores), lines)
	case porcupine.Unknown:
		c.Inconclusive(id + ": porcupine timed out")
	default:
		if hits > 0 && misses > 0 {
			c.Nontrivial(fmt.Sprintf("porcupine/h%d-m%d", bucket(hits), bucket(misses)))
		}
	}
	c.Sample(map[string]any{"case": id, "ops": len(ops), "hits": hits, "misses": misses, "stores": stores, "verdict": fmt.Sprint(res)})
}

// ---------------------------------------------------------------------------------------------
// public-IP discovery with a scripted RoundTripper

type providerStep struct {
	kind string // valid4 valid6 valid-ws garbage s4xx s5xx-garbage transport
	ip   string
}

type scriptedRT struct {
	mu      sync.Mutex
	scripts map[string][]providerStep // host -> remaining steps (last step repeats)
	log     []rtEvent
	t0      time.Time
}

type rtEvent struct {
	host string
	at   time.Duration
	kind string
}

func (s *scriptedRT) RoundTrip(req *http.Request) (*http.Response, error) {
	s.mu.Lock()
	host := req.URL.Host
	steps := s.scripts[host]
	st := providerStep{kind: "transport"}
	if len(steps) > 0 {
		st = steps[0]
		if len(steps) > 1 {
			s.scripts[host] = steps[1:]
		}
	}
	s.log = append(s.log, rtEvent{host, time.Since(s.t0), st.kind})
	s.mu.Unlock()
	time.Sleep(3 * time.Millisecond)
	mk := func(code int, body string) (*http.Response, error) {
		return &http.Response{StatusCode: code, Status: fmt.Sprintf("%d x", code), Body: io.NopCloser(bytes.NewBufferString(body)), Header: http.Header{}, Request: req, ProtoMajor: 1, ProtoMinor: 1}, nil
	}
	switch st.kind {
	case "valid4", "valid6":
		return mk(200, st.ip)
	case "valid-ws":
		return mk(200, "  "+st.ip+"\n\n")
	case "valid-ws-long":
		// the whole body, trimmed, is the address: leading/trailing white space of any (moderate) length
		return mk(200, "\r\n   \t "+st.ip+strings.Repeat(" ", 37)+"\n")
	case "garbage-ip-prefix":
		// starts like an address, padded, then continues: the body as a whole is not an address
		return mk(200, "192.0.2.99"+strings.Repeat(" ", 30)+"<html>captive portal</html>")
	case "garbage-long":
		return mk(200, strings.Repeat("<p>not an address</p>", 300))
	case "garbage":
		return mk(200, "<html>not an address</html>")
	case "s4xx":
		return mk(403, "forbidden")
	case "s429-retry-after":
		// a client error is a client error, whatever hints its headers carry
		resp, _ := mk(429, "slow down")
		resp.Header.Set("Retry-After", "1")
		return resp, nil
	case "s4xx-headers":
		resp, _ := mk([]int{400, 401, 404, 408, 410, 418, 451}[len(host)%7], "no")
		resp.Header.Set("Retry-After", "0")
		resp.Header.Set("Location", "https://example.invalid/")
		return resp, nil
	case "s5xx-garbage":
		return mk(503, "service unavailable")
	}
	return nil, errors.New("scripted transport error: connection reset")
}

var providerHosts = []string{"icanhazip.com", "ipinfo.io", "checkip.amazonaws.com", "api.ipify.org", "whatismyip.akamai.com"}

func runC18PublicIP(c *fw.Ctx, id string) {
	r := c.Rng
	rt := &scriptedRT{scripts: map[string][]providerStep{}, t0: time.Now()}
	type plan struct {
		errsBefore int    // transport errors before the terminal step
		terminal   string // valid4 valid6 valid-ws garbage s4xx s5xx-garbage transport(forever)
		ip         string
	}
	var plans []plan
	for i, h := range providerHosts {
		p := plan{errsBefore: []int{0, 0, 1, 1, 7}[r.Intn(5)], terminal: []string{"valid4", "valid6", "valid-ws", "garbage", "s4xx", "s5xx-garbage", "transport", "valid-ws-long", "valid6-expanded", "garbage-ip-prefix", "garbage-long", "s429-retry-after", "s4xx-headers"}[r.Intn(13)]}
		p.ip = fmt.Sprintf("192.0.2.%d", 10+i)
		if p.terminal == "valid6" {
			p.ip = fmt.Sprintf("2001:db8::%d", 10+i)
		}
		if p.terminal == "valid6-expanded" || (p.terminal == "valid-ws-long" && r.Intn(2) == 0) {
			// the fully expanded spelling (39 characters) of an IPv6 address
			p.ip = fmt.Sprintf("2001:0db8:85a3:0000:0000:8a2e:0370:73%02x", 10+i)
			if p.terminal == "valid6-expanded" {
				p.terminal = "valid-ws-long"
			}
		}
		var steps []providerStep
		for k := 0; k < p.errsBefore; k++ {
			steps = append(steps, providerStep{kind: "transport"})
		}
		steps = append(steps, providerStep{kind: p.terminal, ip: p.ip})
		rt.scripts[h] = steps
		plans = append(plans, p)
	}
	bo := backoff.NewExponentialBackOff()
	bo.InitialInterval = 500 * time.Millisecond
	bo.MaxInterval = 3 * time.Second
	ip, err := publicip.GetPublicIP(context.Background(), &http.Client{Transport: rt}, bo)
	// reference outcome
	wantIdx := -1
	for i, p := range plans {
		valid := strings.HasPrefix(p.terminal, "valid")
		if valid && p.errsBefore <= 1 {
			wantIdx = i
			break
		}
		if valid && p.errsBefore > 1 {
			// 7 transport errors never fit into the 2 s budget (minimum spacing 0.25+0.375+0.56+0.84 s > 2 s): abandoned
			continue
		}
	}
	detail := map[string]any{"plans": fmt.Sprintf("%+v", plans), "requests": fmt.Sprintf("%+v", rt.log), "ip": fmt.Sprint(ip), "err": fmt.Sprint(err)}
	if wantIdx >= 0 {
		if err != nil || !ip.Equal(net.ParseIP(plans[wantIdx].ip)) {
			c.Violate("C18", "publicip-wrong-provider", fmt.Sprintf("%s: expected the address of provider %d (%s), got %v err=%v", id, wantIdx, plans[wantIdx].ip, ip, err), detail)
		}
	} else if err == nil {
		c.Violate("C18", "publicip-invented", fmt.Sprintf("%s: no provider yields a valid address, got %v", id, ip), detail)
	}
	// request-sequence oracle
	lastIdx := -1
	first := map[string]time.Duration{}
	count := map[string]int{}
	terminalSeen := map[string]bool{}
	for _, ev := range rt.log {
		idx := -1
		for i, h := range providerHosts {
			if h == ev.host {
				idx = i
			}
		}
		if idx < lastIdx {
			c.Violate("C18", "publicip-order", fmt.Sprintf("%s: provider %s queried after a later provider", id, ev.host), detail)
		}
		if idx > lastIdx+1 {
			c.Violate("C18", "publicip-skipped", fmt.Sprintf("%s: provider %d queried before provider %d", id, idx, lastIdx+1), detail)
		}
		if idx > lastIdx {
			lastIdx = idx
		}
		if terminalSeen[ev.host] {
			c.Violate("C18", "publicip-retry-after-final", fmt.Sprintf("%s: provider %s queried again after a final answer (client error / invalid body / valid address)", id, ev.host), detail)
		}
		if _, ok := first[ev.host]; !ok {
			first[ev.host] = ev.at
		}
		if ev.at-first[ev.host] > 2*time.Second+time.Millisecond {
			c.Violate("C18", "publicip-retry-after-budget", fmt.Sprintf("%s: provider %s retried %v after its first request (budget 2 s)", id, ev.host, ev.at-first[ev.host]), detail)
		}
		count[ev.host]++
		if ev.kind != "transport" {
			terminalSeen[ev.host] = true
		}
		c.Count("publicip_requests", 1)
	}
	if wantIdx >= 0 && lastIdx > wantIdx {
		c.Violate("C18", "publicip-not-stopped", fmt.Sprintf("%s: providers after the first valid one (%d) were queried", id, wantIdx), detail)
	}
	for i, p := range plans {
		if i <= lastIdx {
			c.Nontrivial(fmt.Sprintf("publicip/%s/errs%d", p.terminal, p.errsBefore))
		}
	}
	c.Sample(map[string]any{"case": id, "plans": fmt.Sprintf("%+v", plans), "requests": len(rt.log), "ip": fmt.Sprint(ip)})
}

// runC18FetcherCache: the production PublicIPFetcher (cache + provider iteration) on a scripted HTTP client:
// a success is returned as-is (IPv4 or IPv6), served from the cache without re-querying until its 2 h expiry,
// re-queried afterwards; a failure is never cached.
func runC18FetcherCache(c *fw.Ctx, id string) {
	resetProcessState()
	r := c.Rng
	rt := &scriptedRT{scripts: map[string][]providerStep{}, t0: time.Now()}
	v6 := r.Intn(2) == 0
	ip := fmt.Sprintf("192.0.2.%d", 20+r.Intn(200))
	kind := "valid4"
	if v6 {
		ip = fmt.Sprintf("2001:db8::%x", 20+r.Intn(200))
		kind = "valid6"
	}
	firstValid := r.Intn(len(providerHosts))
	failFirst := r.Intn(3) == 0 // the very first call finds no provider at all
	setScripts := func(working bool) {
		for i, h := range providerHosts {
			switch {
			case working && i == firstValid:
				rt.scripts[h] = []providerStep{{kind: kind, ip: ip}}
			case i%2 == 0:
				rt.scripts[h] = []providerStep{{kind: "garbage"}}
			default:
				rt.scripts[h] = []providerStep{{kind: "s4xx"}}
			}
		}
	}
	f := publicip.VerifNewPublicIPFetcher(&http.Client{Transport: rt})
	nreq := func() int { rt.mu.Lock(); defer rt.mu.Unlock(); return len(rt.log) }
	detail := func() any { rt.mu.Lock(); defer rt.mu.Unlock(); return fmt.Sprintf("%+v", rt.log) }
	if failFirst {
		setScripts(false)
		got, err := f.GetIP(context.Background())
		if err == nil {
			c.Violate("C18", "fetcher-invented", fmt.Sprintf("%s: no provider has a valid address but GetIP returned %v", id, got), detail())
		}
		n0 := nreq()
		setScripts(true)
		got, err = f.GetIP(context.Background())
		if nreq() == n0 {
			c.Violate("C18", "fetcher-failure-cached", id+": after a failed discovery the next call did not query the providers again", detail())
		} else if err != nil || !got.Equal(net.ParseIP(ip)) {
			c.Violate("C18", "fetcher-wrong-address", fmt.Sprintf("%s: expected %s after the providers recovered, got %v err=%v", id, ip, got, err), detail())
		}
		c.Nontrivial("fetcher/failure-then-success")
	} else if r.Intn(2) == 0 {
		// a cold cache met by several callers at once (requests arriving together on one server): each of them gets the
		// address, and once the burst is over the address is stored - whoever fetched it
		setScripts(true)
		var wg sync.WaitGroup
		for k := 0; k < 3; k++ {
			wg.Add(1)
			go func() {
				defer wg.Done()
				got, err := f.GetIP(context.Background())
				if err != nil || !got.Equal(net.ParseIP(ip)) {
					c.Violate("C18", "fetcher-wrong-address/burst/"+kind, fmt.Sprintf("%s: provider %d answers %s, one of three concurrent GetIP calls returned %v err=%v", id, firstValid, ip, got, err), detail())
				}
			}()
		}
		wg.Wait()
		c.Nontrivial("fetcher/cold-burst")
	} else {
		setScripts(true)
		got, err := f.GetIP(context.Background())
		if err != nil || !got.Equal(net.ParseIP(ip)) {
			c.Violate("C18", "fetcher-wrong-address/"+kind, fmt.Sprintf("%s: provider %d answers %s, GetIP returned %v err=%v", id, firstValid, ip, got, err), detail())
		}
	}
	// cached until expiry
	n1 := nreq()
	time.Sleep(time.Duration(1+r.Intn(110)) * time.Minute)
	got, err := f.GetIP(context.Background())
	if nreq() != n1 {
		c.Violate("C18", "fetcher-hit-requeried", id+": a cached public IP was re-queried before its expiry", detail())
	}
	if err != nil || !got.Equal(net.ParseIP(ip)) {
		c.Violate("C18", "fetcher-hit-wrong-value/"+kind, fmt.Sprintf("%s: cached %s, got %v err=%v", id, ip, got, err), detail())
	}
	// expired
	time.Sleep(2*time.Hour + time.Minute)
	f.GetIP(context.Background())
	if nreq() == n1 {
		c.Violate("C18", "fetcher-expiry-ignored", id+": the public IP was served from the cache after its 2 h expiry", detail())
	}
	c.Nontrivial("fetcher/" + kind)
	c.Count("fetcher_scenarios", 1)
}

// runC18ProductionPath (REAL clock, real sockets on loopback): the fetcher exactly as production builds it
// (traceroute.NewTraceroute / server.NewServer -> publicip.NewPublicIPFetcher -> its own HTTP client cloned from
// http.DefaultTransport, the hard-coded https:// providers). The providers are reached through a local CONNECT proxy
// that tunnels every one of them to one local TLS server counting the requests. Requests without any probing (0 runs,
// 0 samples) through one Traceroute value, then through one Server: the address in every document is the provider's, and
// inside the 2 h expiry the providers are asked exactly once - whichever object asks.
// runC18RealtimeSlowNeighbour: a cold-cache batch on the REAL clock in which one address's resolver hangs until its
// context ends while the others answer after 20 ms - also when their lookups start a little later than the slow one.
// A slow or failed lookup never alters the rest: the quick addresses have their names, and a second batch gets them
// from the cache. (Goroutines queued on a lock behind the slow lookup would freeze a virtual clock; here they cost
// the quick addresses their names or about five seconds each.)
func runC18RealtimeSlowNeighbour(c *fw.Ctx, id string) {
	resetProcessState()
	old := reversedns.LookupAddrFn
	defer func() { reversedns.LookupAddrFn = old }()
	slow := "198.51.78.1"
	var mu sync.Mutex
	queries := map[string]int{}
	slowStarted := make(chan struct{})
	var once sync.Once
	reversedns.LookupAddrFn = func(ctx context.Context, addr string) ([]string, error) {
		mu.Lock()
		queries[addr]++
		mu.Unlock()
		if addr == slow {
			once.Do(func() { close(slowStarted) })
			select {
			case <-ctx.Done():
				return nil, ctx.Err()
			case <-time.After(14 * time.Second): // harness escape hatch
				return nil, errors.New("released by harness")
			}
		}
		// the quick resolvers answer once the slow lookup is under way
		select {
		case <-slowStarted:
		case <-time.After(2 * time.Second):
		}
		select {
		case <-ctx.Done():
			return nil, ctx.Err()
		case <-time.After(20 * time.Millisecond):
		}
		return namesFor(addr), nil
	}
	ips := []net.IP{net.ParseIP(slow).To4()}
	for i := 2; i <= 5; i++ {
		ips = append(ips, net.ParseIP(fmt.Sprintf("198.51.78.%d", i)).To4())
	}
	t0 := time.Now()
	got, _ := reversedns.GetReverseDnsForIPs(ips)
	el := time.Since(t0)
	c.Nontrivial("realtime-slow-neighbour")
	c.Count("slow_neighbour_batch_ms", int(el.Milliseconds()))
	for _, ip := range ips[1:] {
		if fmt.Sprint(got[string(ip)]) != fmt.Sprint(namesFor(ip.String())) {
			c.Violate("C18", "slow-lookup-alters-others", fmt.Sprintf("%s: %s has names %v after a batch in which only %s was slow (batch took %v); its resolver answers %v after 20 ms", id, ip, got[string(ip)], slow, el.Round(10*time.Millisecond), namesFor(ip.String())), nil)
			return
		}
	}
	if el > 13*time.Second {
		c.Violate("C08", "rdns-realtime-bound", fmt.Sprintf("%s: a batch with one stalled lookup took %v of real time; its timeout is 5 s", id, el.Round(100*time.Millisecond)), nil)
	}
	// second batch, quick addresses only: served from the cache
	before := map[string]int{}
	mu.Lock()
	for k, v := range queries {
		before[k] = v
	}
	mu.Unlock()
	again, _ := reversedns.GetReverseDnsForIPs(ips[1:])
	mu.Lock()
	defer mu.Unlock()
	for _, ip := range ips[1:] {
		if queries[ip.String()] != before[ip.String()] || fmt.Sprint(again[string(ip)]) != fmt.Sprint(namesFor(ip.String())) {
			c.Violate("C18", "cache-hit-requeried", fmt.Sprintf("%s: %s was looked up again (%d -> %d queries) or lost its names (%v) in the batch that followed", id, ip, before[ip.String()], queries[ip.String()], again[string(ip)]), nil)
			return
		}
	}
}

func runC18ProductionPath(c *fw.Ctx, id string) {
	resetProcessState()
	const publicIP = "203.0.113.7"
	var hits atomic.Int32
	backend := httptest.NewTLSServer(http.HandlerFunc(func(w http.ResponseWriter, _ *http.Request) {
		hits.Add(1)
		w.Header().Set("Connection", "close")
		w.Write([]byte(publicIP + "\n"))
	}))
	defer backend.Close()
	proxy := httptest.NewServer(http.HandlerFunc(func(w http.ResponseWriter, r *http.Request) {
		if r.Method != http.MethodConnect {
			http.Error(w, "CONNECT only", http.StatusMethodNotAllowed)
			return
		}
		up, err := net.Dial("tcp", backend.Listener.Addr().String())
		if err != nil {
			http.Error(w, err.Error(), http.StatusBadGateway)
			return
		}
		conn, _, err := w.(http.Hijacker).Hijack()
		if err != nil {
			up.Close()
			return
		}
		conn.Write([]byte("HTTP/1.1 200 Connection established\r\n\r\n"))
		go func() { io.Copy(up, conn); up.Close() }()
		io.Copy(conn, up)
		conn.Close()
	}))
	defer proxy.Close()
	proxyURL, _ := url.Parse(proxy.URL)
	dt := http.DefaultTransport.(*http.Transport)
	oldProxy, oldTLS := dt.Proxy, dt.TLSClientConfig
	dt.Proxy = http.ProxyURL(proxyURL)
	dt.TLSClientConfig = &tls.Config{InsecureSkipVerify: true}
	defer func() { dt.Proxy, dt.TLSClientConfig = oldProxy, oldTLS }()

	tr := traceroute.NewTraceroute()
	params := traceroute.TracerouteParams{Hostname: "192.0.2.1", Protocol: "udp", MinTTL: 1, MaxTTL: 5, Timeout: 100 * time.Millisecond, CollectSourcePublicIP: true}
	step := 0
	judge := func(got string, err error) bool {
		step++
		if err != nil {
			c.Inconclusive(fmt.Sprintf("%s: request %d failed: %v", id, step, err))
			return false
		}
		if got != publicIP {
			c.Violate("C18", "production-path/wrong-address", fmt.Sprintf("%s: request %d reports public IP %q, the provider answers %s", id, step, got, publicIP), nil)
			return false
		}
		if h := hits.Load(); h != 1 {
			c.Violate("C18", "production-path/requeried", fmt.Sprintf("%s: after request %d the providers have been asked %d times; a stored success is served without re-querying until its 2 h expiry", id, step, h), nil)
			return false
		}
		return true
	}
	for run := 0; run < 3; run++ {
		ctx, cancel := context.WithTimeout(context.Background(), 15*time.Second)
		res, err := tr.RunTraceroute(ctx, params)
		cancel()
		got := ""
		if res != nil {
			got = res.Source.PublicIP
		}
		if !judge(got, err) {
			return
		}
	}
	srv := server.NewServer()
	for run := 0; run < 2; run++ {
		rec := httptest.NewRecorder()
		srv.TracerouteHandler(rec, httptest.NewRequest("GET", "/traceroute?target=192.0.2.1&protocol=udp&traceroute-queries=0&e2e-queries=0&timeout=100&source-public-ip=true", nil))
		var doc result.Results
		err := json.Unmarshal(rec.Body.Bytes(), &doc)
		if rec.Code != 200 && err == nil {
			err = fmt.Errorf("status %d: %s", rec.Code, rec.Body.String())
		}
		if !judge(doc.Source.PublicIP, err) {
			return
		}
	}
	c.Nontrivial("production-path")
	c.Count("production_path_requests", step)
}

func checkC18() fw.Check {
	return fw.Check{
		Prop:  "C18",
		Level: "exploration",
		Rule: "four workloads under the race detector: (1) Results.EnrichWithReverseDns on generated documents (duplicates, 4/16-byte encodings of one address, empty hops) with a scripted resolver per address in {names, empty, error, slow, slower than the 5 s timeout}, oracle field-by-field; (2) sequential random get/advance/fail programs on reversedns.GetReverseDns against an exact reference map with 1 h expiry (names change on every query so stale or re-queried data is visible); (3) concurrent cache.GetWithExpiration histories recorded at the call boundary as lookup and store operations with virtual timestamps and checked per key with porcupine against a register-with-expiry model that stores only successes; (4) publicip.GetPublicIP with a scripted RoundTripper per provider (valid v4/v6/whitespace, garbage, 4xx, 5xx+garbage, k transport errors first), oracle on the recorded request sequence and final address. " +
			"distinct_nontrivial counts distinct behaviour signatures exercised (resolver behaviour x encoding, cache hit/miss kinds, porcupine hit/miss buckets, provider terminal x retries)",
		Workers:       1,
		MinNontrivial: 25,
		Assumptions:   []string{"the cache is replaced by a janitor-less instance stamped with the bubble clock", "get-or-compute atomicity is not part of the property (two concurrent misses may both query)", "Linux build"},
		Gen: func(tier string, seed int64) []fw.Case {
			n := 120
			if tier == "thorough" {
				n = 50000
			}
			var cases []fw.Case
			for i := 0; i < n; i++ {
				i := i
				cases = append(cases, fw.Case{ID: fmt.Sprintf("C18/enrich/%d", i), Bubble: true, Run: func(c *fw.Ctx) { runC18Enrich(c, c.ID) }})
				cases = append(cases, fw.Case{ID: fmt.Sprintf("C18/rdns-cache/%d", i), Bubble: true, Run: func(c *fw.Ctx) { runC18RdnsCache(c, c.ID) }})
				cases = append(cases, fw.Case{ID: fmt.Sprintf("C18/cache-porcupine/%d", i), Bubble: false, Run: func(c *fw.Ctx) { runC18CachePorcupine(c, c.ID, c.T) }})
				cases = append(cases, fw.Case{ID: fmt.Sprintf("C18/publicip/%d", i), Bubble: true, Run: func(c *fw.Ctx) { runC18PublicIP(c, c.ID) }})
				if i == 0 {
					cases = append(cases, fw.Case{ID: "C18/many-keys", Bubble: true, Run: func(c *fw.Ctx) { runC18ManyKeys(c, c.ID) }})
					for k := 0; k < 4; k++ {
						k := k
						cases = append(cases, fw.Case{ID: fmt.Sprintf("C18/request-enrich/%d", k), Bubble: true, Run: func(c *fw.Ctx) { runC18RequestEnrich(c, c.ID, k) }})
					}
					cases = append(cases, fw.Case{ID: "C18/production-path", Run: func(c *fw.Ctx) { runC18ProductionPath(c, c.ID) }})
					// (first in the list: what it detects freezes the bubbles of the cases after it)
					cases = append([]fw.Case{{ID: "C18/realtime-slow-neighbour", Run: func(c *fw.Ctx) { runC18RealtimeSlowNeighbour(c, c.ID) }}}, cases...)
				}
				cases = append(cases, fw.Case{ID: fmt.Sprintf("C18/fetcher-cache/%d", i), Bubble: true, Run: func(c *fw.Ctx) { runC18FetcherCache(c, c.ID) }})
			}
			return cases
		},
	}
}
