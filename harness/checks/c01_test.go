package checks

import (
	"encoding/binary"
	"fmt"
	"math/rand"
	"net/netip"
	"time"

	"verif/harness/drive"
	"verif/harness/fw"
	"verif/harness/gen"
	"verif/harness/refmatch"
	"verif/harness/wirefmt"
)

func init() { register("C01", checkC01) }

// latticeCtx numbers the non-genuine frames of one run so that each carries a unique source address.
type latticeCtx struct {
	n      int
	fields map[string]bool // "field:class" delivered
}

func (l *latticeCtx) next(v6 bool) netip.Addr {
	l.n++
	return uniqueAddr(v6, l.n)
}

// otherIdentities are identifier values belonging to a different (concurrent or previous) run.
type otherIdentities struct {
	echoID uint16
	port   uint16
	ipid   uint16
	seq    uint32
}

// lattice emits the single-field perturbation lattice around the genuine reply to probe p.
// Every frame differs from a genuine time-exceeded for p in exactly one identifying field (or is a
// perturbed direct reply) and is scheduled before any genuine reply can arrive.
func lattice(e *simEnv, p *refmatch.Probe, l *latticeCtx, other otherIdentities, r *rand.Rand, full bool) {
	v := e.spec.V
	at := 300 * time.Microsecond
	emit := func(b []byte, field, class string) {
		at += 2 * time.Microsecond
		e.inject(b, "perturbed:"+field+":"+class, p, oddUS(at))
		l.fields[field+":"+class] = true
	}
	base := gen.QuoteBytes(p, 1, "fix")
	for _, f := range gen.QuoteFields(v) {
		w := f.Len
		if w > 4 {
			w = 4
		}
		x := gen.Get(base, f)
		type pv struct {
			name string
			val  uint64
		}
		var vals []pv
		for _, cl := range gen.Classes {
			if cl.Name == "plus256" && w < 2 {
				continue
			}
			vals = append(vals, pv{cl.Name, cl.F(x, w)})
		}
		if f.PerProbe {
			// identifier of a TTL not yet probed, and of TTLs outside the window
			step := func(k int) uint64 { return uint64(int64(x) + int64(k)) }
			vals = append(vals, pv{"future+3", step(3)}, pv{"beyond-last", step(int(e.spec.MaxTTL) - p.TTL + 1)}, pv{"below-first", step(int(e.spec.MinTTL) - p.TTL - 1)},
				pv{"alias+256", step(256)}, pv{"alias+512", step(512)}, pv{"alias+65536", step(65536)})
		}
		switch f.Name {
		case "qechoid":
			vals = append(vals, pv{"other-run", uint64(other.echoID)})
		case "qsport":
			vals = append(vals, pv{"other-run", uint64(other.port)})
		case "qipid":
			vals = append(vals, pv{"other-run", uint64(other.ipid) + uint64(p.TTL)})
		case "qseq":
			vals = append(vals, pv{"other-run", uint64(other.seq) + uint64(p.TTL)})
		}
		for _, pvv := range vals {
			if pvv.val&maskW(w) == x {
				continue
			}
			if !full && r.Intn(3) != 0 && !f.PerProbe {
				continue
			}
			q := append([]byte(nil), base...)
			gen.Set(q, f, pvv.val)
			if !v.V6 {
				gen.FixIPv4Checksum(q, "fix")
			}
			style := "min"
			if f.Name == "qplen" {
				style = "min"
			}
			emit(gen.WrapError(l.next(v.V6), e.local, gen.TimeExceeded, 0, q, style, nil, 0), f.Name, pvv.name)
			if v.Proto == "udp" {
				// the same perturbed quote inside the other ICMP error a UDP probe elicits: destination unreachable (port
				// unreachable). Which error type carries the quote changes nothing about whose probe it quotes
				code := uint8(3)
				if v.V6 {
					code = 4
				}
				emit(gen.WrapError(l.next(v.V6), e.local, gen.DestUnreach, code, q, "full", nil, 0), f.Name+"@unreachable", pvv.name)
			}
		}
	}
	if !v.V6 && len(base) >= 28 {
		// a quote whose IP header carries 8 option bytes (IHL 7) that spell this probe's transport identifiers, followed
		// by the transport header of a DIFFERENT flow: a matcher that reads the quoted transport header at a fixed
		// 20-byte offset would take the option bytes for the probe's ports / sequence / echo id
		q := make([]byte, 0, len(base)+8)
		q = append(q, base[:20]...)
		q = append(q, base[20:28]...) // "options" = the genuine first 8 transport bytes
		foreign := append([]byte(nil), base[20:]...)
		for i := 0; i < 8 && i < len(foreign); i++ {
			foreign[i] ^= 0x5a
		}
		q = append(q, foreign...)
		q[0] = 0x47
		binary.BigEndian.PutUint16(q[2:], uint16(len(q)))
		gen.FixIPv4Checksum(q, "fix")
		emit(gen.WrapError(l.next(false), e.local, gen.TimeExceeded, 0, q, "full", nil, 0), "qhdr-options", "l4-in-options")
	}
	if !v.V6 && len(base) >= 28 {
		// cross-family: an ICMPv6 time-exceeded whose outer and quoted IPv6 headers spell this run's IPv4 addresses
		// as IPv4-mapped IPv6 (::ffff:a.b.c.d) and quote the probe's own transport header. An IPv6 packet cannot
		// answer an IPv4 probe; a parser that un-maps addresses would see the probe's own flow.
		m := func(a netip.Addr) netip.Addr { return netip.AddrFrom16(a.As16()) }
		l4 := append([]byte(nil), base[20:]...)
		nh := base[9]
		if nh == wirefmt.ProtoICMP {
			nh = wirefmt.ProtoICMPv6
			l4[0] = 128
		}
		pl := p.IPID // the UDP-over-IPv6 scheme identifies a probe by the quoted payload length
		for _, plen := range []*uint16{&pl, nil} {
			q6 := wirefmt.IPv6{NextHeader: nh, HopLimit: 1, Src: m(e.local), Dst: m(e.spec.Target), PayloadLen: plen}.Marshal(l4)
			from := m(l.next(false))
			msg := wirefmt.ICMPv6(from, m(e.local), 3, 0, [4]byte{}, q6)
			cl := "v4mapped-icmpv6"
			if plen != nil {
				cl = "v4mapped-icmpv6-plen=ipid"
			}
			emit(wirefmt.IPv6{NextHeader: wirefmt.ProtoICMPv6, HopLimit: 250, Src: from, Dst: m(e.local)}.Marshal(msg), "xfamily", cl)
		}
	}
	{
		// runts: a frame that ends right after its IP header although the header announces a full reply. Whatever
		// the capture buffer held before must not be parsed as this frame's body (the reply just read was genuine).
		from := l.next(v.V6)
		if v.V6 {
			plen := uint16(8 + len(base))
			emit(wirefmt.IPv6{NextHeader: wirefmt.ProtoICMPv6, HopLimit: 250, Src: from, Dst: e.local, PayloadLen: &plen}.Marshal(nil), "runt", "iphdr-only/icmp")
		} else {
			full := gen.WrapError(from, e.local, gen.TimeExceeded, 0, base, "min", nil, 0)
			emit(append([]byte(nil), full[:20]...), "runt", "iphdr-only/icmp")
			if v.Proto == "syn" || v.Proto == "sack" {
				fullT := gen.TCPReply(from, e.local, e.spec.Port, e.lport, 1, p.Seq+1, wirefmt.TCPSyn|wirefmt.TCPAck, nil, nil, nil)
				emit(append([]byte(nil), fullT[:20]...), "runt", "iphdr-only/tcp")
			}
		}
	}
	// direct replies
	tgt := e.spec.Target
	switch v.Proto {
	case "icmp":
		// echo replies: wrong id, aliasing sequence, not-yet-sent sequence, right identifiers from a foreign host
		emit(gen.EchoReply(tgt, e.local, e.echoID+1, uint16(p.Seq), nil, nil), "echoid", "plus1")
		emit(gen.EchoReply(tgt, e.local, other.echoID, uint16(p.Seq), nil, nil), "echoid", "other-run")
		emit(gen.EchoReply(tgt, e.local, e.echoID^0x8000, uint16(p.Seq), nil, nil), "echoid", "fliphi")
		emit(gen.EchoReply(tgt, e.local, e.echoID, uint16(p.Seq)+256, nil, nil), "echoseq", "alias+256")
		emit(gen.EchoReply(tgt, e.local, e.echoID, uint16(p.Seq)+3, nil, nil), "echoseq", "future+3")
		emit(gen.EchoReply(tgt, e.local, e.echoID, uint16(e.spec.MaxTTL)+1, nil, nil), "echoseq", "beyond-last")
		emit(gen.EchoReply(l.next(v.V6), e.local, e.echoID, uint16(p.Seq), nil, nil), "echosrc", "foreign-host")
	case "syn":
		sa := uint8(wirefmt.TCPSyn | wirefmt.TCPAck)
		emit(gen.TCPReply(l.next(false), e.local, e.spec.Port, e.lport, 1, p.Seq+1, sa, nil, nil, nil), "tcpsrc", "foreign-host")
		emit(gen.TCPReply(tgt, e.local, e.spec.Port+1, e.lport, 1, p.Seq+1, sa, nil, nil, nil), "tcpsport", "plus1")
		emit(gen.TCPReply(tgt, e.local, e.spec.Port, e.lport+1, 1, p.Seq+1, sa, nil, nil, nil), "tcpdport", "plus1")
		emit(gen.TCPReply(tgt, e.local, e.spec.Port, other.port, 1, p.Seq+1, sa, nil, nil, nil), "tcpdport", "other-run")
		emit(gen.TCPReply(tgt, e.local, e.spec.Port, e.lport, 1, p.Seq+2, sa, nil, nil, nil), "tcpack", "plus1")
		emit(gen.TCPReply(tgt, e.local, e.spec.Port, e.lport, 1, p.Seq+1+256, sa, nil, nil, nil), "tcpack", "plus256")
		emit(gen.TCPReply(tgt, e.local, e.spec.Port, e.lport, 1, p.Seq+2, wirefmt.TCPRst|wirefmt.TCPAck, nil, nil, nil), "tcpack", "rstack-plus1")
		emit(gen.TCPReply(tgt, e.local, e.spec.Port, e.lport, 1, p.Seq+1, wirefmt.TCPAck, nil, nil, nil), "tcpflags", "ack-only")
		emit(gen.TCPReply(tgt, e.local, e.spec.Port, e.lport, 1, p.Seq+1, wirefmt.TCPFin|wirefmt.TCPAck, nil, nil, nil), "tcpflags", "fin-ack")
		emit(gen.TCPReply(tgt, e.local, e.spec.Port, e.lport, 1, 0, wirefmt.TCPSyn, nil, nil, nil), "tcpflags", "syn-only")
		emit(gen.TCPReply(l.next(false), e.local, e.spec.Port, e.lport, 1, 0, wirefmt.TCPRst, nil, nil, nil), "tcpsrc", "rst-foreign-host")
	case "sack":
		blk := func(rel uint32) []byte {
			return append([]byte{1, 1}, wirefmt.OptSack([][2]uint32{{e.isn + rel, e.isn + rel + 1}})...)
		}
		t := uint32(p.TTL)
		emit(gen.TCPReply(l.next(false), e.local, e.spec.Port, e.lport, 9, e.isn, wirefmt.TCPAck, blk(t), nil, nil), "tcpsrc", "foreign-host")
		emit(gen.TCPReply(tgt, e.local, e.spec.Port+1, e.lport, 9, e.isn, wirefmt.TCPAck, blk(t), nil, nil), "tcpsport", "plus1")
		emit(gen.TCPReply(tgt, e.local, e.spec.Port, e.lport+1, 9, e.isn, wirefmt.TCPAck, blk(t), nil, nil), "tcpdport", "plus1")
		emit(gen.TCPReply(tgt, e.local, e.spec.Port, other.port, 9, e.isn, wirefmt.TCPAck, blk(t), nil, nil), "tcpdport", "other-run")
		emit(gen.TCPReply(tgt, e.local, e.spec.Port, e.lport, 9, e.isn, wirefmt.TCPAck, blk(t+256), nil, nil), "sackedge", "alias+256")
		emit(gen.TCPReply(tgt, e.local, e.spec.Port, e.lport, 9, e.isn, wirefmt.TCPAck, blk(t+65536), nil, nil), "sackedge", "alias+65536")
		emit(gen.TCPReply(tgt, e.local, e.spec.Port, e.lport, 9, e.isn, wirefmt.TCPAck, blk(t+3), nil, nil), "sackedge", "future+3")
		emit(gen.TCPReply(tgt, e.local, e.spec.Port, e.lport, 9, e.isn, wirefmt.TCPAck, blk(uint32(e.spec.MaxTTL)+1), nil, nil), "sackedge", "beyond-last")
		emit(gen.TCPReply(tgt, e.local, e.spec.Port, e.lport, 9, e.isn, wirefmt.TCPAck, blk(uint32(e.spec.MinTTL)-1), nil, nil), "sackedge", "below-first")
		emit(gen.TCPReply(tgt, e.local, e.spec.Port, e.lport, 9, e.isn, wirefmt.TCPAck, blk(other.seq-e.isn+t), nil, nil), "sackedge", "other-run")
		emit(gen.TCPReply(tgt, e.local, e.spec.Port, e.lport, 9, e.isn, wirefmt.TCPAck|wirefmt.TCPFin, blk(t), nil, nil), "tcpflags", "fin")
		emit(gen.TCPReply(tgt, e.local, e.spec.Port, e.lport, 9, e.isn, wirefmt.TCPAck|wirefmt.TCPRst, blk(t), nil, nil), "tcpflags", "rst")
	case "udp":
		// a UDP datagram from the target's port back to us is not a reply form
		emit(udpFrame(tgt, e.local, e.spec.Port, e.lport, v.V6), "direct", "udp-datagram")
		if p.TTL%2 == 0 {
			// a port-unreachable for this very probe sent by a host that is NOT the target (a firewall answering on the
			// target's behalf, a multi-homed host): a legitimate reply - the hop is that sender's, under that sender's
			// address, and it is not the destination
			code := uint8(3)
			if v.V6 {
				code = 4
			}
			emit(gen.WrapError(l.next(v.V6), e.local, gen.DestUnreach, code, base, "min", nil, 0), "dusrc", "port-unreachable-from-foreign-host")
		}
	}
	// unrelated traffic
	emit(udpFrame(l.next(v.V6), e.local, 53, 40000, v.V6), "noise", "dns")
}

// runtBehind schedules header-only frames (IP header announcing a full ICMP / TCP reply, nothing behind it) from a
// foreign address immediately after the genuine reply to p.
func runtBehind(e *simEnv, p *refmatch.Probe, l *latticeCtx, after time.Duration) {
	v := e.spec.V
	from := l.next(v.V6)
	base := gen.QuoteBytes(p, 1, "fix")
	emit := func(b []byte, class string) {
		e.inject(b, "perturbed:runt:"+class, p, oddUS(after+4*time.Microsecond))
		l.fields["runt:"+class] = true
	}
	if v.V6 {
		plen := uint16(8 + len(base))
		emit(wirefmt.IPv6{NextHeader: wirefmt.ProtoICMPv6, HopLimit: 250, Src: from, Dst: e.local, PayloadLen: &plen}.Marshal(nil), "behind-genuine/icmp")
		return
	}
	full := gen.WrapError(from, e.local, gen.TimeExceeded, 0, base, "min", nil, 0)
	emit(append([]byte(nil), full[:20]...), "behind-genuine/icmp")
	if v.Proto == "syn" || v.Proto == "sack" {
		fullT := gen.TCPReply(from, e.local, e.spec.Port, e.lport, 1, p.Seq+1, wirefmt.TCPSyn|wirefmt.TCPAck, nil, nil, nil)
		emit(append([]byte(nil), fullT[:20]...), "behind-genuine/tcp")
	}
}

func maskW(w int) uint64 {
	if w >= 8 {
		return ^uint64(0)
	}
	return uint64(1)<<(8*uint(w)) - 1
}

func udpFrame(from, to netip.Addr, sp, dp uint16, v6 bool) []byte {
	d := wirefmt.UDP(from, to, sp, dp, []byte("hello world"))
	if v6 {
		return wirefmt.IPv6{NextHeader: wirefmt.ProtoUDP, HopLimit: 50, Src: from, Dst: to}.Marshal(d)
	}
	return wirefmt.IPv4{TTL: 50, Proto: wirefmt.ProtoUDP, Src: from, Dst: to}.Marshal(d)
}

// baselinePath: random length, some hops silent, destination at a random distance or never.
func baselinePath(e *simEnv, w window, r *rand.Rand) *pathModel {
	v := e.spec.V
	m := &pathModel{hops: map[int]*hopSpec{}}
	n := w.last - w.first + 1
	dist := 0
	switch r.Intn(3) {
	case 0:
		dist = w.first + r.Intn(n)
	case 1:
		dist = w.last
	}
	last := w.last
	if dist > 0 {
		m.dist = dist
		last = dist - 1
	}
	for t := w.first; t <= last; t++ {
		hs := &hopSpec{addr: routerAddr(v.V6, 1, t), delay: time.Duration(5+r.Intn(60)) * time.Millisecond}
		if r.Intn(4) == 0 {
			hs.silent = true
		}
		m.hops[t] = hs
	}
	m.destDelay = time.Duration(5+r.Intn(60)) * time.Millisecond
	return m
}

func checkC01() fw.Check {
	return fw.Check{
		Prop:  "C01",
		Level: "exploration",
		Rule: "one case = (variant, TTL window, identifier base): a baseline path plus, around every probe, the single-field perturbation lattice (every identifying field of the variant x value classes +-1, +256, flipped high/low byte, 0, all-ones, other run's value, not-yet-sent TTL, TTLs outside the window, mod-256/65536 aliases), perturbed direct replies, the tool's own looped-back probes, stale replies of a previous run and unrelated traffic - each non-genuine frame from a unique source address and scheduled before any genuine reply; oracle = exact reference fold (parallel variants) / per-hop soundness (serial). " +
			"distinct_nontrivial counts distinct (variant, field, value-class) triples of which at least one frame was read by the tool in a run that also accepted a genuine reply",
		Workers:       16,
		MinNontrivial: 100,
		Assumptions:   []string{"wirefmt encoder and refmatch reference matcher are trusted", "Linux build", "Paris-mode sequence numbers are drawn by math/rand inside the repository and observed, not controlled"},
		Gen: func(tier string, seed int64) []fw.Case {
			wins, bases := windowsThorough, basesThorough[:3]
			seeds := 1
			if tier == "thorough" {
				wins, bases = thoroughWindows(seed, 12), thoroughBases(seed, 6)
				seeds = 30
			}
			var cases []fw.Case
			for _, v := range refmatch.Variants {
				for _, w := range wins {
					for _, b := range bases {
						for s := 0; s < seeds; s++ {
							v, w, b, s := v, w, b, s
							id := fmt.Sprintf("C01/%s/%d-%d/%s/s%d", v.Name, w.first, w.last, b.name, s)
							cases = append(cases, fw.Case{ID: id, Bubble: true, Run: func(c *fw.Ctx) { runC01Case(c, id, v, w, b, tier == "thorough" || w.last-w.first < 20, false) }})
						}
					}
				}
				// the same two rounds on one protocol object (a library user calling Traceroute twice on it): the answers
				// to the first run are stale traffic for the second
				if v.Proto == "udp" || v.Proto == "syn" {
					for i, w := range wins[:min(len(wins), 3)] {
						v, w, b := v, w, bases[i%len(bases)]
						id := fmt.Sprintf("C01/object-reuse/%s/%d-%d/%s", v.Name, w.first, w.last, b.name)
						cases = append(cases, fw.Case{ID: id, Bubble: true, Run: func(c *fw.Ctx) { runC01Case(c, id, v, w, b, true, true) }})
					}
				}
			}
			return cases
		},
	}
}

func runC01Case(c *fw.Ctx, id string, v refmatch.Variant, w window, b base, full, reuse bool) {
	var obj any
	// run 0 produces the "previous run" whose genuine replies are replayed as stale traffic into run 1
	var stale [][]byte
	other := otherIdentities{echoID: 0x4242, port: 41000, ipid: 0x7000, seq: 0x33333333}
	for round := 0; round < 2; round++ {
		l := &latticeCtx{fields: map[string]bool{}}
		round := round
		sc := scenario{tag: fmt.Sprintf("%s round%d", id, round), v: v, win: w, b: b,
			spec: func(s *drive.Spec) {
				if reuse {
					s.Obj = &obj
				}
			},
			model: func(e *simEnv) *pathModel {
				m := baselinePath(e, w, c.Rng)
				m.extra = func(e *simEnv, p *refmatch.Probe) {
					lattice(e, p, l, other, c.Rng, full)
					// a runt from a foreign host right behind the genuine reply to this probe: the capture buffer still
					// holds that reply when the runt is read
					if hs := m.hops[p.TTL]; hs != nil && !hs.silent {
						runtBehind(e, p, l, hs.delay)
					} else if m.dist == p.TTL {
						runtBehind(e, p, l, m.destDelay)
					}
					if round == 1 {
						for i, sb := range stale {
							if i%int(e.spec.MaxTTL-e.spec.MinTTL+1) == (p.TTL-int(e.spec.MinTTL)) && len(sb) > 0 {
								e.inject(sb, "stale:previous-run", p, oddUS(200*time.Microsecond+time.Duration(i)*2*time.Microsecond))
							}
						}
					}
				}
				return m
			}}
		out := runScenario(c, sc)
		if out == nil {
			return
		}
		accepted := 0
		stale = stale[:0]
		for i := range out.js {
			j := &out.js[i]
			if j.out.Kind == refmatch.Accept && (j.d.Frame.Class == "genuine-hop" || j.d.Frame.Class == "genuine-dest") {
				accepted++
				stale = append(stale, j.d.Frame.Bytes)
			}
		}
		c.Count("nongenuine_frames", l.n)
		if accepted > 0 && out.res.Err == nil {
			read := map[string]bool{}
			for i := range out.js {
				cl := out.js[i].d.Frame.Class
				if len(cl) > 10 && cl[:10] == "perturbed:" {
					read[cl[10:]] = true
				}
				if cl == "stale:previous-run" {
					read["stale:previous-run"] = true
				}
				if cl == "own-probe" {
					read["own-probe:loopback"] = true
				}
			}
			for k := range read {
				c.Nontrivial(v.Name + ":" + k)
			}
		}
		if round == 0 {
			c.Sample(map[string]any{"case": sc.tag, "result": fmtRun(out.res), "frames_read": len(out.js), "first_frames": fmtJudged(out.js)[:min(8, len(fmtJudged(out.js)))]})
		}
		if f := out.flow; f != nil {
			other = otherIdentities{echoID: f.EchoID, port: f.LocalPort, seq: f.ISN + 1}
			if len(f.Probes) > 0 {
				other.ipid = f.Probes[0].IPID - uint16(f.Probes[0].TTL)
				if v.Proto == "syn" {
					other.seq = f.Probes[0].Seq
				}
			}
			if other.port == 0 {
				other.port = 41000
			}
		}
		out.e.close()
	}
	_ = binary.BigEndian
}
