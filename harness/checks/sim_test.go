package checks

import (
	"encoding/binary"
	"errors"
	"fmt"
	"math"
	"net"
	"net/netip"
	"sort"
	"strings"
	"sync"
	"syscall"
	"time"

	"github.com/DataDog/datadog-traceroute/packets"

	"verif/harness/drive"
	"verif/harness/fw"
	"verif/harness/gen"
	"verif/harness/refmatch"
	"verif/harness/simnet"
	"verif/harness/wirefmt"
)

// hopSpec is the behaviour of the device answering probes that expire at one TTL.
type hopSpec struct {
	addr   netip.Addr
	delay  time.Duration
	silent bool
	dups   []time.Duration // additional copies, delays relative to the probe
	// build overrides the default genuine reply (time-exceeded, minimal quote)
	build func(e *simEnv, p *refmatch.Probe, from netip.Addr) []byte
}

// pathModel is the simulated network for one flow.
type pathModel struct {
	hops       map[int]*hopSpec
	dist       int // probes with TTL >= dist reach the destination; 0 = unreachable
	destDelay  time.Duration
	destSilent bool
	destDups   []time.Duration
	destBuild  func(e *simEnv, p *refmatch.Probe) []byte
	// sack receiver: TTLs (>= dist) whose probe is lost before the destination
	lost map[int]bool
	// extra is called for every probe emission (after genuine replies were scheduled)
	extra func(e *simEnv, p *refmatch.Probe)
	// destDelayFor, when set, gives the delay of the destination's reply per probe TTL (replies of the destination to
	// later probes may overtake its reply to the first probe that reached it)
	destDelayFor func(ttl int) time.Duration
}

// simEnv is one flow on one wire.
type simEnv struct {
	c      *fw.Ctx
	w      *simnet.Wire
	spec   drive.Spec
	model  *pathModel
	peer   *drive.SackPeer
	unreg  func()
	mu     sync.Mutex
	probes []*refmatch.Probe
	local  netip.Addr
	lport  uint16
	echoID uint16
	isn    uint32
	// arrived at the sack destination (TTL set), in arrival order
	arrived []int
	// source-port reservation observed at the first probe (udp, syn)
	portChecked, portHeld, portReported bool
	handle                              *simnet.Handle
	closed                              bool
}

func oddUS(d time.Duration) time.Duration {
	d = d.Truncate(time.Microsecond)
	if (d/time.Microsecond)%2 == 0 {
		d += time.Microsecond
	}
	return d
}

// newSimEnv creates the wire for spec; for SACK it opens the real listener in the peer namespace.
func newSimEnv(c *fw.Ctx, spec drive.Spec, isn uint32) (*simEnv, error) {
	e := &simEnv{c: c, w: simnet.NewWire(), spec: spec, isn: isn}
	e.w.Loopback = true
	e.unreg = simnet.Register(e.w, spec.Target)
	if spec.V.Proto == "sack" {
		p, err := drive.ListenPeer(netip.AddrPortFrom(spec.Target, spec.Port))
		if err != nil {
			e.unreg()
			return nil, fmt.Errorf("listen in peer namespace: %w", err)
		}
		p.ISN = isn
		p.ServerISN = 0x51000000
		e.peer = p
		e.w.OnFilter = func(h *simnet.Handle, s packets.PacketFilterSpec) { p.OnFilter(h, s) }
		e.w.OnReadStart = func(h *simnet.Handle) { p.OnReadStart(e.w, h) }
		e.w.OnBeforeFilter = func(h *simnet.Handle, s packets.PacketFilterSpec) { p.OnBeforeFilter(e.w, h, s) }
	}
	e.w.OnOpen = func(h *simnet.Handle) {
		e.mu.Lock()
		if e.handle == nil {
			e.handle = h
		}
		e.mu.Unlock()
	}
	e.w.OnEmit = e.onEmit
	return e, nil
}

func (e *simEnv) close() {
	if e.closed {
		return
	}
	e.closed = true
	e.unreg()
	if e.peer != nil {
		e.peer.Close()
	}
}

func (e *simEnv) inject(b []byte, class string, meta any, delay time.Duration) *simnet.Frame {
	f := e.w.NewFrame(b, class, meta)
	e.w.Deliver(f, delay, nil)
	return f
}

// probeFromEmission converts a wire emission into a reference probe record.
func probeFromEmission(v refmatch.Variant, em *simnet.Emission) *refmatch.Probe {
	p := em.Pkt
	pr := &refmatch.Probe{TTL: int(p.TTL), SentAt: em.At, Tick: em.Tick, IPID: p.ID, Raw: em.Bytes}
	switch v.Proto {
	case "icmp":
		pr.Seq = uint32(p.EchoSeq)
	case "udp":
		pr.PLen = uint16(p.TotalLen - 40)
	default:
		pr.Seq = p.Seq
	}
	return pr
}

func (e *simEnv) onEmit(h *simnet.Handle, em *simnet.Emission) {
	if em.Pkt == nil {
		return
	}
	e.mu.Lock()
	if h != e.handle {
		e.mu.Unlock()
		return
	}
	pr := probeFromEmission(e.spec.V, em)
	firstProbe := len(e.probes) == 0
	if firstProbe {
		e.local, e.lport, e.echoID = em.Pkt.Src, em.Pkt.SrcPort, em.Pkt.EchoID
	}
	e.probes = append(e.probes, pr)
	m := e.model
	e.mu.Unlock()
	if firstProbe && (e.spec.V.Proto == "udp" || e.spec.V.Proto == "syn") {
		// the source port is what separates this run's flow from every other run to the same target: it must be
		// held by an open socket of this process for as long as probes carry it (C11)
		held := portHeld(e.spec.V.Proto, em.Pkt.Src, em.Pkt.SrcPort)
		e.mu.Lock()
		e.portChecked, e.portHeld = true, held
		e.mu.Unlock()
	}
	if m == nil {
		return
	}
	ttl := pr.TTL
	if m.dist > 0 && ttl >= m.dist {
		if !m.destSilent && !m.lost[ttl] {
			e.mu.Lock()
			e.arrived = append(e.arrived, ttl)
			e.mu.Unlock()
			b := e.destReply(pr)
			if m.destBuild != nil {
				b = m.destBuild(e, pr)
			}
			if b != nil {
				dd := m.destDelay
				if m.destDelayFor != nil {
					dd = m.destDelayFor(ttl)
				}
				e.inject(b, "genuine-dest", pr, oddUS(dd))
				for _, d := range m.destDups {
					e.inject(b, "genuine-dest-dup", pr, oddUS(d))
				}
			}
		}
	} else if hs := m.hops[ttl]; hs != nil && !hs.silent {
		b := e.hopReply(pr, hs)
		if b != nil {
			e.inject(b, "genuine-hop", pr, oddUS(hs.delay))
			for _, d := range hs.dups {
				e.inject(b, "genuine-hop-dup", pr, oddUS(d))
			}
		}
	}
	if m.extra != nil {
		m.extra(e, pr)
	}
}

func (e *simEnv) hopReply(p *refmatch.Probe, hs *hopSpec) []byte {
	if hs.build != nil {
		return hs.build(e, p, hs.addr)
	}
	return gen.WrapError(hs.addr, e.local, gen.TimeExceeded, 0, gen.QuoteBytes(p, 1, "fix"), "min", nil, 0)
}

// sackBlocks models a Linux receiver: contiguous runs of the out-of-order bytes received so far,
// most recently changed block first, at most max blocks.
func sackBlocks(isn uint32, arrived []int, max int) [][2]uint32 {
	if len(arrived) == 0 {
		return nil
	}
	set := map[int]bool{}
	for _, t := range arrived {
		set[t] = true
	}
	var ttls []int
	for t := range set {
		ttls = append(ttls, t)
	}
	sort.Ints(ttls)
	var runs [][2]int
	for _, t := range ttls {
		if n := len(runs); n > 0 && runs[n-1][1] == t {
			runs[n-1][1] = t + 1
		} else {
			runs = append(runs, [2]int{t, t + 1})
		}
	}
	last := arrived[len(arrived)-1]
	sort.SliceStable(runs, func(i, j int) bool {
		ci := runs[i][0] <= last && last < runs[i][1]
		cj := runs[j][0] <= last && last < runs[j][1]
		if ci != cj {
			return ci
		}
		return runs[i][0] > runs[j][0]
	})
	if len(runs) > max {
		runs = runs[:max]
	}
	var out [][2]uint32
	for _, r := range runs {
		out = append(out, [2]uint32{isn + uint32(r[0]), isn + uint32(r[1])})
	}
	return out
}

// destReply is the default proof-of-arrival reply of the target for each protocol.
func (e *simEnv) destReply(p *refmatch.Probe) []byte {
	tgt := e.spec.Target
	switch e.spec.V.Proto {
	case "icmp":
		pk, _ := wirefmt.Parse(p.Raw)
		var payload []byte
		if pk != nil {
			payload = pk.ICMPBody
		}
		return gen.EchoReply(tgt, e.local, e.echoID, uint16(p.Seq), payload, nil)
	case "udp":
		code := uint8(3)
		if e.spec.V.V6 {
			code = 4
		}
		return gen.WrapError(tgt, e.local, gen.DestUnreach, code, gen.QuoteBytes(p, 1, "fix"), "full", nil, 0)
	case "syn":
		return gen.TCPReply(tgt, e.local, e.spec.Port, e.lport, 0x77000000, p.Seq+1, wirefmt.TCPSyn|wirefmt.TCPAck,
			append(wirefmt.OptMSS(1460), append(wirefmt.OptSackPerm(), wirefmt.OptNop()...)...), nil, nil)
	case "sack":
		e.mu.Lock()
		blocks := sackBlocks(e.isn, e.arrived, 4)
		e.mu.Unlock()
		return gen.TCPReply(tgt, e.local, e.spec.Port, e.lport, 0x51000001, e.isn, wirefmt.TCPAck,
			append([]byte{1, 1}, wirefmt.OptSack(blocks)...), nil, nil)
	}
	return nil
}

// run executes the spec against model m.
func (e *simEnv) run(m *pathModel) drive.Result {
	e.mu.Lock()
	e.model = m
	e.mu.Unlock()
	return drive.Run(e.spec)
}

// flow returns the flow identity as seen on the wire.
func (e *simEnv) flow() *refmatch.Flow {
	e.mu.Lock()
	defer e.mu.Unlock()
	f := &refmatch.Flow{V: e.spec.V, Local: e.local, LocalPort: e.lport, Target: e.spec.Target, TargetPort: e.spec.Port,
		EchoID: e.echoID, ISN: e.isn, MinTTL: int(e.spec.MinTTL), MaxTTL: int(e.spec.MaxTTL), Probes: append([]*refmatch.Probe(nil), e.probes...)}
	if e.spec.V.Proto == "icmp" {
		f.LocalPort = 0
	}
	if !f.Local.IsValid() {
		if e.spec.V.V6 {
			f.Local = drive.Local6
		} else {
			f.Local = drive.Local4
		}
	}
	return f
}

// judged is one frame as read by the flow's handle, with the reference verdict.
type judged struct {
	d   *simnet.Delivery
	out refmatch.Outcome
	src netip.Addr
}

func outerSrc(b []byte) netip.Addr {
	if len(b) >= 20 && b[0]>>4 == 4 {
		return netip.AddrFrom4([4]byte(b[12:16]))
	}
	if len(b) >= 40 && b[0]>>4 == 6 {
		return netip.AddrFrom16([16]byte(b[8:24]))
	}
	return netip.Addr{}
}

// reads returns the frames the flow's handle consumed, in consumption order, judged by the reference matcher.
func (e *simEnv) reads(f *refmatch.Flow) []judged {
	e.w.Lock()
	var ds []*simnet.Delivery
	hi := -1
	if e.handle != nil {
		hi = e.handle.Idx
	}
	for _, d := range e.w.Deliveries {
		if d.Handle == hi && d.Read {
			ds = append(ds, d)
		}
	}
	e.w.Unlock()
	sort.Slice(ds, func(i, j int) bool { return ds[i].ReadTick < ds[j].ReadTick })
	out := make([]judged, 0, len(ds))
	for _, d := range ds {
		out = append(out, judged{d: d, out: refmatch.Ref(f, d.Frame.Bytes, d.ReadTick), src: outerSrc(d.Frame.Bytes)})
	}
	return out
}

type expHop struct {
	j    *judged
	ttl  int
	dest bool
	rtt  time.Duration
}

// judgeOpts selects which properties a violation is charged to.
type judgeOpts struct {
	tag string
	// allowAbort: a SACK plain-ACK abort is acceptable
	exactOnly bool
}

func msOf(d time.Duration) float64 { return d.Seconds() * 1000 }

func hopIP(b net.IP) netip.Addr {
	a, _ := netip.AddrFromSlice(b)
	return a.Unmap()
}

// judge compares the run result with the reference: exact fold for parallel variants when every read
// frame is decisive, per-hop soundness/completeness otherwise. It charges C01 (unsound hop), C02
// (missing hop), C04 (destination mark), C05 (RTT).
func (e *simEnv) judge(res drive.Result, tag string) (flow *refmatch.Flow, js []judged) {
	c := e.c
	f := e.flow()
	js = e.reads(f)
	v := e.spec.V
	e.mu.Lock()
	if e.portChecked && !e.portHeld && !e.portReported {
		e.portReported = true
		c.Violate("C11", "source-port-not-reserved/"+v.Name, fmt.Sprintf("%s: probes carry source port %d but no socket of the process holds that port while the run is sending (another run or process can be given the same port)", tag, e.lport), nil)
	}
	if e.portChecked {
		c.Count("source_port_reservations_checked", 1)
	}
	e.mu.Unlock()
	aborts := false
	decisive := !v.Serial
	for i := range js {
		switch js[i].out.Kind {
		case refmatch.Maybe:
			decisive = false
		case refmatch.Abort:
			aborts = true
		}
		c.Count("frames_read", 1)
		c.Count("ref_"+js[i].out.Kind.String(), 1)
	}
	detail := func() map[string]any {
		return map[string]any{"variant": v.Name, "spec": fmt.Sprintf("%+v", e.spec), "result": fmtRun(res), "frames": fmtJudged(js), "probes": fmtProbesSent(f)}
	}
	if res.Err != nil {
		if aborts {
			return f, js
		}
		if v.Proto == "sack" && e.handshakeWithoutSackPerm(js) {
			// an injected frame happened to be a SYN-ACK of THIS connection (the kernel-chosen local port, which the harness
			// does not know when it builds the frame, matched its random destination port) without a usable SACK-permitted
			// option: "the target does not support SACK" is then the correct outcome
			c.Count("handshake_port_coincidence", 1)
			return f, js
		}
		c.Violate("C09", "abort/"+v.Name, fmt.Sprintf("%s: fault-free run returned an error: %v", tag, res.Err), detail())
		return f, js
	}
	if res.Run == nil {
		c.Violate("C10", "nil-nil/"+v.Name, tag+": nil result and nil error", detail())
		return f, js
	}
	hops := res.Run.Hops
	first := int(e.spec.MinTTL)
	for i, h := range hops {
		// the TTL an entry is reported under is the TTL of the probe its position stands for: everything below judges
		// entry i as the answer to probe first+i
		if h.TTL != first+i {
			c.Violate("C01", "ttl-label/"+v.Name, fmt.Sprintf("%s: entry %d of a run whose first TTL is %d is reported as TTL %d (address %s)", tag, i, first, h.TTL, hopIP(h.IPAddress)), detail())
			break
		}
	}
	sentAt := map[int]*refmatch.Probe{}
	for _, p := range f.Probes {
		if _, ok := sentAt[p.TTL]; !ok {
			sentAt[p.TTL] = p
		}
	}
	pollTol := e.spec.EffectivePoll()
	if decisive {
		// exact reference fold
		exp := map[int]*expHop{}
		for i := range js {
			j := &js[i]
			if j.out.Kind != refmatch.Accept {
				continue
			}
			t := j.out.TTL
			prev := exp[t]
			if prev == nil || (!prev.dest && j.out.Dest) {
				p := sentAt[t]
				exp[t] = &expHop{j: j, ttl: t, dest: j.out.Dest, rtt: j.d.ReadAt.Sub(p.SentAt)}
			}
		}
		end := int(e.spec.MaxTTL)
		for t := first; t <= int(e.spec.MaxTTL); t++ {
			if exp[t] != nil && exp[t].dest {
				end = t
				break
			}
		}
		if len(hops) != end-first+1 {
			c.Violate("C03", "length/"+v.Name, fmt.Sprintf("%s: %d hops, reference fold has %d (lowest accepted destination TTL %d)", tag, len(hops), end-first+1, end), detail())
		}
		for i, h := range hops {
			t := first + i
			x := exp[t]
			if t > end {
				break
			}
			empty := len(h.IPAddress) == 0
			switch {
			case x == nil && !empty:
				prop, sig := "C01", "unsound-hop/"+v.Name
				c.Violate(prop, sig+"/"+e.witness(js, hopIP(h.IPAddress), t, h.RTT), fmt.Sprintf("%s: hop %d reports %s but no delivered frame is an acceptable reply to probe %d", tag, t, hopIP(h.IPAddress), t), detail())
			case x != nil && empty:
				c.Violate("C02", "missed-reply/"+v.Name+"/"+x.j.d.Frame.Class, fmt.Sprintf("%s: hop %d empty although frame #%d (%s from %s) answers probe %d in its window", tag, t, x.j.d.Frame.ID, x.j.d.Frame.Class, x.j.src, t), detail())
			case x != nil:
				a := hopIP(h.IPAddress)
				if a != x.j.src.Unmap() {
					// some other frame filled the hop: is that frame acceptable at all?
					if e.justified(js, f, t, a, h.IsDest) == nil {
						c.Violate("C01", "unsound-hop/"+v.Name+"/"+e.witness(js, a, t, h.RTT), fmt.Sprintf("%s: hop %d reports %s; reference keeps %s (frame #%d)", tag, t, a, x.j.src, x.j.d.Frame.ID), detail())
					} else {
						c.Violate("C07", "merge-order/"+v.Name, fmt.Sprintf("%s: hop %d reports %s; first-wins/destination-overrides keeps %s", tag, t, a, x.j.src), detail())
					}
					continue
				}
				if h.IsDest != x.dest {
					c.Violate("C04", fmt.Sprintf("dest-mark/%s/%s/got%v", v.Name, x.j.d.Frame.Class, h.IsDest), fmt.Sprintf("%s: hop %d (%s) destination=%v, reference %v (%s)", tag, t, a, h.IsDest, x.dest, x.j.out.Why), detail())
				}
				e.checkRTT(tag, t, h.RTT, x.rtt, pollTol, detail)
				e.checkArrival(tag, t, h.RTT, x.j, sentAt[t], pollTol, detail)
			}
		}
		return f, js
	}
	if v.Serial {
		// the serial engine reads one frame at a time while a probe is outstanding and ends the run at the first
		// destination reply it reads: the list ends at that reply's TTL (an identifier-less SYN-ACK/RST is credited to the
		// probe most recently sent when it was read), else it runs to the last TTL (C03)
		want := int(e.spec.MaxTTL) - first + 1
		decided := true
		var by *judged
		for i := range js {
			o := js[i].out
			if o.Kind == refmatch.Abort || (o.Kind == refmatch.Maybe && (o.Dest || o.OrLater)) {
				decided = false
				break
			}
			if o.Kind == refmatch.Accept && o.Dest {
				want, by = o.TTL-first+1, &js[i]
				break
			}
		}
		if decided {
			c.Count("serial_length_checked", 1)
			if len(hops) != want {
				why := "no destination reply was read"
				if by != nil {
					why = fmt.Sprintf("frame #%d (%s) is the first destination reply read, for probe %d", by.d.Frame.ID, by.d.Frame.Class, by.out.TTL)
				}
				c.Violate("C03", "length/"+v.Name, fmt.Sprintf("%s: %d hops, expected %d: %s", tag, len(hops), want, why), detail())
			}
		}
	}
	if v.Serial && e.spec.Timeout > 0 {
		// the serial engine's wait for probe t ends when it reads a frame it accepts or when t's listening window (the
		// configured timeout) is over - not earlier. So when nothing the reference does not reject was read between two
		// consecutive sends, they are at least one timeout apart. (A shortened wait credits a late SYN-ACK to a newer probe
		// and measures its RTT against that probe's send instant.)
		for k := 0; k+1 < len(f.Probes); k++ {
			a, b := f.Probes[k], f.Probes[k+1]
			answered := false
			for i := range js {
				if js[i].out.Kind != refmatch.Reject && !js[i].d.ReadAt.Before(a.SentAt) && !js[i].d.ReadAt.After(b.SentAt) {
					answered = true
					break
				}
			}
			if answered {
				continue
			}
			c.Count("serial_windows_checked", 1)
			if gap := b.SentAt.Sub(a.SentAt); gap < e.spec.Timeout {
				c.Violate("C02", "listening-window-cut-short/"+v.Name, fmt.Sprintf("%s: probe %d was sent %v after probe %d although nothing had answered; the listening window of a probe is %v", tag, b.TTL, gap, a.TTL, e.spec.Timeout), detail())
				break
			}
		}
	}
	// per-hop forms
	for i, h := range hops {
		t := first + i
		if len(h.IPAddress) == 0 {
			continue
		}
		a := hopIP(h.IPAddress)
		j := e.justified(js, f, t, a, h.IsDest)
		if j == nil {
			if j2 := e.justified(js, f, t, a, !h.IsDest); j2 != nil {
				c.Violate("C04", fmt.Sprintf("dest-mark/%s/%s/got%v", v.Name, j2.d.Frame.Class, h.IsDest), fmt.Sprintf("%s: hop %d (%s) destination=%v but the justifying frame #%d says %v (%s)", tag, t, a, h.IsDest, j2.d.Frame.ID, j2.out.Dest, j2.out.Why), detail())
			} else {
				c.Violate("C01", "unsound-hop/"+v.Name+"/"+e.witness(js, a, t, h.RTT), fmt.Sprintf("%s: hop %d reports %s (dest=%v) but no frame read from that address is an acceptable reply to probe %d", tag, t, a, h.IsDest, t), detail())
			}
			continue
		}
		if p := sentAt[t]; p != nil {
			// RTT must match one justifying frame's read instant minus this probe's send instant
			ok := false
			var best time.Duration
			for k := range js {
				jj := &js[k]
				if !acceptableFor(jj, f, t, a, h.IsDest) {
					continue
				}
				want := jj.d.ReadAt.Sub(p.SentAt)
				if math.Abs(h.RTT-msOf(want)) <= 0.002 {
					ok = true
					if !v.Serial {
						e.checkArrival(tag, t, h.RTT, jj, p, pollTol, detail)
					} else if first := e.justified(js, f, t, a, h.IsDest); first == jj && jj.out.TTL == t && !jj.d.At.Before(p.SentAt) && (sentAt[t+1] == nil || !jj.d.ReadAt.After(sentAt[t+1].SentAt)) {
						// serial engine: from the send of probe t until it reads a reply it polls without a gap, and nothing is
						// read between the end of that wait and the next send. A reply for t that arrived after t's send and
						// was read BEFORE probe t+1 went out is therefore the reply that ended the wait for t, and was read
						// within one poll interval of its arrival. (Replies read in later windows - copies, or replies whose
						// window was ended early by another reply - are not judged.)
						e.c.Count("arrival_checked", 1)
						if late := jj.d.ReadAt.Sub(jj.d.At); late > pollTol {
							e.c.Violate("C05", "late-read/"+v.Name, fmt.Sprintf("%s: hop %d RTT %.3f ms, but the accepted reply (frame #%d) arrived %.3f ms after its probe, inside the probe's own window, and was only read %.3f ms later (tolerance one poll interval %.0f ms)", tag, t, h.RTT, jj.d.Frame.ID, msOf(jj.d.At.Sub(p.SentAt)), msOf(late), msOf(pollTol)), detail())
						}
					}
				}
				best = want
			}
			if !ok {
				e.checkRTT(tag, t, h.RTT, best, pollTol, detail)
			}
		}
	}
	return f, js
}

// checkArrival: C05 measures to the ARRIVAL of the reply. The tool can only stamp a frame when it reads it, so a
// receiver that is not reading while frames arrive (parallel engines read continuously from the first send on)
// reports an inflated RTT that still equals read-instant minus send-instant. Applied to parallel variants: the
// accepted frame must have been read within one poll interval of the instant the wire delivered it to the handle.
func (e *simEnv) checkArrival(tag string, t int, gotMs float64, j *judged, p *refmatch.Probe, tol time.Duration, detail func() map[string]any) {
	if e.spec.V.Serial || j == nil || p == nil || !j.d.Read {
		return
	}
	e.c.Count("arrival_checked", 1)
	if late := j.d.ReadAt.Sub(j.d.At); late > tol {
		e.c.Violate("C05", "late-read/"+e.spec.V.Name, fmt.Sprintf("%s: hop %d RTT %.3f ms, but the accepted reply (frame #%d) arrived %.3f ms after its probe and was only read %.3f ms later (tolerance one poll interval %.0f ms)", tag, t, gotMs, j.d.Frame.ID, msOf(j.d.At.Sub(p.SentAt)), msOf(late), msOf(tol)), detail())
	}
}

func (e *simEnv) checkRTT(tag string, t int, gotMs float64, want time.Duration, tol time.Duration, detail func() map[string]any) {
	c := e.c
	v := e.spec.V
	if gotMs < 0 {
		c.Violate("C05", "negative-rtt/"+v.Name, fmt.Sprintf("%s: hop %d RTT %.3f ms", tag, t, gotMs), detail())
		return
	}
	dev := math.Abs(gotMs - msOf(want))
	c.Count("rtt_checked", 1)
	if dev > msOf(tol) {
		c.Violate("C05", "rtt-off/"+v.Name, fmt.Sprintf("%s: hop %d RTT %.3f ms, probe-send to first-accepted-reply is %.3f ms (tolerance one poll interval %.0f ms)", tag, t, gotMs, msOf(want), msOf(tol)), detail())
	} else if dev > 0.002 {
		c.Count("rtt_inexact_within_poll", 1)
	}
}

func acceptableFor(j *judged, f *refmatch.Flow, t int, a netip.Addr, dest bool) bool {
	if j.src.Unmap() != a {
		return false
	}
	if j.out.Kind != refmatch.Accept && j.out.Kind != refmatch.Maybe {
		return false
	}
	if j.out.Dest != dest {
		return false
	}
	if j.out.TTL == t {
		return true
	}
	for _, a := range j.out.Alt {
		if a == t {
			return true
		}
	}
	if j.out.OrLater && t > j.out.TTL {
		// credited to a later probe that had been sent when the frame was read
		for _, p := range f.Probes {
			if p.TTL == t && p.Tick < j.d.ReadTick {
				return true
			}
		}
	}
	return false
}

func (e *simEnv) justified(js []judged, f *refmatch.Flow, t int, a netip.Addr, dest bool) *judged {
	for i := range js {
		if acceptableFor(&js[i], f, t, a, dest) {
			return &js[i]
		}
	}
	return nil
}

// noiseSynAckOnConnection: did the handle read a frame of a handshake-noise class that is a SYN|ACK from the target's
// address and port to the connection's own local port?
func (e *simEnv) noiseSynAckOnConnection() bool {
	if e.peer == nil || e.handle == nil {
		return false
	}
	lport := e.peer.LocalPort(e.handle.Idx)
	if lport == 0 {
		return false
	}
	e.w.Lock()
	var ds []*simnet.Delivery
	for _, d := range e.w.Deliveries {
		if d.Handle == e.handle.Idx && d.Read && strings.HasPrefix(d.Frame.Class, "noise:handshake") {
			ds = append(ds, d)
		}
	}
	e.w.Unlock()
	for _, d := range ds {
		b := d.Frame.Bytes
		if len(b) < 20 || b[0]>>4 != 4 || b[9] != 6 {
			continue
		}
		ihl := int(b[0]&0x0f) * 4
		if ihl < 20 || len(b) < ihl+14 || netip.AddrFrom4([4]byte(b[12:16])) != e.spec.Target {
			continue
		}
		t := b[ihl:]
		if binary.BigEndian.Uint16(t[0:2]) == e.spec.Port && binary.BigEndian.Uint16(t[2:4]) == lport && t[13]&0x12 == 0x12 {
			return true
		}
	}
	return false
}

// handshakeWithoutSackPerm: did the handle read a SYN|ACK from the target's address and port to the connection's own local
// port (known from the peer's accepted connection) that carries no SACK-permitted option inside its data offset?
func (e *simEnv) handshakeWithoutSackPerm(js []judged) bool {
	if e.peer == nil || e.handle == nil {
		return false
	}
	lport := e.peer.LocalPort(e.handle.Idx)
	if lport == 0 {
		return false
	}
	for i := range js {
		b := js[i].d.Frame.Bytes
		if len(b) < 20 || b[0]>>4 != 4 || b[9] != 6 {
			continue
		}
		ihl := int(b[0]&0x0f) * 4
		if ihl < 20 || len(b) < ihl+20 || netip.AddrFrom4([4]byte(b[12:16])) != e.spec.Target {
			continue
		}
		t := b[ihl:]
		if binary.BigEndian.Uint16(t[0:2]) != e.spec.Port || binary.BigEndian.Uint16(t[2:4]) != lport || t[13]&0x12 != 0x12 {
			continue
		}
		doff := int(t[12]>>4) * 4
		if doff < 20 || doff > len(t) {
			continue
		}
		found := false
		for o := t[20:doff]; len(o) > 0; {
			if o[0] == 0 {
				break
			}
			if o[0] == 1 {
				o = o[1:]
				continue
			}
			if len(o) < 2 || int(o[1]) < 2 || int(o[1]) > len(o) {
				break
			}
			if o[0] == 4 {
				found = true
			}
			o = o[o[1]:]
		}
		if !found {
			return true
		}
	}
	return false
}

// witnessClass names the class of the read frame the tool most likely used for a hop reporting address a:
// the frame from a whose read instant explains the reported RTT (else the first frame from a). The unique
// source address of every non-genuine frame makes a wrongly accepted frame identify itself.
func (e *simEnv) witnessClass(js []judged, a netip.Addr) string {
	return e.witness(js, a, -1, 0)
}

func (e *simEnv) witness(js []judged, a netip.Addr, ttl int, rttMs float64) string {
	first := "no-such-frame"
	var sent time.Time
	for _, p := range e.probes {
		if p.TTL == ttl {
			sent = p.SentAt
			break
		}
	}
	for i := range js {
		if js[i].src.Unmap() != a {
			continue
		}
		if first == "no-such-frame" {
			first = js[i].d.Frame.Class
		}
		if ttl >= 0 && !sent.IsZero() && math.Abs(msOf(js[i].d.ReadAt.Sub(sent))-rttMs) < 0.0006 {
			return js[i].d.Frame.Class
		}
	}
	return first
}

// completeness (C02) for per-hop mode: every must-accept frame delivered inside its probe's window
// yields a non-empty, justified hop unless beyond the destination hop.
func (e *simEnv) checkCompleteness(res drive.Result, f *refmatch.Flow, js []judged, tag string) {
	if res.Err != nil || res.Run == nil {
		return
	}
	c := e.c
	v := e.spec.V
	e.checkUnread(res, f, tag)
	e.checkHiddenByFilter(res, f, tag)
	hops := res.Run.Hops
	first := int(e.spec.MinTTL)
	sentAt := map[int]*refmatch.Probe{}
	for _, p := range f.Probes {
		sentAt[p.TTL] = p
	}
	for i := range js {
		j := &js[i]
		if j.out.Kind != refmatch.Accept {
			continue
		}
		t := j.out.TTL
		p := sentAt[t]
		if p == nil {
			continue
		}
		if v.Serial {
			// own window only
			if j.d.At.After(p.SentAt.Add(e.spec.Timeout - e.spec.EffectivePoll())) {
				continue
			}
		}
		idx := t - first
		if idx >= len(hops) {
			continue // beyond the destination hop
		}
		h := hops[idx]
		if len(h.IPAddress) == 0 {
			c.Violate("C02", "missed-reply/"+v.Name+"/"+j.d.Frame.Class, fmt.Sprintf("%s: hop %d empty although frame #%d (%s from %s) answers probe %d inside its window", tag, t, j.d.Frame.ID, j.d.Frame.Class, j.src, t),
				map[string]any{"variant": v.Name, "result": fmtRun(res), "frames": fmtJudged(js)})
		}
	}
}

// checkUnread: a must-accept reply that was delivered to the handle more than one poll interval before the
// end of the listening window but was never read cannot be reflected in the result (C02). The window is
// computed by the harness from the parameters: first send + timeout + n*delay (parallel); the own window of
// the last probe (serial, when no destination ended the run).
func (e *simEnv) checkUnread(res drive.Result, f *refmatch.Flow, tag string) {
	if len(f.Probes) == 0 || e.handle == nil {
		return
	}
	v := e.spec.V
	poll := e.spec.EffectivePoll()
	if v.Serial {
		// the serial engine reads one matching frame per TTL window and leaves the rest queued; what is still queued when
		// it stops is mostly not decided by the property (C02 restricts serial histories). Decided: from the send of probe
		// t the engine polls without a gap until it has read a frame it accepts or t's timeout has passed. So a must-accept
		// reply for t that reached the handle inside t's own window (more than a poll before its end) while no accepted
		// frame had been read since t's send found the engine waiting for exactly it - and has been read.
		e.checkUnreadSerial(res, f, tag)
		return
	}
	n := int(e.spec.MaxTTL) - int(e.spec.MinTTL) + 1
	// the listening window of a parallel run ends at (first send + timeout + n*delay): polls follow each other without a
	// gap, so a frame that reaches the handle before that instant finds a poll waiting (virtual time: exact). SACK runs
	// start their engine after the handshake, at the first send as well.
	end := f.Probes[0].SentAt.Add(e.spec.Timeout + time.Duration(n)*e.spec.Delay)
	_ = poll
	e.w.Lock()
	var unread []*simnet.Delivery
	for _, d := range e.w.Deliveries {
		if d.Handle == e.handle.Idx && !d.Read && !d.Drained && !d.Filtered && d.At.Before(end) && d.At.After(f.Probes[0].SentAt) {
			unread = append(unread, d)
		}
	}
	e.w.Unlock()
	for _, d := range unread {
		// judge it as if it had been read at the end of the run
		o := refmatch.Ref(f, d.Frame.Bytes, 1<<62)
		if o.Kind != refmatch.Accept {
			continue
		}
		idx := o.TTL - int(e.spec.MinTTL)
		if idx < 0 || idx >= len(res.Run.Hops) {
			continue // beyond the destination hop
		}
		e.c.Violate("C02", "reply-never-read/"+v.Name, fmt.Sprintf("%s: frame #%d (%s, answers probe %d) reached the capture handle %v before the end of the listening window but was never read", tag, d.Frame.ID, d.Frame.Class, o.TTL, end.Sub(d.At)), fmtRun(res))
		return
	}
}

func (e *simEnv) checkUnreadSerial(res drive.Result, f *refmatch.Flow, tag string) {
	if res.Err != nil || res.Run == nil {
		return
	}
	poll := e.spec.EffectivePoll()
	sentAt := map[int]*refmatch.Probe{}
	for _, p := range f.Probes {
		if _, ok := sentAt[p.TTL]; !ok {
			sentAt[p.TTL] = p
		}
	}
	e.w.Lock()
	var unread, read []*simnet.Delivery
	for _, d := range e.w.Deliveries {
		if d.Handle != e.handle.Idx || d.Drained || d.Filtered {
			continue
		}
		if d.Read {
			read = append(read, d)
		} else {
			unread = append(unread, d)
		}
	}
	e.w.Unlock()
	for _, d := range unread {
		o := refmatch.Ref(f, d.Frame.Bytes, 1<<62)
		if o.Kind != refmatch.Accept || o.OrLater || len(o.Alt) > 0 {
			continue
		}
		p := sentAt[o.TTL]
		if p == nil || !d.At.After(p.SentAt) || !d.At.Before(p.SentAt.Add(e.spec.Timeout-poll)) {
			continue
		}
		// was the wait for probe t possibly over when the frame arrived? (any frame the reference does not reject, read
		// between t's send and the arrival plus one poll, may have ended it)
		over := false
		for _, r := range read {
			if r.ReadAt.Before(p.SentAt) || r.ReadAt.After(d.At.Add(poll)) {
				continue
			}
			if ro := refmatch.Ref(f, r.Frame.Bytes, r.ReadTick); ro.Kind != refmatch.Reject {
				over = true
				break
			}
		}
		if over {
			continue
		}
		e.c.Count("serial_unread_checked", 1)
		e.c.Violate("C02", "reply-never-read/"+e.spec.V.Name, fmt.Sprintf("%s: frame #%d (%s, answers probe %d) reached the capture handle %v after its probe, inside the probe's own window of %v, while the run was waiting for it, and was never read", tag, d.Frame.ID, d.Frame.Class, o.TTL, d.At.Sub(p.SentAt), e.spec.Timeout), fmtRun(res))
		return
	}
}

// checkHiddenByFilter: with the variant's own capture filter enforced in front of the handle, a must-accept reply the
// filter dropped (inside its listening window) leaves its hop empty - the filter is part of the receive path (C02).
func (e *simEnv) checkHiddenByFilter(res drive.Result, f *refmatch.Flow, tag string) {
	if e.handle == nil || e.w.Mode != simnet.FilterEnforce {
		return
	}
	v := e.spec.V
	e.w.Lock()
	var hidden []*simnet.Delivery
	for _, d := range e.w.Deliveries {
		if d.Handle == e.handle.Idx && d.Filtered && !d.Read && !d.Drained && d.FilteredTick > 0 {
			hidden = append(hidden, d)
		}
	}
	e.w.Unlock()
	sentAt := map[int]*refmatch.Probe{}
	for _, p := range f.Probes {
		sentAt[p.TTL] = p
	}
	for _, d := range hidden {
		o := refmatch.Ref(f, d.Frame.Bytes, d.FilteredTick)
		if o.Kind != refmatch.Accept || o.OrLater {
			continue
		}
		p := sentAt[o.TTL]
		if p == nil || d.FilteredAt.After(p.SentAt.Add(e.spec.Timeout-e.spec.EffectivePoll())) {
			continue // outside the probe's own window (serial) / near the end of the listening window
		}
		idx := o.TTL - int(e.spec.MinTTL)
		if idx < 0 || idx >= len(res.Run.Hops) {
			continue
		}
		if h := res.Run.Hops[idx]; len(h.IPAddress) > 0 {
			// the hop was filled by another reply. A hidden DESTINATION reply still matters when the hop that was reported
			// is not the destination (a destination reply replaces a router's): the run then misses its end
			if o.Dest && !h.IsDest && !v.Serial {
				e.c.Violate("C04", "dest-reply-hidden-by-filter/"+v.Name+"/"+d.Frame.Class, fmt.Sprintf("%s: hop %d reports %s, not marked as the destination: frame #%d (%s from %s, the destination's answer to probe %d inside its window) was dropped by the capture filter the run installed", tag, o.TTL, hopIP(h.IPAddress), d.Frame.ID, d.Frame.Class, outerSrc(d.Frame.Bytes), o.TTL),
					map[string]any{"variant": v.Name, "result": fmtRun(res), "frame": fmt.Sprintf("%x", d.Frame.Bytes)})
				return
			}
			continue
		}
		e.c.Violate("C02", "reply-hidden-by-filter/"+v.Name+"/"+d.Frame.Class, fmt.Sprintf("%s: hop %d empty: frame #%d (%s from %s, answers probe %d inside its window) was dropped by the capture filter the run installed", tag, o.TTL, d.Frame.ID, d.Frame.Class, outerSrc(d.Frame.Bytes), o.TTL),
			map[string]any{"variant": v.Name, "result": fmtRun(res), "frame": fmt.Sprintf("%x", d.Frame.Bytes)})
		return
	}
}

func fmtRun(res drive.Result) any {
	if res.Err != nil {
		return "error: " + res.Err.Error()
	}
	if res.Run == nil {
		return "nil"
	}
	var out []string
	for _, h := range res.Run.Hops {
		if len(h.IPAddress) == 0 {
			out = append(out, fmt.Sprintf("%d:-", h.TTL))
		} else {
			out = append(out, fmt.Sprintf("%d:%s:dest=%v:%.3fms", h.TTL, hopIP(h.IPAddress), h.IsDest, h.RTT))
		}
	}
	return out
}

func fmtJudged(js []judged) []string {
	var out []string
	for i := range js {
		j := &js[i]
		if len(out) >= 60 {
			out = append(out, fmt.Sprintf("... %d more", len(js)-i))
			break
		}
		if j.out.Kind == refmatch.Reject && j.d.Frame.Class == "own-probe" {
			continue
		}
		hexs := ""
		if strings.HasPrefix(j.d.Frame.Class, "noise:") && len(j.d.Frame.Bytes) <= 128 {
			hexs = fmt.Sprintf(" bytes=%x", j.d.Frame.Bytes)
		}
		out = append(out, fmt.Sprintf("#%d %s from %s len=%d read@%v -> %s ttl=%d dest=%v (%s)%s", j.d.Frame.ID, j.d.Frame.Class, j.src, len(j.d.Frame.Bytes), j.d.ReadAt.Format("05.000000"), j.out.Kind, j.out.TTL, j.out.Dest, j.out.Why, hexs))
	}
	return out
}

func fmtProbesSent(f *refmatch.Flow) []string {
	var out []string
	for _, p := range f.Probes {
		if len(out) >= 40 {
			out = append(out, "...")
			break
		}
		out = append(out, fmt.Sprintf("ttl=%d at %s ipid=%d seq=%d", p.TTL, p.SentAt.Format("05.000000"), p.IPID, p.Seq))
	}
	return out
}

// routerAddr gives the address of the on-path router at ttl for a flow (public, unique per flow/ttl).
func routerAddr(v6 bool, flow, ttl int) netip.Addr {
	if v6 {
		return netip.MustParseAddr(fmt.Sprintf("2001:db8:%x::%x", flow, ttl))
	}
	return netip.AddrFrom4([4]byte{100, byte(64 + flow), byte(ttl >> 8), byte(ttl)})
}

// uniqueAddr is the unique source address of non-genuine frame n.
func uniqueAddr(v6 bool, n int) netip.Addr {
	if v6 {
		return netip.MustParseAddr(fmt.Sprintf("2001:db8:ffff::%x:%x", n>>16, n&0xffff))
	}
	return netip.AddrFrom4([4]byte{198, byte(18 + (n>>16)&1), byte(n >> 8), byte(n)})
}

// defaultSpec returns production-scale timing for a variant.
func defaultSpec(v refmatch.Variant, worker int, first, last int) drive.Spec {
	s := drive.Spec{V: v, Target: drive.TargetFor(v, worker), Port: 33434, MinTTL: uint8(first), MaxTTL: uint8(last),
		Timeout: 3 * time.Second, Delay: 50 * time.Millisecond, Poll: 100 * time.Millisecond}
	switch v.Proto {
	case "syn":
		s.Port = 443
		s.Timeout = 1 * time.Second
		s.Delay = 50 * time.Millisecond
	case "sack":
		s.Port = uint16(20000 + worker)
		s.Delay = 10 * time.Millisecond
		s.HandshakeTimeout = 500 * time.Millisecond
	}
	return s
}

// simplePath builds a path of n routers then the destination at distance n+1 (0 = unreachable).
func simplePath(v refmatch.Variant, flow, routers int, reach bool, base time.Duration) *pathModel {
	m := &pathModel{hops: map[int]*hopSpec{}}
	for t := 1; t <= routers; t++ {
		m.hops[t] = &hopSpec{addr: routerAddr(v.V6, flow, t), delay: base * time.Duration(t)}
	}
	if reach {
		m.dist = routers + 1
		m.destDelay = base * time.Duration(routers+1)
	}
	return m
}

// portHeld reports whether the local port is taken: it tries to bind the same address and port itself (an open UDP
// socket for UDP runs, a listener for SYN runs - the tool reserves its source port that way). The kernel's bind
// lookup is exact; scanning /proc/net/udp is not (entries are missed while other sockets come and go).
func portHeld(proto string, local netip.Addr, port uint16) bool {
	if proto == "syn" {
		// on the address the probes carry, not on the wildcard: a reservation made on some other local address (e.g.
		// loopback only) would make a wildcard bind fail too, and reserve nothing
		l, err := net.Listen("tcp4", netip.AddrPortFrom(local.Unmap(), port).String())
		if err != nil {
			return errors.Is(err, syscall.EADDRINUSE)
		}
		l.Close()
		return false
	}
	network := "udp4"
	if local.Is6() && !local.Is4In6() {
		network = "udp6"
	}
	c, err := net.ListenUDP(network, net.UDPAddrFromAddrPort(netip.AddrPortFrom(local, port)))
	if err != nil {
		return errors.Is(err, syscall.EADDRINUSE)
	}
	c.Close()
	return false
}
