package checks

import (
	"fmt"
	"os"
	"path/filepath"
	"strconv"
	"strings"
	"sync"
	"testing"
	"testing/synctest"
	"time"

	"verif/harness/fw"
	"verif/harness/gen"
	"verif/harness/refmatch"
)

// fuzzVariants are the variants the coverage-guided target drives (one byte of the input selects one).
var fuzzVariants = []string{"icmp4", "icmp6", "udp4", "udp6", "syn", "synP", "sackR", "sackS"}

var (
	fuzzTwinMu sync.Mutex
	fuzzTwin   = map[string]string{} // variant -> noise-free result
)

// splitFrames cuts the fuzz input into up to 6 frames: a 0xff 0x00 0xff separator ends a frame.
func splitFrames(data []byte) [][]byte {
	var out [][]byte
	cur := []byte{}
	for i := 0; i < len(data); i++ {
		if i+2 < len(data) && data[i] == 0xff && data[i+1] == 0x00 && data[i+2] == 0xff && len(out) < 5 {
			out = append(out, cur)
			cur = []byte{}
			i += 2
			continue
		}
		cur = append(cur, data[i])
	}
	return append(out, cur)
}

// fuzzOne runs one real traceroute of the selected variant in a virtual-time bubble with the input's frames
// injected before the first send, after every probe and after the destination answered. It returns the
// violations (abort, unjustified hop, result different from the noise-free twin although every frame is non-matching).
func fuzzOne(t *testing.T, sel uint8, data []byte) []fw.Violation {
	vn := fuzzVariants[int(sel)%len(fuzzVariants)]
	v := refmatch.VariantByName(vn)
	frames := splitFrames(data)
	var viol []fw.Violation
	run := func(noisy bool) (string, int, error) {
		key, nonReject := "", 0
		var rerr error
		synctest.Test(t, func(t *testing.T) {
			c := fw.NewCtx("C09", "fuzz/"+vn, t)
			// fuzz workers are separate processes sharing the namespaces: keep their targets/ports apart
			c.Worker = 20 + os.Getpid()%230
			w := window{1, 4}
			sc := scenario{tag: "fuzz/" + vn, v: v, win: w, b: basesQuick[0], model: func(e *simEnv) *pathModel {
				m := simplePathWin(v, w, 3, true, 11*time.Millisecond)
				if noisy {
					m.extra = func(e *simEnv, p *refmatch.Probe) {
						for i, b := range frames {
							if len(b) == 0 {
								continue
							}
							e.inject(b, "noise:fuzz", p, oddUS(time.Duration(50+7*i)*time.Microsecond))
							e.inject(b, "noise:fuzz", p, oddUS(time.Duration(40+i)*time.Millisecond))
							// the same bytes grafted behind a genuine header: lets the fuzzer reach the quoted-packet parsers
							g := gen.WrapError(routerAddr(v.V6, 9, p.TTL), e.local, gen.TimeExceeded, 0, b, "full", nil, 0)
							e.inject(g, "noise:fuzz-quoted", p, oddUS(time.Duration(90+7*i)*time.Microsecond))
						}
					}
				}
				return m
			}}
			out := runScenario(c, sc)
			if out == nil {
				key = "INCONCLUSIVE"
				return
			}
			rerr = out.res.Err
			key = hopsKey(out.res)
			for i := range out.js {
				if strings.HasPrefix(out.js[i].d.Frame.Class, "noise:") && out.js[i].out.Kind != refmatch.Reject {
					nonReject++
				}
			}
			out.e.close()
			viol = append(viol, c.Violations()...)
		})
		return key, nonReject, rerr
	}
	fuzzTwinMu.Lock()
	twin, ok := fuzzTwin[vn]
	fuzzTwinMu.Unlock()
	if !ok {
		twin, _, _ = run(false)
		fuzzTwinMu.Lock()
		fuzzTwin[vn] = twin
		fuzzTwinMu.Unlock()
		viol = nil
	}
	key, nonReject, _ := run(true)
	if twin == "INCONCLUSIVE" {
		fuzzTwinMu.Lock()
		delete(fuzzTwin, vn)
		fuzzTwinMu.Unlock()
		return nil
	}
	if nonReject == 0 && key != twin && key != "INCONCLUSIVE" {
		viol = append(viol, fw.Violation{Property: "C09", Sig: "twin-differs/" + vn + "/fuzz", Msg: fmt.Sprintf("result with the fuzz input differs from the noise-free run although every injected frame is non-matching: %s vs %s", key, twin)})
	}
	return viol
}

// FuzzC09 is the native coverage-guided target (go test -fuzz=FuzzC09); the same function replays the
// committed corpus in the C09 check.
func FuzzC09(f *testing.F) {
	seeds := [][]byte{
		{0x45, 0x00, 0x00, 0x1c},
		{0x60, 0, 0, 0, 0, 8, 58, 64},
		[]byte("\x45\xc0\x00\x38\x12\x34\x00\x00\xfa\x01\x00\x00\x64\x41\x00\x03\x0a\xcb\x00\x02\x0b\x00\xf4\xff\x00\x00\x00\x00\x45\x00\x00\x28\x00\x00\x00\x00\x01\x06\x00\x00\x0a\xcb\x00\x02\x0a\xcc\x00\x09\xac\xbf\x01\xbb\x00\x00\x00\x00"),
		{0x4f, 0xff, 0x00, 0xff, 0x00, 0xff, 0x45},
	}
	for i, s := range seeds {
		for sel := 0; sel < len(fuzzVariants); sel++ {
			if (i+sel)%3 == 0 {
				f.Add(uint8(sel), s)
			}
		}
	}
	f.Fuzz(func(t *testing.T, sel uint8, data []byte) {
		if len(data) > 2048 {
			data = data[:2048]
		}
		for _, v := range fuzzOne(t, sel, data) {
			t.Errorf("VIOLATION property=%s sig=%s: %s", v.Property, v.Sig, v.Msg)
		}
	})
}

// loadFuzzCorpus parses go-fuzz corpus files (version 1: one Go literal per line) under dir.
func loadFuzzCorpus(dir string) (sels []uint8, datas [][]byte, names []string) {
	files, _ := filepath.Glob(filepath.Join(dir, "*"))
	for _, fn := range files {
		b, err := os.ReadFile(fn)
		if err != nil {
			continue
		}
		lines := strings.Split(strings.TrimSpace(string(b)), "\n")
		if len(lines) < 3 || !strings.HasPrefix(lines[0], "go test fuzz v1") {
			continue
		}
		var sel uint8
		l1 := strings.TrimSpace(lines[1])
		if strings.HasPrefix(l1, "byte(") || strings.HasPrefix(l1, "uint8(") {
			inner := l1[strings.Index(l1, "(")+1 : len(l1)-1]
			if strings.HasPrefix(inner, "'") {
				if r, _, _, err := strconv.UnquoteChar(inner[1:len(inner)-1], '\''); err == nil {
					sel = uint8(r)
				}
			} else if n, err := strconv.ParseUint(inner, 0, 8); err == nil {
				sel = uint8(n)
			}
		}
		l2 := strings.TrimSpace(lines[2])
		if !strings.HasPrefix(l2, "[]byte(") {
			continue
		}
		str, err := strconv.Unquote(l2[len("[]byte(") : len(l2)-1])
		if err != nil {
			continue
		}
		sels = append(sels, sel)
		datas = append(datas, []byte(str))
		names = append(names, filepath.Base(fn))
	}
	return
}
