package checks

import (
	"bytes"
	"context"
	"encoding/json"
	"errors"
	"fmt"
	"math"
	"math/rand"
	"net"
	"net/http/httptest"
	"net/url"
	"os"
	"os/exec"
	"path/filepath"
	"reflect"
	"sort"
	"strings"
	"sync"
	"time"

	"github.com/DataDog/datadog-traceroute/result"
	"github.com/DataDog/datadog-traceroute/server"
	"github.com/DataDog/datadog-traceroute/traceroute"

	"verif/harness/drive"
	"verif/harness/fw"
	"verif/harness/refmatch"
)

func init() { register("C16", checkC16) }

// goldenKeys is the published key-path set of the result document (reverse_dns only when non-empty).
var goldenKeys = []string{
	"destination", "destination.hostname", "destination.port",
	"e2e_probe", "e2e_probe.jitter", "e2e_probe.packet_loss_percentage", "e2e_probe.packets_received", "e2e_probe.packets_sent",
	"e2e_probe.rtt", "e2e_probe.rtt.avg", "e2e_probe.rtt.max", "e2e_probe.rtt.min", "e2e_probe.rtts",
	"protocol", "source", "source.public_ip", "test_run_id",
	"traceroute", "traceroute.hop_count", "traceroute.hop_count.avg", "traceroute.hop_count.max", "traceroute.hop_count.min", "traceroute.runs",
	"traceroute.runs[].destination", "traceroute.runs[].destination.ip_address", "traceroute.runs[].destination.port",
	"traceroute.runs[].hops", "traceroute.runs[].hops[].ip_address", "traceroute.runs[].hops[].reachable", "traceroute.runs[].hops[].rtt", "traceroute.runs[].hops[].ttl",
	"traceroute.runs[].run_id", "traceroute.runs[].source", "traceroute.runs[].source.ip_address", "traceroute.runs[].source.port",
}

var goldenOptional = map[string]bool{"traceroute.runs[].hops[].reverse_dns": true, "traceroute.runs[].destination.reverse_dns": true}

func keyPaths(v any, prefix string, out map[string]bool) {
	switch x := v.(type) {
	case map[string]any:
		for k, vv := range x {
			p := k
			if prefix != "" {
				p = prefix + "." + k
			}
			out[p] = true
			keyPaths(vv, p, out)
		}
	case []any:
		for _, vv := range x {
			keyPaths(vv, prefix+"[]", out)
		}
	}
}

var addrClasses = []func(r *rand.Rand) net.IP{
	func(r *rand.Rand) net.IP { return nil },
	func(r *rand.Rand) net.IP { return net.IP{} },
	func(r *rand.Rand) net.IP {
		return net.IP{byte(1 + r.Intn(220)), byte(r.Intn(256)), byte(r.Intn(256)), byte(1 + r.Intn(254))}
	},
	func(r *rand.Rand) net.IP {
		return net.IPv4(byte(1+r.Intn(220)), byte(r.Intn(256)), byte(r.Intn(256)), byte(1+r.Intn(254)))
	}, // 16-byte mapped
	func(r *rand.Rand) net.IP {
		ip := make(net.IP, 16)
		r.Read(ip)
		ip[0] = 0x20
		return ip
	},
	func(r *rand.Rand) net.IP {
		return net.IP{10, byte(r.Intn(256)), byte(r.Intn(256)), byte(1 + r.Intn(254))}
	}, // private (redacted when skipping private hops)
	func(r *rand.Rand) net.IP {
		ip := make(net.IP, 16)
		r.Read(ip)
		ip[0] = 0xfd
		return ip
	},
}

var rttValues = []float64{0, 5e-324, 1e-9, 0.1, 0.1, 0.3, 1.5, 20, 20, 33.333333333333336, 1e6, 1.7e300}

func genDoc(r *rand.Rand, maxRuns, maxHops, maxSamples int) *result.Results {
	d := &result.Results{Protocol: []string{"udp", "tcp", "icmp"}[r.Intn(3)]}
	d.Destination = result.Destination{Hostname: "example.org", Port: 1 + r.Intn(65535)}
	if r.Intn(2) == 0 {
		d.Source.PublicIP = "192.0.2.9"
	}
	nr := r.Intn(maxRuns + 1)
	for i := 0; i < nr; i++ {
		run := result.TracerouteRun{
			Source:      result.TracerouteSource{IPAddress: addrClasses[2+r.Intn(3)](r), Port: uint16(r.Intn(65536))},
			Destination: result.TracerouteDestination{IPAddress: addrClasses[2+r.Intn(3)](r), Port: uint16(r.Intn(65536))},
		}
		nh := 1 + r.Intn(maxHops)
		first := 1 + r.Intn(3)
		for h := 0; h < nh; h++ {
			hop := &result.TracerouteHop{TTL: first + h, IPAddress: addrClasses[r.Intn(len(addrClasses))](r)}
			if len(hop.IPAddress) > 0 {
				hop.RTT = rttValues[r.Intn(len(rttValues))]
				if h == nh-1 && r.Intn(2) == 0 {
					hop.IsDest = true
				}
				if r.Intn(5) == 0 {
					hop.ReverseDns = []string{"a.example.", "b.example."}
				}
			}
			run.Hops = append(run.Hops, hop)
		}
		d.Traceroute.Runs = append(d.Traceroute.Runs, run)
	}
	ns := r.Intn(maxSamples + 1)
	mode := r.Intn(5)
	for i := 0; i < ns; i++ {
		var v float64
		switch mode {
		case 0:
			v = 0 // all lost
		case 1:
			v = rttValues[r.Intn(len(rttValues))]
		case 2:
			v = 0.1 // equal values (mean rounding)
		case 3:
			v = r.Float64() * 100
			if r.Intn(3) == 0 {
				v = 0
			}
		default:
			v = math.Abs(r.NormFloat64()*30 + 50)
		}
		d.E2eProbe.RTTs = append(d.E2eProbe.RTTs, v)
	}
	return d
}

var (
	idMu   sync.Mutex
	idSeen = map[string]bool{}
)

func ulpTol(n int, scale float64) float64 {
	if scale == 0 {
		return 0
	}
	return float64(8*n+8) * (math.Nextafter(scale, math.Inf(1)) - scale)
}

// checkDoc is the C16 oracle for one normalised document.
func checkDoc(c *fw.Ctx, tag string, d *result.Results, checkIDs bool) {
	viol := func(sig, msg string) {
		b, _ := json.Marshal(d)
		c.Violate("C16", sig, tag+": "+msg, json.RawMessage(b))
	}
	// reachable iff address
	maxLen := 0
	for i := range d.Traceroute.Runs {
		run := &d.Traceroute.Runs[i]
		if len(run.Hops) > maxLen {
			maxLen = len(run.Hops)
		}
		for _, h := range run.Hops {
			if h.Reachable != (len(h.IPAddress) > 0) {
				viol("reachable", fmt.Sprintf("hop ttl=%d address %v reachable=%v", h.TTL, h.IPAddress, h.Reachable))
			}
		}
	}
	if n := len(d.Traceroute.Runs); n > 0 {
		hc := d.Traceroute.HopCount
		if !(float64(hc.Min) <= hc.Avg && hc.Avg <= float64(hc.Max)) {
			viol("hopcount-order", fmt.Sprintf("hop count min=%d avg=%v max=%d", hc.Min, hc.Avg, hc.Max))
		}
		if hc.Min < 1 || hc.Max > maxLen || hc.Avg < 1 || hc.Avg > float64(maxLen) {
			viol("hopcount-range", fmt.Sprintf("hop count min=%d avg=%v max=%d outside [1,%d]", hc.Min, hc.Avg, hc.Max, maxLen))
		}
		c.Count("hopcount_checked", 1)
	}
	e := d.E2eProbe
	if len(e.RTTs) > 0 {
		var pos []float64
		for _, v := range e.RTTs {
			if v > 0 {
				pos = append(pos, v)
			}
		}
		if e.PacketsSent != len(e.RTTs) {
			viol("sent", fmt.Sprintf("packets_sent=%d samples=%d", e.PacketsSent, len(e.RTTs)))
		}
		if e.PacketsReceived != len(pos) {
			viol("received", fmt.Sprintf("packets_received=%d positive samples=%d", e.PacketsReceived, len(pos)))
		}
		wantLoss := float32(len(e.RTTs)-len(pos)) / float32(len(e.RTTs))
		if e.PacketLossPercentage != wantLoss {
			viol("loss", fmt.Sprintf("loss=%v expected (sent-received)/sent=%v", e.PacketLossPercentage, wantLoss))
		}
		if len(pos) > 0 {
			mn, mx := pos[0], pos[0]
			for _, v := range pos {
				mn, mx = math.Min(mn, v), math.Max(mx, v)
			}
			if e.RTT.Min != mn || e.RTT.Max != mx {
				viol("rtt-minmax", fmt.Sprintf("rtt min=%v max=%v, positive samples have min=%v max=%v", e.RTT.Min, e.RTT.Max, mn, mx))
			}
			tol := ulpTol(len(pos), mx)
			if e.RTT.Avg < mn-tol || e.RTT.Avg > mx+tol {
				viol("rtt-avg", fmt.Sprintf("rtt avg=%v outside [min=%v,max=%v]", e.RTT.Avg, mn, mx))
			}
			if e.Jitter < 0 || e.Jitter > (mx-mn)+tol {
				viol("jitter", fmt.Sprintf("jitter=%v outside [0,max-min=%v]", e.Jitter, mx-mn))
			}
		} else if e.RTT.Min != 0 || e.RTT.Max != 0 || e.RTT.Avg != 0 || e.Jitter != 0 {
			viol("rtt-nonzero-without-samples", fmt.Sprintf("%+v jitter=%v", e.RTT, e.Jitter))
		}
		c.Count("e2e_checked", 1)
	}
	// identifiers
	if !checkIDs {
		goto jsonPart
	}
	{
		ids := []string{d.TestRunID}
		for i := range d.Traceroute.Runs {
			ids = append(ids, d.Traceroute.Runs[i].RunID)
		}
		idMu.Lock()
		for _, id := range ids {
			if id == "" {
				idMu.Unlock()
				viol("empty-id", "empty identifier")
				idMu.Lock()
			} else if idSeen[id] {
				idMu.Unlock()
				viol("duplicate-id", "identifier "+id+" repeated")
				idMu.Lock()
			}
			idSeen[id] = true
		}
		idMu.Unlock()
		c.Count("ids_checked", len(ids))
	}
jsonPart:
	// JSON
	b, err := json.Marshal(d)
	if err != nil {
		viol("json-marshal", err.Error())
		return
	}
	var generic any
	if err := json.Unmarshal(b, &generic); err != nil {
		viol("json-generic", err.Error())
		return
	}
	got := map[string]bool{}
	keyPaths(generic, "", got)
	want := map[string]bool{}
	for _, k := range goldenKeys {
		want[k] = true
	}
	for k := range got {
		if !want[k] && !goldenOptional[k] {
			viol("json-extra-key/"+k, "unexpected key path "+k)
		}
	}
	for k := range want {
		if !got[k] {
			if strings.HasPrefix(k, "traceroute.runs[]") && len(d.Traceroute.Runs) == 0 {
				continue
			}
			viol("json-missing-key/"+k, "missing key path "+k)
		}
	}
	var back result.Results
	if err := json.Unmarshal(b, &back); err != nil {
		viol("json-decode", err.Error())
		return
	}
	if msg := equalDocs(d, &back); msg != "" {
		viol("json-roundtrip", msg)
	}
	c.Count("docs_checked", 1)
}

// equalDocs compares published fields modulo nil/empty slices and json:"-" fields.
func equalDocs(a, b *result.Results) string {
	norm := func(d *result.Results) *result.Results {
		c := *d
		c.Traceroute.Runs = nil
		for _, r := range d.Traceroute.Runs {
			rr := r
			rr.Hops = nil
			if len(rr.Source.IPAddress) == 0 {
				rr.Source.IPAddress = nil
			}
			if len(rr.Destination.IPAddress) == 0 {
				rr.Destination.IPAddress = nil
			}
			if len(rr.Destination.ReverseDns) == 0 {
				rr.Destination.ReverseDns = nil
			}
			for _, h := range r.Hops {
				hh := *h
				hh.IsDest, hh.Port, hh.ICMPType, hh.ICMPCode = false, 0, 0, 0
				if len(hh.IPAddress) == 0 {
					hh.IPAddress = nil
				} else if v4 := hh.IPAddress.To4(); v4 != nil {
					hh.IPAddress = v4 // the textual form does not distinguish 4-byte and mapped encodings
				}
				if len(hh.ReverseDns) == 0 {
					hh.ReverseDns = nil
				}
				rr.Hops = append(rr.Hops, &hh)
			}
			if v4 := rr.Source.IPAddress.To4(); v4 != nil {
				rr.Source.IPAddress = v4
			}
			if v4 := rr.Destination.IPAddress.To4(); v4 != nil {
				rr.Destination.IPAddress = v4
			}
			c.Traceroute.Runs = append(c.Traceroute.Runs, rr)
		}
		if len(c.E2eProbe.RTTs) == 0 {
			c.E2eProbe.RTTs = nil
		}
		return &c
	}
	x, y := norm(a), norm(b)
	if !reflect.DeepEqual(x, y) {
		bx, _ := json.Marshal(x)
		by, _ := json.Marshal(y)
		return fmt.Sprintf("decode(encode(doc)) differs: %s vs %s", bx, by)
	}
	return ""
}

func checkC16() fw.Check {
	return fw.Check{
		Prop:  "C16",
		Level: "exploration",
		Rule: "generated result documents (0..k runs of >=1 hop; hop addresses nil/empty/4-byte/16-byte-mapped/IPv6; RTT samples from a boundary value set incl. all-zero, single-sample, equal values, denormal, huge, and random) are passed through the real Results.Normalize(); an oracle with reference computations checks reachable<=>address, hop-count min<=avg<=max within [1,max run length], sent/received/loss, RTT min/max exactly, avg and jitter within [min,max] / [0,max-min] up to floating-point rounding of the mean (8n+8 ulp), permutation invariance of the order-insensitive statistics (all permutations for <=6 samples, 20 shuffles beyond), fresh pairwise-distinct ids over the whole check, the published JSON key-path set, and decode(encode(doc)) == doc; the documents whole RunTraceroute requests return over the simulated wire (runs only, samples only, both; reached and unreached destinations) go through the same oracle. " +
			"distinct_nontrivial counts distinct (runs, max hops bucket, samples bucket, positive-sample bucket) shapes of checked documents; small documents are enumerated exhaustively",
		Workers:       16,
		MinNontrivial: 30,
		Assumptions:   []string{"documents respect C03's guarantee (every run has at least one hop)", "avg/jitter bounds are checked up to floating-point rounding of the mean (0.1,0.1,0.1 averages to 0.10000000000000002)"},
		Gen: func(tier string, seed int64) []fw.Case {
			nRandom, per := 100, 800
			if tier == "thorough" {
				nRandom, per = 800, 5000
			}
			var cases []fw.Case
			// exhaustive small documents: <=2 runs x <=3 hops x address classes x <=3 samples from a 4-value set
			cases = append(cases, fw.Case{ID: "C16/exhaustive-small", Run: func(c *fw.Ctx) { runC16Exhaustive(c) }})
			for i := 0; i < nRandom; i++ {
				i := i
				cases = append(cases, fw.Case{ID: fmt.Sprintf("C16/random/%d", i), Run: func(c *fw.Ctx) {
					for k := 0; k < per; k++ {
						d := genDoc(c.Rng, 4, 12, 12)
						runC16Doc(c, fmt.Sprintf("C16/random/%d doc %d", i, k), d, c.Rng)
					}
				}})
			}
			// large documents: the number of runs and of samples is a caller's integer, not a small constant
			// (257, 300, 1000, 70000 runs; 300 and 70000 samples), so any 8- or 16-bit narrowing on the way shows
			for i, sz := range [][2]int{{257, 3}, {300, 300}, {1000, 7}, {70000, 2}, {3, 70000}} {
				i, sz := i, sz
				if tier != "thorough" && sz[0]*sz[1] > 100000 {
					sz = [2]int{66000, 1}
				}
				cases = append(cases, fw.Case{ID: fmt.Sprintf("C16/large/%d", i), Run: func(c *fw.Ctx) {
					d := &result.Results{Protocol: "udp"}
					for k := 0; k < sz[0]; k++ {
						run := result.TracerouteRun{}
						for h := 0; h < 1+k%3; h++ {
							hop := &result.TracerouteHop{TTL: h + 1}
							if (k+h)%4 != 0 {
								hop.IPAddress = net.IP{198, 51, byte(k), byte(h + 1)}
								hop.RTT = 1 + float64((k*7+h)%50)
							}
							run.Hops = append(run.Hops, hop)
						}
						d.Traceroute.Runs = append(d.Traceroute.Runs, run)
					}
					for k := 0; k < sz[1]; k++ {
						d.E2eProbe.RTTs = append(d.E2eProbe.RTTs, float64((k*13)%9))
					}
					runC16Doc(c, fmt.Sprintf("C16/large/%d (%d runs, %d samples)", i, sz[0], sz[1]), d, c.Rng)
					c.Nontrivial(fmt.Sprintf("large/%d", i))
				}})
			}
			cases = append(cases, fw.Case{ID: "C16/served", Run: func(c *fw.Ctx) { runC16Served(c, c.ID) }})
			cases = append(cases, fw.Case{ID: "C16/cli-printed", Run: func(c *fw.Ctx) { runC16CLIPrinted(c, c.ID) }})
			for _, h := range []bool{false, true} {
				h := h
				cases = append(cases, fw.Case{ID: fmt.Sprintf("C16/overlapping-identical/http-%v", h), Bubble: true, Run: func(c *fw.Ctx) { runC16Overlapping(c, c.ID, h) }})
			}
			// finished documents as RunTraceroute hands them out (simulated wire): every (runs, samples) shape a request can
			// ask for, including samples only and runs only, reached / unreached destinations
			for i, qe := range [][2]int{{0, 3}, {1, 0}, {2, 4}, {0, 1}, {3, 0}, {1, 1}, {0, 6}, {3, 3}} {
				for j, proto := range []string{"udp", "icmp", "tcp"} {
					i, j, qe, proto := i, j, qe, proto
					if tier != "thorough" && (i+j)%3 != 0 {
						continue
					}
					id := fmt.Sprintf("C16/request/%s/q%d-e%d", proto, qe[0], qe[1])
					cases = append(cases, fw.Case{ID: id, Bubble: true, Run: func(c *fw.Ctx) { runC16Request(c, id, proto, qe[0], qe[1], (i+j)%4 != 3) }})
				}
			}
			return cases
		},
	}
}

// runC16Served: the document as the HTTP API serves it (no probing: 0 runs, 0 samples; the handler builds, finishes and
// serialises the document) for targets whose text contains characters that mean something to a formatter or to JSON
// (a zone-scoped address with '%', quotes, backslashes, angle brackets, non-ASCII): the body decodes, strictly, to a
// document whose strings are the ones that were asked for, its identifier is fresh, and re-encoding it reproduces the body.
func runC16Served(c *fw.Ctx, id string) {
	resetProcessState()
	srv := server.NewServer()
	seen := map[string]bool{}
	for _, target := range []string{"192.0.2.10", "2001:db8::10", "::ffff:192.0.2.10", "fe80::1%eth0", "fe80::2%vlan100", "fe80::3%25", "fe80::4%s%d%v"} {
		for _, proto := range []string{"icmp", "udp"} {
			q := url.Values{"target": {target}, "protocol": {proto}, "traceroute-queries": {"0"}, "e2e-queries": {"0"}}
			rec := httptest.NewRecorder()
			srv.TracerouteHandler(rec, httptest.NewRequest("GET", "/traceroute?"+q.Encode(), nil))
			tag := fmt.Sprintf("%s target=%q protocol=%s", id, target, proto)
			if rec.Code != 200 {
				continue // whether such a target is accepted is C19's business
			}
			body := rec.Body.Bytes()
			var doc result.Results
			dec := json.NewDecoder(bytes.NewReader(body))
			dec.DisallowUnknownFields()
			if err := dec.Decode(&doc); err != nil {
				c.Violate("C16", "served-json-decode", fmt.Sprintf("%s: the served document does not decode: %v", tag, err), map[string]any{"body": string(body)})
				continue
			}
			if doc.Destination.Hostname != target || doc.Protocol != proto {
				c.Violate("C16", "served-values-differ", fmt.Sprintf("%s: the served document decodes to destination.hostname %q, protocol %q", tag, doc.Destination.Hostname, doc.Protocol), map[string]any{"body": string(body)})
			}
			if doc.TestRunID == "" || seen[doc.TestRunID] {
				c.Violate("C16", "served-id-not-fresh", fmt.Sprintf("%s: test_run_id %q is empty or was served before", tag, doc.TestRunID), nil)
			}
			seen[doc.TestRunID] = true
			if again, err := json.Marshal(&doc); err != nil || !bytes.Equal(bytes.TrimSpace(body), again) {
				c.Violate("C16", "served-json-unstable", fmt.Sprintf("%s: re-encoding the decoded document does not reproduce the served bytes (err=%v)", tag, err), map[string]any{"served": string(body), "reencoded": string(again)})
			}
			c.Count("served_documents_checked", 1)
			c.Nontrivial("served/" + proto + "/" + target)
		}
	}
}

// runC16Overlapping: four requests with field-for-field identical parameters overlap on one Traceroute value (what a
// server does when a scheduler asks for the same path from several workers): every caller gets its own document, all
// test and run identifiers pairwise distinct.
func runC16Overlapping(c *fw.Ctx, id string, viaHTTP bool) {
	resetProcessState()
	v := refmatch.VariantByName("udp4")
	target := drive.TargetFor(v, 60+c.Worker)
	params := traceroute.TracerouteParams{Hostname: target.String(), Port: 33434, Protocol: "udp", MinTTL: 1, MaxTTL: 5, Delay: 10, Timeout: 300 * time.Millisecond,
		TCPMethod: traceroute.TCPConfigSYN, TracerouteQueries: 2, E2eQueries: 1}
	env, err := newReqEnv(c, params, target, 33434, false)
	if err != nil {
		c.Inconclusive(err.Error())
		return
	}
	defer env.close()
	env.modelFor = func(k int, e *simEnv) *pathModel { return flowPath(k, e, 4, true, 5*time.Millisecond) }
	const n = 4
	docs := make([]*result.Results, n)
	errs := make([]error, n)
	tr := traceroute.NewTracerouteWithFetcher(&scriptedFetcher{ip: net.ParseIP("192.0.2.200")})
	srv := server.NewServer()
	var wg sync.WaitGroup
	allocMu.Lock()
	for i := 0; i < n; i++ {
		i := i
		wg.Add(1)
		go func() {
			defer wg.Done()
			time.Sleep(time.Duration(i) * 20 * time.Millisecond) // while the earlier ones are in flight
			if viaHTTP {
				q := url.Values{"target": {target.String()}, "protocol": {"udp"}, "port": {"33434"}, "max-ttl": {"5"}, "timeout": {"300"},
					"traceroute-queries": {"2"}, "e2e-queries": {"1"}}
				rec := httptest.NewRecorder()
				srv.TracerouteHandler(rec, httptest.NewRequest("GET", "/traceroute?"+q.Encode(), nil))
				if rec.Code != 200 {
					errs[i] = fmt.Errorf("status %d: %s", rec.Code, rec.Body.String())
					return
				}
				d := &result.Results{}
				errs[i] = json.Unmarshal(rec.Body.Bytes(), d)
				docs[i] = d
				return
			}
			docs[i], errs[i] = tr.RunTraceroute(context.Background(), params)
		}()
	}
	wg.Wait()
	allocMu.Unlock()
	ids := map[string]string{}
	for i, d := range docs {
		if errs[i] != nil || d == nil {
			c.Violate("C16", "overlapping-request-failed", fmt.Sprintf("%s: request %d failed next to identical ones: %v", id, i, errs[i]), nil)
			return
		}
		for j := 0; j < i; j++ {
			if docs[j] == d {
				c.Violate("C16", "overlapping-shared-document", fmt.Sprintf("%s: requests %d and %d were handed the same document value", id, j, i), nil)
			}
		}
		note := func(kind, v string) {
			who := fmt.Sprintf("request %d %s", i, kind)
			if v == "" {
				c.Violate("C16", "overlapping-id-empty", fmt.Sprintf("%s: %s is empty", id, who), nil)
			} else if prev, ok := ids[v]; ok {
				c.Violate("C16", "overlapping-id-repeated", fmt.Sprintf("%s: %s %q was already given to %s", id, who, v, prev), nil)
			}
			ids[v] = who
		}
		note("test_run_id", d.TestRunID)
		for k := range d.Traceroute.Runs {
			note(fmt.Sprintf("run %d run_id", k), d.Traceroute.Runs[k].RunID)
		}
		if len(d.Traceroute.Runs) != 2 {
			c.Violate("C16", "overlapping-run-count", fmt.Sprintf("%s: request %d returned %d runs", id, i, len(d.Traceroute.Runs)), nil)
		}
	}
	c.Count("overlapping_identical_requests", n)
	c.Count("ids_checked", len(ids))
	c.Nontrivial(fmt.Sprintf("overlapping-identical/http%v", viaHTTP))
}

// runC16CLIPrinted: the document the command line prints (the binary built from the working tree, zero path runs and zero
// end-to-end probes: no socket is needed) for targets with and without a '%': strict decode, same strings, fresh id.
func runC16CLIPrinted(c *fw.Ctx, id string) {
	bin := filepath.Join(os.Getenv("VERIF_BUILD_DIR"), "datadog-traceroute")
	if _, err := os.Stat(bin); err != nil {
		c.Inconclusive("no CLI binary (run through ./check)")
		return
	}
	seen := map[string]bool{}
	for _, target := range []string{"192.0.2.10", "example.org", "fe80::1%eth0", "fe80::3%25", "a%sb%d.example%v", "100%"} {
		for _, proto := range []string{"udp", "tcp"} {
			tag := fmt.Sprintf("%s target=%q protocol=%s", id, target, proto)
			cmd := exec.Command(bin, "-P", proto, "-p", "8080", "-q", "0", "-Q", "0", target)
			var stdout, stderr bytes.Buffer
			cmd.Stdout, cmd.Stderr = &stdout, &stderr
			if err := cmd.Run(); err != nil {
				continue // whether such a target is accepted is C19's business
			}
			body := stdout.Bytes()
			var doc result.Results
			dec := json.NewDecoder(bytes.NewReader(body))
			dec.DisallowUnknownFields()
			if err := dec.Decode(&doc); err != nil {
				c.Violate("C16", "printed-json-decode", fmt.Sprintf("%s: the printed document does not decode: %v", tag, err), map[string]any{"stdout": string(body)})
				continue
			}
			if doc.Destination.Hostname != target || doc.Protocol != proto || doc.Destination.Port != 8080 {
				c.Violate("C16", "printed-values-differ", fmt.Sprintf("%s: the printed document decodes to destination.hostname %q, port %d, protocol %q", tag, doc.Destination.Hostname, doc.Destination.Port, doc.Protocol), map[string]any{"stdout": string(body)})
			}
			if doc.TestRunID == "" || seen[doc.TestRunID] {
				c.Violate("C16", "printed-id-not-fresh", fmt.Sprintf("%s: test_run_id %q is empty or was printed before", tag, doc.TestRunID), nil)
			}
			seen[doc.TestRunID] = true
			c.Count("printed_documents_checked", 1)
			c.Nontrivial("printed/" + proto + "/" + target)
		}
	}
}

// runC16Request: the document a whole request returns (not one the harness assembled) goes through the same oracle.
func runC16Request(c *fw.Ctx, id, proto string, q, e2e int, reach bool) {
	resetProcessState()
	v := map[string]refmatch.Variant{"udp": refmatch.VariantByName("udp4"), "icmp": refmatch.VariantByName("icmp4"), "tcp": refmatch.VariantByName("syn")}[proto]
	target := drive.TargetFor(v, 40+c.Worker)
	params := traceroute.TracerouteParams{Hostname: target.String(), Port: 33434, Protocol: proto, MinTTL: 1, MaxTTL: 5, Delay: 10, Timeout: 200 * time.Millisecond,
		TCPMethod: traceroute.TCPConfigSYN, TracerouteQueries: q, E2eQueries: e2e}
	env, err := newReqEnv(c, params, target, 33434, false)
	if err != nil {
		c.Inconclusive(err.Error())
		return
	}
	defer env.close()
	env.modelFor = func(k int, e *simEnv) *pathModel {
		m := flowPath(k, e, 3, reach, time.Duration(1+k)*time.Millisecond)
		return m
	}
	ctx := context.Background()
	if proto != "icmp" && (q+e2e)%2 == 1 {
		// the caller's context ends while runs are in flight (UDP and TCP runs never look at it and complete); the document
		// is judged two virtual seconds after it was handed out: "finished" means nobody is still writing into it
		cctx, cancel := context.WithTimeout(ctx, 25*time.Millisecond)
		defer cancel()
		ctx = cctx
		c.Count("requests_with_ending_context", 1)
	}
	out, rerr := env.run(ctx)
	time.Sleep(2 * time.Second)
	if rerr != nil || out == nil {
		if ctx != context.Background() && errors.Is(rerr, context.DeadlineExceeded) {
			return // a request that honours the caller's deadline fails with it: nothing to judge here
		}
		c.Violate("C16", "request-failed", fmt.Sprintf("%s: fault-free request: result=%v err=%v", id, out != nil, rerr), nil)
		return
	}
	if len(out.Traceroute.Runs) != q || len(out.E2eProbe.RTTs) != e2e {
		c.Inconclusive(fmt.Sprintf("%s: %d runs and %d samples came back (C15 owns the counts)", id, len(out.Traceroute.Runs), len(out.E2eProbe.RTTs)))
		return
	}
	checkDoc(c, id+" (document returned by RunTraceroute)", out, true)
	// and its JSON form decodes to the same values
	b, err := json.Marshal(out)
	if err != nil {
		c.Violate("C16", "json-encode", fmt.Sprintf("%s: %v", id, err), nil)
		return
	}
	var back result.Results
	if err := json.Unmarshal(b, &back); err != nil {
		c.Violate("C16", "json-decode", fmt.Sprintf("%s: %v", id, err), nil)
		return
	}
	if diff := equalDocs(out, &back); diff != "" {
		c.Violate("C16", "json-roundtrip", fmt.Sprintf("%s: decode(encode(document)) differs: %s", id, diff), nil)
	}
	c.Nontrivial(fmt.Sprintf("request/%s/q%d-e%d/reach%v", proto, q, e2e, reach))
	c.Count("request_documents_checked", 1)
}

func cloneDoc(d *result.Results) *result.Results {
	b, _ := json.Marshal(d)
	var c result.Results
	json.Unmarshal(b, &c)
	// json drops IsDest and the 4/16-byte distinction; copy hops explicitly
	c.Traceroute.Runs = nil
	for _, r := range d.Traceroute.Runs {
		rr := r
		rr.Hops = nil
		for _, h := range r.Hops {
			hh := *h
			rr.Hops = append(rr.Hops, &hh)
		}
		c.Traceroute.Runs = append(c.Traceroute.Runs, rr)
	}
	c.E2eProbe.RTTs = append([]float64(nil), d.E2eProbe.RTTs...)
	return &c
}

func runC16Doc(c *fw.Ctx, tag string, d *result.Results, r *rand.Rand) {
	orig := cloneDoc(d)
	d.Normalize()
	checkDoc(c, tag, d, true)
	// identifiers are fresh: finishing a document that already carries identifiers (decoded from JSON, or finished
	// again after more runs were appended) must not republish the old ones
	again := cloneDoc(d)
	again.TestRunID = d.TestRunID
	again.Normalize()
	if again.TestRunID == d.TestRunID {
		c.Violate("C16", "stale-id/test-run", tag+": Normalize() on a document that already has a test_run_id kept it", nil)
	}
	for i := range again.Traceroute.Runs {
		if i < len(d.Traceroute.Runs) && again.Traceroute.Runs[i].RunID == d.Traceroute.Runs[i].RunID {
			c.Violate("C16", "stale-id/run", tag+": Normalize() on a run that already has a run_id kept it", nil)
			break
		}
	}
	// ... and finishing twice leaves the document as self-consistent as finishing once (statistics are recomputed from
	// the samples, not accumulated onto what the document already says)
	checkDoc(c, tag+" (second Normalize on the finished document)", again, false)
	// the finished document of a request with private-hop skipping: still self-consistent
	red := cloneDoc(d)
	red.TestRunID = d.TestRunID
	red.RemovePrivateHops()
	checkDoc(c, tag+" (after RemovePrivateHops)", red, false)
	pos := 0
	maxH := 0
	for _, v := range d.E2eProbe.RTTs {
		if v > 0 {
			pos++
		}
	}
	for _, run := range d.Traceroute.Runs {
		if len(run.Hops) > maxH {
			maxH = len(run.Hops)
		}
	}
	c.Nontrivial(fmt.Sprintf("runs%d/hops%d/samples%d/pos%d", len(d.Traceroute.Runs), bucket(maxH), bucket(len(d.E2eProbe.RTTs)), bucket(pos)))
	// permutation invariance
	n := len(orig.E2eProbe.RTTs)
	if n < 2 {
		return
	}
	var perms [][]float64
	if n <= 6 {
		idx := make([]int, n)
		for i := range idx {
			idx[i] = i
		}
		var rec func(k int)
		rec = func(k int) {
			if k == n {
				p := make([]float64, n)
				for i, j := range idx {
					p[i] = orig.E2eProbe.RTTs[j]
				}
				perms = append(perms, p)
				return
			}
			for i := k; i < n; i++ {
				idx[k], idx[i] = idx[i], idx[k]
				rec(k + 1)
				idx[k], idx[i] = idx[i], idx[k]
			}
		}
		rec(0)
	} else {
		for s := 0; s < 20; s++ {
			p := append([]float64(nil), orig.E2eProbe.RTTs...)
			r.Shuffle(n, func(i, j int) { p[i], p[j] = p[j], p[i] })
			perms = append(perms, p)
		}
	}
	for _, p := range perms {
		d2 := &result.Results{}
		d2.E2eProbe.RTTs = p
		d2.Normalize()
		a, b := d.E2eProbe, d2.E2eProbe
		tol := ulpTol(n, a.RTT.Max)
		if a.PacketsSent != b.PacketsSent || a.PacketsReceived != b.PacketsReceived || a.PacketLossPercentage != b.PacketLossPercentage || a.RTT.Min != b.RTT.Min || a.RTT.Max != b.RTT.Max || math.Abs(a.RTT.Avg-b.RTT.Avg) > tol {
			c.Violate("C16", "order-dependent", fmt.Sprintf("%s: statistics depend on the sample order: %v -> sent=%d recv=%d loss=%v min=%v max=%v avg=%v; %v -> sent=%d recv=%d loss=%v min=%v max=%v avg=%v", tag,
				orig.E2eProbe.RTTs, a.PacketsSent, a.PacketsReceived, a.PacketLossPercentage, a.RTT.Min, a.RTT.Max, a.RTT.Avg, p, b.PacketsSent, b.PacketsReceived, b.PacketLossPercentage, b.RTT.Min, b.RTT.Max, b.RTT.Avg), nil)
			return
		}
		c.Count("permutations_checked", 1)
	}
}

func runC16Exhaustive(c *fw.Ctx) {
	vals := []float64{0, 0.1, 20, 33.333333333333336}
	var sampleSets [][]float64
	sampleSets = append(sampleSets, nil)
	for _, a := range vals {
		sampleSets = append(sampleSets, []float64{a})
		for _, b := range vals {
			sampleSets = append(sampleSets, []float64{a, b})
			for _, d := range vals {
				sampleSets = append(sampleSets, []float64{a, b, d})
			}
		}
	}
	r := rand.New(rand.NewSource(1))
	classes := len(addrClasses)
	// hop lists of length 1..3 over address classes
	var hopLists [][]int
	for n := 1; n <= 3; n++ {
		total := 1
		for i := 0; i < n; i++ {
			total *= classes
		}
		for m := 0; m < total; m++ {
			l := make([]int, n)
			x := m
			for i := 0; i < n; i++ {
				l[i] = x % classes
				x /= classes
			}
			hopLists = append(hopLists, l)
		}
	}
	mk := func(l []int) result.TracerouteRun {
		run := result.TracerouteRun{Source: result.TracerouteSource{IPAddress: net.IP{10, 0, 0, 1}}, Destination: result.TracerouteDestination{IPAddress: net.IP{8, 8, 8, 8}}}
		for i, cl := range l {
			h := &result.TracerouteHop{TTL: i + 1, IPAddress: addrClasses[cl](r)}
			if len(h.IPAddress) > 0 {
				h.RTT = 1.5
			}
			run.Hops = append(run.Hops, h)
		}
		return run
	}
	n := 0
	for si, ss := range sampleSets {
		// 0 runs
		d := &result.Results{}
		d.E2eProbe.RTTs = append([]float64(nil), ss...)
		runC16Doc(c, fmt.Sprintf("C16/exh runs=0 samples=%v", ss), d, r)
		n++
		if si%9 != 0 {
			continue // hop-list product with every 9th sample set keeps the enumeration at ~10^5 documents
		}
		for _, l1 := range hopLists {
			d := &result.Results{}
			d.Traceroute.Runs = []result.TracerouteRun{mk(l1)}
			d.E2eProbe.RTTs = append([]float64(nil), ss...)
			runC16Doc(c, fmt.Sprintf("C16/exh runs=[%v] samples=%v", l1, ss), d, r)
			n++
		}
	}
	for _, l1 := range hopLists {
		for _, l2 := range hopLists {
			d := &result.Results{}
			d.Traceroute.Runs = []result.TracerouteRun{mk(l1), mk(l2)}
			runC16Doc(c, fmt.Sprintf("C16/exh runs=[%v %v]", l1, l2), d, r)
			n++
		}
	}
	c.Count("exhaustive_docs", n)
	c.Sample(map[string]any{"exhaustive_small_documents": n, "sample_sets": len(sampleSets), "hop_lists": len(hopLists)})
	_ = sort.Ints
}
