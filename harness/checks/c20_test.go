package checks

import (
	"bytes"
	"context"
	"errors"
	"fmt"
	"net/netip"
	"strings"
	"sync/atomic"
	"time"

	"github.com/DataDog/datadog-traceroute/sack"
	"github.com/DataDog/datadog-traceroute/traceroute"

	"verif/harness/fw"
	"verif/harness/gen"
	"verif/harness/refmatch"
	"verif/harness/simnet"
	"verif/harness/wirefmt"
)

func init() { register("C20", checkC20) }

type c20Req struct {
	proto   string // "" = "tcp"
	maxTTL  int
	dist    int
	method  string
	cap     string // sack-ok sack-ok-ts no-sackperm no-blocks closed no-handshake
	fault   string // none factory filter1 filter2 send1 send3 read2 read9 read-late
	e2e     int
	queries int
	// ctxEnded: the caller's context is already cancelled when the request starts (a client that went away). Whether a
	// TCP request honours it is not this property's business (then it fails with the context's error); what it may not do
	// is take the ended context for "the target does not support SACK" and answer with a SYN trace.
	ctxEnded bool
}

func (r c20Req) String() string {
	return fmt.Sprintf("method=%s capability=%s fault=%s queries=%d e2e=%d ctxEnded=%v", r.method, r.cap, r.fault, r.queries, r.e2e, r.ctxEnded)
}

func checkC20() fw.Check {
	return fw.Check{
		Prop:  "C20",
		Level: "exploration",
		Rule: "one case = RunTraceroute(protocol tcp) with (method in {syn,sack,prefer_sack}) x (target capability in {SACK ok, SACK ok with timestamps (Linux option order and the BSD order in which timestamps precede SACK-permitted), SACK ok while a firewall rejects one probe segment with destination-unreachable, SACK ok with an ECN-setup SYN-ACK (ECE set) behind the enforced capture filters, SACK ok with an initial sequence number just below 2^32, SYN-ACK without SACK-permitted, ACKs without SACK blocks, port closed (real RST: dial refused), handshake never shown to the capture handle}) x (non-capability failure injected into the SACK attempt at the factory / 1st filter / 2nd filter / k-th send / k-th read / every read from 45 ms after the destination's first selective acknowledgement, wrapped by the production code at its real depth) x (0..2 end-to-end probes); the target is a real listener in the peer namespace plus a simulated SYN-ACK/ACK stream; observations: probe kind of every packet on the wire per handle, accept count of the listener, error chain, result; oracle = decision table of the statement. " +
			"distinct_nontrivial counts distinct (method, capability, fault, e2e>0, outcome) tuples executed",
		Workers:       8,
		MinNontrivial: 40,
		Assumptions:   []string{"faults are combined only with a SACK-capable target, where the expected outcome is unambiguous", "Linux build"},
		Gen: func(tier string, seed int64) []fw.Case {
			var reqs []c20Req
			caps := []string{"sack-ok", "sack-ok-ecn", "sack-ok-unreach", "sack-ok-ts", "sack-ok-ts-bsd-order", "no-blocks-long-segment", "net-unreachable", "sack-ok-chatter", "sack-ok-slow-synack", "sack-ok-isn-wrap", "sack-ok-timeout0", "no-sackperm", "no-blocks", "closed", "no-handshake"}
			faults := []string{"factory", "filter1", "filter2", "send1", "send3", "read2", "read9", "read-late", "read-after-dest"}
			for _, m := range []string{"syn", "sack", "prefer_sack"} {
				for _, cp := range caps {
					for _, e2e := range []int{0, 2} {
						for _, q := range []int{1, 2} {
							_ = tier
							if cp == "sack-ok-isn-wrap" && q > 1 {
								// two connections whose initial sequence numbers both sit within a few units of 2^32 have
								// overlapping probe sequence numbers; with the relaxed source check the runner uses, their
								// time-exceeded quotes are then indistinguishable by construction (the harness would be
								// manufacturing a 2^-23 coincidence; seen as cross-flow-hop in 3 of 8 runs). One run only.
								continue
							}
							reqs = append(reqs, c20Req{method: m, cap: cp, fault: "none", e2e: e2e, queries: q})
						}
					}
				}
				for _, f := range faults {
					for _, cp := range []string{"sack-ok", "sack-ok-ts"} {
						reqs = append(reqs, c20Req{method: m, cap: cp, fault: f, e2e: 0, queries: 1})
						reqs = append(reqs, c20Req{method: m, cap: cp, fault: f, e2e: 1, queries: 1})
						if tier == "thorough" {
							reqs = append(reqs, c20Req{method: m, cap: cp, fault: f, e2e: 2, queries: 1})
						}
					}
				}
			}
			if tier == "thorough" {
				base := append([]c20Req(nil), reqs...)
				for _, shape := range [][2]int{{3, 2}, {12, 9}, {30, 4}, {255, 3}, {2, 1}, {7, 7}, {64, 40}, {20, 13}, {5, 2}, {255, 200}, {100, 1}} {
					for _, rq := range base {
						rq.maxTTL, rq.dist = shape[0], shape[1]
						reqs = append(reqs, rq)
					}
				}
			}
			for _, m := range []string{"sack", "prefer_sack", "syn"} {
				for _, cp := range []string{"sack-ok", "sack-ok-ts", "no-sackperm", "closed"} {
					reqs = append(reqs, c20Req{method: m, cap: cp, fault: "none", e2e: 1, queries: 1, ctxEnded: true})
				}
			}
			// the path is longer than the requested TTL range: the SACK trace succeeds without ever reaching the target. SACK
			// is available all the same - no SYN trace "to complete it"
			for _, m := range []string{"sack", "prefer_sack"} {
				for _, cp := range []string{"sack-ok", "sack-ok-ts"} {
					reqs = append(reqs, c20Req{method: m, cap: cp, fault: "none", e2e: 0, queries: 1, maxTTL: 3, dist: 6},
						c20Req{method: m, cap: cp, fault: "none", e2e: 1, queries: 2, maxTTL: 4, dist: 7})
				}
			}
			// a TTL range of a single TTL (first = last = 1, the target one hop away): a path run like any other - the
			// requested method applies to it, it is not an end-to-end probe
			for _, m := range []string{"sack", "prefer_sack", "syn"} {
				for _, cp := range []string{"sack-ok", "sack-ok-ts", "no-sackperm"} {
					reqs = append(reqs, c20Req{method: m, cap: cp, fault: "none", e2e: 0, queries: 1, maxTTL: 1, dist: 1},
						c20Req{method: m, cap: cp, fault: "none", e2e: 0, queries: 2, maxTTL: 1, dist: 1})
				}
			}
			// a spelling variant of the protocol ("TCP"): whether it is accepted is C19's business; IF it is accepted, the
			// method policy applies unchanged (end-to-end probes use SYN, ...)
			for _, m := range []string{"sack", "prefer_sack", "syn"} {
				for _, cp := range []string{"sack-ok", "no-sackperm", "closed"} {
					reqs = append(reqs, c20Req{proto: "TCP", method: m, cap: cp, fault: "none", e2e: 2, queries: 1})
				}
			}
			// an unset method (library callers, an explicitly empty tcp-method= parameter): which trace the path runs use is
			// the default's business, but end-to-end probes use SYN whatever the method
			for _, cp := range []string{"sack-ok", "sack-ok-ts", "no-sackperm"} {
				reqs = append(reqs, c20Req{method: "", cap: cp, fault: "none", e2e: 2, queries: 1}, c20Req{method: "", cap: cp, fault: "none", e2e: 1, queries: 0})
			}
			var cases []fw.Case
			// "cannot connect" by silence: the target drops the SYN of the SACK connection (an address behind the
			// non-forwarding peer namespace). The dial is a real system call, so these two cases run on the real clock
			// (handshake timeout 300 ms, serial SYN trace of 3 TTLs: about 1.5 s each)
			for _, m := range []string{"prefer_sack", "sack"} {
				m := m
				id := "C20/silent-target/" + m
				cases = append(cases, fw.Case{ID: id, Run: func(c *fw.Ctx) { runC20Silent(c, id, m) }})
			}
			for i, rq := range reqs {
				rq := rq
				if rq.maxTTL == 0 {
					rq.maxTTL, rq.dist = 6, 4
				}
				id := fmt.Sprintf("C20/%d/%s/%s/%s/e%d/q%d/m%d", i, rq.method, rq.cap, rq.fault, rq.e2e, rq.queries, rq.maxTTL)
				cases = append(cases, fw.Case{ID: id, Bubble: true, Run: func(c *fw.Ctx) { runC20(c, id, rq) }})
			}
			return withKernelStage("C20", tier, cases)
		},
	}
}

var errC20 = errors.New("verif-injected non-capability failure")

func runC20(c *fw.Ctx, id string, rq c20Req) {
	target := netip.AddrFrom4([4]byte{10, 204, byte(120 + c.Worker), 9})
	port := uint16(21000 + c.Worker)
	protoStr := "tcp"
	if rq.proto != "" {
		protoStr = rq.proto
	}
	params := traceroute.TracerouteParams{Hostname: target.String(), Port: int(port), Protocol: protoStr, MinTTL: 1, MaxTTL: rq.maxTTL, Delay: 5,
		Timeout: 300 * time.Millisecond, TCPMethod: traceroute.TCPMethod(rq.method), TracerouteQueries: rq.queries, E2eQueries: rq.e2e}
	if rq.cap == "sack-ok-timeout0" {
		// a listening timeout of zero (unset by a library caller, --timeout 0): the handshake budget derived from it is
		// "no separate limit", not "already expired" - the target is as SACK-capable as with any other timeout
		params.Timeout = 0
	}
	needPeer := rq.cap != "closed" && rq.cap != "net-unreachable"
	if rq.cap == "net-unreachable" {
		// "cannot connect" by the network: connect() fails at once with ENETUNREACH (a multicast address: a UDP socket
		// can be connected to it, which is all the tool needs to pick its source address, a TCP one cannot)
		target = netip.AddrFrom4([4]byte{224, 0, 0, byte(200 + c.Worker)})
		params.Hostname = target.String()
	}
	env, err := newReqEnv(c, params, target, port, needPeer)
	if err != nil {
		c.Inconclusive(err.Error())
		return
	}
	defer env.close()
	if env.peer != nil {
		env.peer.SackPerm = rq.cap != "no-sackperm"
		env.peer.TS = rq.cap == "sack-ok-ts" || rq.cap == "sack-ok-chatter" || rq.cap == "sack-ok-ts-bsd-order"
		env.peer.BSDOptionOrder = rq.cap == "sack-ok-ts-bsd-order"
		env.peer.TSVal, env.peer.TSEcr = 1000, 2000
		env.peer.ShowSynAck = rq.cap != "no-handshake"
		if rq.cap == "sack-ok-ecn" {
			// both ends negotiate ECN (net.ipv4.tcp_ecn=1): the SYN-ACK carries ECE next to SYN|ACK. The capture filters the
			// run installs are part of the path a frame takes to the driver, so they are enforced here.
			env.peer.ExtraFlags = 0x40
			env.w.Mode = simnet.FilterEnforce
		}
		if rq.cap == "sack-ok-isn-wrap" {
			// the connection's initial sequence number sits just below 2^32: the probes' sequence numbers, and with
			// them the SACK edges the target reports, wrap past 0 inside the TTL window. SACK is available.
			env.peer.ISNForPort = func(port uint16) uint32 { return 0xfffffffe - uint32(port%3) }
		}
		if rq.cap == "sack-ok-slow-synack" {
			// the SYN-ACK of the SACK connection reaches the capture handle late, after the SYN-ACKs the target
			// sent to the end-to-end SYN probes / other runs (those carry no SACK-permitted: a raw SYN has no options)
			env.peer.SynAckDelay = 120 * time.Millisecond
		}
	}
	dist := rq.dist
	var poisoned atomic.Bool
	env.modelFor = func(k int, e *simEnv) *pathModel {
		m := flowPath(k, e, dist, true, 5*time.Millisecond)
		if e.spec.V.Proto == "syn" {
			// a real target answers an option-less SYN with a SYN-ACK that has no SACK-permitted option
			m.destBuild = func(e *simEnv, p *refmatch.Probe) []byte {
				return gen.TCPReply(e.spec.Target, e.local, e.spec.Port, e.lport, 0x77000000, p.Seq+1, wirefmt.TCPSyn|wirefmt.TCPAck, wirefmt.OptMSS(1460), nil, nil)
			}
		}
		if e.spec.V.Proto == "sack" && rq.cap == "sack-ok-chatter" {
			// a SACK-capable target that also sends segments which are not selective ACKs: a retransmitted
			// SYN-ACK, a FIN|ACK and a RST|ACK on the probed connection (none of them says "SACK unsupported")
			m.extra = func(e *simEnv, p *refmatch.Probe) {
				switch p.TTL {
				case 2:
					e.inject(e.peer.SynAckBytes(e.local, e.lport), "chatter:dup-synack", p, oddUS(2*time.Millisecond))
				case 3:
					e.inject(gen.TCPReply(e.spec.Target, e.local, e.spec.Port, e.lport, 0x51000001, e.isn, wirefmt.TCPFin|wirefmt.TCPAck, nil, nil, nil), "chatter:fin-ack", p, oddUS(2*time.Millisecond))
				case 5:
					e.inject(gen.TCPReply(e.spec.Target, e.local, e.spec.Port, e.lport, 0x51000001, e.isn, wirefmt.TCPRst|wirefmt.TCPAck, nil, nil, nil), "chatter:rst-ack", p, oddUS(40*time.Millisecond))
				}
			}
		}
		if e.spec.V.Proto == "sack" && rq.fault == "read-after-dest" {
			// the capture handle fails hard 40 ms after the destination's first selective acknowledgement arrived: the
			// destination is known, the engine is only collecting stragglers - and the attempt has failed all the same
			prev := m.extra
			m.extra = func(e *simEnv, p *refmatch.Probe) {
				if prev != nil {
					prev(e, p)
				}
				if p.TTL == dist {
					time.AfterFunc(45*time.Millisecond, func() {
						poisoned.Store(true)
						env.w.PoisonHandle(e.handle, fmt.Errorf("capture layer: %w", errC20))
					})
				}
			}
		}
		if e.spec.V.Proto == "sack" && rq.cap == "sack-ok-unreach" {
			// a firewall on the path rejects ONE of the probe segments with destination-unreachable (admin prohibited / host
			// unreachable); the target negotiated SACK and selectively acknowledges every probe that reaches it: SACK is
			// available, and a path problem is not a capability statement about the target
			prev := m.extra
			m.extra = func(e *simEnv, p *refmatch.Probe) {
				if prev != nil {
					prev(e, p)
				}
				if p.TTL == 2 {
					e.inject(gen.WrapError(routerAddr(false, 5, 2), e.local, gen.DestUnreach, []uint8{13, 1, 10}[k%3], gen.QuoteBytes(p, 1, "fix"), "min", nil, 0), "unreachable-for-one-probe", p, oddUS(3*time.Millisecond))
				}
			}
		}
		if e.spec.V.Proto == "sack" && rq.cap == "no-blocks-long-segment" {
			// the target acknowledges without SACK blocks on segments that carry 1400 bytes of data (a server that speaks
			// first): longer than the tool's read buffer, the frame arrives cut short - its header still says "no SACK"
			m.destBuild = func(e *simEnv, p *refmatch.Probe) []byte {
				return gen.TCPReply(e.spec.Target, e.local, e.spec.Port, e.lport, 0x51000001, e.isn, wirefmt.TCPAck|wirefmt.TCPPsh, nil, bytes.Repeat([]byte{0x42}, 1400), nil)
			}
		}
		if e.spec.V.Proto == "sack" && rq.cap == "no-blocks" {
			m.destBuild = func(e *simEnv, p *refmatch.Probe) []byte {
				return gen.TCPReply(e.spec.Target, e.local, e.spec.Port, e.lport, 0x51000001, e.isn, wirefmt.TCPAck, nil, nil, nil)
			}
		}
		return m
	}
	// the SACK attempt of a run is always the first handle that run opens; with one query it is handle 0
	if rq.fault != "none" && rq.fault != "read-after-dest" {
		f := simnet.Fault{Err: fmt.Errorf("capture layer: %w", errC20)}
		key := map[string]simnet.FaultKey{
			"factory": {Handle: -1, Op: "factory", K: 1}, "filter1": {Handle: 0, Op: "filter", K: 1}, "filter2": {Handle: 0, Op: "filter", K: 2},
			"send1": {Handle: 0, Op: "write", K: 1}, "send3": {Handle: 0, Op: "write", K: 3}, "read2": {Handle: 0, Op: "read", K: 2}, "read9": {Handle: 0, Op: "read", K: 9}, "read-late": {Handle: 0, Op: "read", K: 40},
		}[rq.fault]
		env.w.Faults[key] = f
	}
	ctx := context.Background()
	if rq.ctxEnded {
		cctx, cancel := context.WithCancel(ctx)
		cancel()
		ctx = cctx
	}
	out, rerr := env.run(ctx)
	if rq.ctxEnded && rerr != nil && errors.Is(rerr, context.Canceled) {
		c.Nontrivial(fmt.Sprintf("%s/%s/ctx-ended/honoured", rq.method, rq.cap))
		return
	}
	// observations
	env.w.Lock()
	kinds := map[int]map[string]int{} // handle -> kind -> count
	order := []string{}
	for _, em := range env.w.Emissions {
		if em.Pkt == nil || em.Pkt.Proto != 6 {
			continue
		}
		k := "other"
		switch {
		case em.Pkt.TCPFlags == wirefmt.TCPSyn:
			k = "syn"
		case em.Pkt.TCPFlags == wirefmt.TCPAck|wirefmt.TCPPsh:
			k = "sack"
		}
		if kinds[em.Handle] == nil {
			kinds[em.Handle] = map[string]int{}
		}
		kinds[em.Handle][k]++
		order = append(order, fmt.Sprintf("h%d:%s:ttl%d", em.Handle, k, em.Pkt.TTL))
	}
	fired := len(env.w.Fired) > 0 || poisoned.Load()
	nHandles := len(env.w.Handles)
	env.w.Unlock()
	accepted := 0
	if env.peer != nil {
		accepted = env.peer.AcceptedCount()
	}
	synTraceHandles, sackTraceHandles, e2eSynHandles, e2eOther := 0, 0, 0, 0
	for h, m := range kinds {
		fl := env.flows[h]
		isE2e := fl != nil && fl.spec.MinTTL == fl.spec.MaxTTL && rq.e2e > 0
		switch {
		case isE2e && m["syn"] > 0 && m["sack"] == 0:
			e2eSynHandles++
		case isE2e:
			e2eOther++
		case m["sack"] > 0:
			sackTraceHandles++
		case m["syn"] > 0:
			synTraceHandles++
		}
	}
	var nse *sack.NotSupportedError
	detail := map[string]any{"request": rq.String(), "error": fmt.Sprint(rerr), "probe_kinds_per_handle": fmt.Sprint(kinds), "listener_accepts": accepted, "handles": nHandles, "fault_fired": fired, "first_probes": order[:min(len(order), 14)]}
	outcome := "error"
	if rerr == nil {
		outcome = fmt.Sprintf("ok(syn%d,sack%d)", synTraceHandles, sackTraceHandles)
	}
	env.monitors(id)
	c.Count("requests", 1)
	c.Nontrivial(fmt.Sprintf("%s/%s/%s/e2e%v/%s/ctx%v", rq.method, rq.cap, rq.fault, rq.e2e > 0, outcome, rq.ctxEnded))
	viol := func(sig, msg string) {
		c.Violate("C20", sig+"/"+rq.method+"/"+rq.cap+"/"+rq.fault, id+": "+msg+" ["+rq.String()+"]", detail)
	}
	if out != nil && rerr != nil {
		viol("result-and-error", "both a result and an error")
	}
	if rq.proto != "" && rerr != nil && len(order) == 0 {
		return // the spelling was rejected before anything was sent: fine
	}
	// end-to-end probes use SYN whatever the method
	if e2eOther > 0 {
		viol("e2e-not-syn", "an end-to-end probe was not a SYN")
	}
	if rerr == nil && e2eSynHandles != rq.e2e {
		viol("e2e-count", fmt.Sprintf("%d end-to-end SYN flows on the wire, %d requested", e2eSynHandles, rq.e2e))
	}
	capGap := rq.cap == "no-sackperm" || rq.cap == "no-blocks" || rq.cap == "closed" || rq.cap == "no-blocks-long-segment" || rq.cap == "net-unreachable"
	sackAvailable := strings.HasPrefix(rq.cap, "sack-ok")
	switch rq.method {
	case "syn":
		if accepted != 0 {
			viol("syn-opened-connection", fmt.Sprintf("method syn but the target's listener accepted %d connection(s)", accepted))
		}
		if sackTraceHandles > 0 {
			viol("syn-sent-sack-probes", "method syn emitted ACK|PSH probes")
		}
		if rq.fault == "none" || !fired {
			if rerr != nil {
				viol("syn-failed", fmt.Sprintf("fault-free SYN trace failed: %v", rerr))
			}
		}
	case "sack":
		if synTraceHandles > 0 {
			viol("sack-masked-by-syn", "method sack produced a SYN trace")
		}
		switch {
		case fired:
			if rerr == nil {
				viol("failure-swallowed", "an injected failure of the SACK attempt was not reported")
			} else if !errors.Is(rerr, errC20) {
				viol("cause-lost", fmt.Sprintf("the error does not wrap the injected cause: %v", rerr))
			}
		case sackAvailable:
			if rerr != nil {
				viol("sack-failed", fmt.Sprintf("SACK is available but the trace failed: %v", rerr))
			} else if sackTraceHandles != rq.queries {
				viol("sack-not-used", fmt.Sprintf("%d SACK flows on the wire, %d runs requested", sackTraceHandles, rq.queries))
			}
		case capGap:
			if rerr == nil {
				viol("sack-unsupported-succeeded", "SACK is unavailable but method sack returned a result")
			} else if !errors.As(rerr, &nse) {
				viol("not-supported-lost", fmt.Sprintf("SACK is unavailable but the error is not a NotSupportedError: %v", rerr))
			}
		default: // handshake never captured
			if rerr == nil {
				viol("sack-no-handshake-succeeded", "the handshake was never captured but the run succeeded")
			}
		}
	case "prefer_sack":
		switch {
		case fired:
			if rerr == nil {
				viol("failure-masked-by-fallback", "a non-capability failure of the SACK attempt was masked (request succeeded)")
			} else if !errors.Is(rerr, errC20) {
				viol("cause-lost", fmt.Sprintf("the error does not wrap the injected cause: %v", rerr))
			}
			if synTraceHandles > 0 {
				viol("fallback-after-failure", "SYN probes were sent after a non-capability SACK failure")
			}
		case sackAvailable:
			if rerr != nil {
				viol("prefer-sack-failed", fmt.Sprintf("SACK is available but the request failed: %v", rerr))
			}
			if synTraceHandles > 0 {
				viol("needless-fallback", "SACK is available but a SYN trace was produced")
			}
			if rerr == nil && sackTraceHandles != rq.queries {
				viol("sack-not-used", fmt.Sprintf("%d SACK flows, %d runs requested", sackTraceHandles, rq.queries))
			}
		case capGap:
			if rerr != nil {
				viol("fallback-missing", fmt.Sprintf("SACK is unavailable (%s) but prefer_sack failed instead of falling back: %v", rq.cap, rerr))
			} else if synTraceHandles != rq.queries {
				viol("fallback-missing", fmt.Sprintf("%d SYN trace flows on the wire, %d runs requested", synTraceHandles, rq.queries))
			}
		default: // handshake never captured: not a capability statement about the target
			if rerr == nil && synTraceHandles > 0 {
				viol("fallback-after-failure", "the SACK handshake was never captured (not a capability gap) but a SYN fallback masked it")
			}
		}
	}
	if rerr == nil && out != nil {
		if len(out.Traceroute.Runs) != rq.queries {
			viol("run-count", fmt.Sprintf("%d runs, %d requested", len(out.Traceroute.Runs), rq.queries))
		}
		env.judgeRuns(out, id)
	}
	c.Sample(map[string]any{"request": rq.String(), "outcome": outcome, "kinds": fmt.Sprint(kinds), "accepts": accepted, "error": fmt.Sprint(rerr)})
}

// runC20Silent: the SYN of the SACK connection is never answered (no RST either). "Cannot connect" is a capability
// gap: prefer_sack must produce the SYN trace, sack must fail with NotSupported and send no SYN probe.
func runC20Silent(c *fw.Ctx, id, method string) {
	// whether an unanswered connect surfaces as the poller's deadline error or as the dial context's (which matches
	// context.DeadlineExceeded) is a race inside net.Dialer: repeated, so that both forms are seen
	n := 6
	if method == "sack" {
		n = 2
	}
	for i := 0; i < n && !c.Violated(); i++ {
		// odd attempts: a timeout of one nanosecond - the dial context has expired before connect() is even called, so
		// the failure deterministically takes the dial context's form (on a loaded machine the 300 ms attempts were
		// seen to produce only the poller's form)
		to := 300 * time.Millisecond
		if i%2 == 1 {
			to = time.Nanosecond
		}
		runC20SilentOnce(c, id, method, to)
	}
}

func runC20SilentOnce(c *fw.Ctx, id, method string, timeout time.Duration) {
	resetProcessState()
	target := netip.AddrFrom4([4]byte{10, 205, byte(40 + c.Worker), 9})
	params := traceroute.TracerouteParams{Hostname: target.String(), Port: 8443, Protocol: "tcp", MinTTL: 1, MaxTTL: 3, Delay: 5,
		Timeout: timeout, TCPMethod: traceroute.TCPMethod(method), TracerouteQueries: 1, E2eQueries: 0}
	env, err := newReqEnv(c, params, target, 8443, false)
	if err != nil {
		c.Inconclusive(err.Error())
		return
	}
	defer env.close()
	env.modelFor = func(k int, e *simEnv) *pathModel { return flowPath(k, e, 9, false, 2*time.Millisecond) } // routers answer, the target never does
	t0 := time.Now()
	out, rerr := env.run(context.Background())
	el := time.Since(t0)
	env.w.Lock()
	syn, sackProbes := 0, 0
	for _, em := range env.w.Emissions {
		if em.Pkt == nil || em.Pkt.Proto != 6 {
			continue
		}
		switch em.Pkt.TCPFlags {
		case wirefmt.TCPSyn:
			syn++
		case wirefmt.TCPAck | wirefmt.TCPPsh:
			sackProbes++
		}
	}
	env.w.Unlock()
	detail := map[string]any{"method": method, "error": fmt.Sprint(rerr), "syn_probes": syn, "sack_probes": sackProbes, "real_elapsed": el.String()}
	c.Count("requests", 1)
	c.Count("silent_target_real_ms", int(el.Milliseconds()))
	var nse *sack.NotSupportedError
	switch method {
	case "prefer_sack":
		switch {
		case rerr != nil:
			c.Violate("C20", "fallback-missing/prefer_sack/silent-target/none", fmt.Sprintf("%s: the target never answered the SYN of the SACK connection (cannot connect = SACK unavailable) but prefer_sack failed instead of falling back: %v", id, rerr), detail)
		case out == nil:
			c.Violate("C20", "nil-nil/prefer_sack/silent-target", id+": nil result and nil error", detail)
		case syn != 3 || sackProbes != 0:
			c.Violate("C20", "fallback-trace-wrong/prefer_sack/silent-target/none", fmt.Sprintf("%s: expected the SYN trace of TTL 1..3 after the fallback, saw %d SYN and %d SACK probes", id, syn, sackProbes), detail)
		default:
			c.Nontrivial("prefer_sack/silent-target/none/e2efalse/ok(syn1,sack0)")
		}
	case "sack":
		switch {
		case rerr == nil:
			c.Violate("C20", "sack-unsupported-succeeded/sack/silent-target/none", id+": method sack returned a trace although no connection could be made", detail)
		case !errors.As(rerr, &nse):
			c.Violate("C20", "not-supported-lost/sack/silent-target/none", fmt.Sprintf("%s: the error does not expose NotSupportedError: %v", id, rerr), detail)
		case syn != 0:
			c.Violate("C20", "sack-masked-by-syn/sack/silent-target/none", fmt.Sprintf("%s: method sack sent %d SYN probes", id, syn), detail)
		default:
			c.Nontrivial("sack/silent-target/none/e2efalse/error")
		}
	}
	c.Sample(map[string]any{"case": id, "detail": detail})
}
