package checks

import (
	"bytes"
	"context"
	"encoding/json"
	"errors"
	"fmt"
	"io"
	"math/rand"
	"net"
	"net/http"
	"net/http/httptest"
	"net/netip"
	"net/url"
	"strings"
	"sync"
	"time"

	"github.com/DataDog/datadog-traceroute/result"
	"github.com/DataDog/datadog-traceroute/server"
	"github.com/DataDog/datadog-traceroute/traceroute"

	"verif/harness/fw"
	"verif/harness/refmatch"
)

func init() { register("C17", checkC17) }

// refPrivate is the reference predicate: RFC 1918 + fc00::/7, judged on the unmapped address.
func refPrivate(ip net.IP) bool {
	a, ok := netip.AddrFromSlice(ip)
	if !ok {
		return false
	}
	a = a.Unmap()
	for _, p := range []string{"10.0.0.0/8", "172.16.0.0/12", "192.168.0.0/16", "fc00::/7"} {
		if netip.MustParsePrefix(p).Contains(a) {
			return true
		}
	}
	return false
}

var boundaryAddrs = []string{
	"10.0.0.0", "10.255.255.255", "9.255.255.255", "11.0.0.0", "10.77.1.2",
	"172.16.0.0", "172.31.255.255", "172.15.255.255", "172.32.0.0", "172.20.9.9",
	"192.168.0.0", "192.168.255.255", "192.167.255.255", "192.169.0.0", "192.168.1.1",
	"100.64.0.1", "169.254.1.1", "8.8.8.8", "198.51.100.7",
	"fc00::", "fdff:ffff:ffff:ffff:ffff:ffff:ffff:ffff", "fbff:ffff:ffff:ffff:ffff:ffff:ffff:ffff", "fe00::", "fd12:3456:789a::1", "fc00::1",
	"2001:db8::1", "fe80::1", "2606:4700::1111",
	// public IPv6 addresses whose last 32 bits read like a private IPv4 address (10.0.0.1, 192.168.1.1, 172.16.0.5)
	"2a01:4f8:0:1::a00:1", "2606:4700:10::c0a8:101", "2001:4860:0:1::ac10:5",
}

func boundaryIP(r *rand.Rand, i int) net.IP {
	s := boundaryAddrs[i%len(boundaryAddrs)]
	ip := net.ParseIP(s)
	if v4 := ip.To4(); v4 != nil {
		switch r.Intn(3) {
		case 0:
			return v4 // 4-byte
		case 1:
			return ip.To16() // IPv4-mapped 16-byte form
		}
		return v4
	}
	return ip
}

// checkRedaction compares a redacted document with its un-redacted twin.
func checkRedaction(c *fw.Ctx, tag string, plain, red *result.Results) {
	viol := func(sig, msg string) {
		bp, _ := json.Marshal(plain)
		br, _ := json.Marshal(red)
		c.Violate("C17", sig, tag+": "+msg, map[string]json.RawMessage{"plain": bp, "redacted": br})
	}
	if len(plain.Traceroute.Runs) != len(red.Traceroute.Runs) {
		viol("run-count", "number of runs changed")
		return
	}
	for i := range plain.Traceroute.Runs {
		pr, rr := &plain.Traceroute.Runs[i], &red.Traceroute.Runs[i]
		if len(pr.Hops) != len(rr.Hops) {
			viol("hop-count", fmt.Sprintf("run %d: hop count %d -> %d", i, len(pr.Hops), len(rr.Hops)))
			continue
		}
		for j := range pr.Hops {
			ph, rh := pr.Hops[j], rr.Hops[j]
			if rh.TTL != ph.TTL {
				viol("ttl-changed", fmt.Sprintf("run %d hop %d: ttl %d -> %d", i, j, ph.TTL, rh.TTL))
			}
			if refPrivate(rh.IPAddress) {
				viol("private-address-left/"+addrKind(rh.IPAddress), fmt.Sprintf("run %d hop ttl=%d still carries %s", i, rh.TTL, rh.IPAddress))
			}
			if refPrivate(ph.IPAddress) {
				c.Count("private_hops_seen", 1)
				if len(rh.IPAddress) != 0 || rh.RTT != 0 || len(rh.ReverseDns) != 0 || rh.Reachable || rh.IsDest {
					what := []string{}
					if len(rh.IPAddress) != 0 {
						what = append(what, "address")
					}
					if rh.RTT != 0 {
						what = append(what, "rtt")
					}
					if len(rh.ReverseDns) != 0 {
						what = append(what, "names")
					}
					if rh.Reachable {
						what = append(what, "reachable")
					}
					if rh.IsDest {
						what = append(what, "dest-flag")
					}
					viol("derived-data-left/"+strings.Join(what, "+"), fmt.Sprintf("run %d hop ttl=%d (was %s) keeps %v", i, rh.TTL, ph.IPAddress, what))
				}
			} else {
				c.Count("public_or_empty_hops_seen", 1)
				if !ph.IPAddress.Equal(rh.IPAddress) || ph.RTT != rh.RTT || fmt.Sprint(ph.ReverseDns) != fmt.Sprint(rh.ReverseDns) || ph.Reachable != rh.Reachable || ph.IsDest != rh.IsDest {
					viol("public-hop-altered", fmt.Sprintf("run %d hop ttl=%d (%s) differs from the un-redacted twin", i, rh.TTL, ph.IPAddress))
				}
			}
		}
	}
	// "the number of hops is unchanged" also for the number the document itself reports
	if plain.Traceroute.HopCount != red.Traceroute.HopCount {
		viol("hop-count-stats", fmt.Sprintf("traceroute.hop_count %+v without the flag, %+v with it", plain.Traceroute.HopCount, red.Traceroute.HopCount))
	}
}

func addrKind(ip net.IP) string {
	switch {
	case len(ip) == 4:
		return "v4"
	case ip.To4() != nil:
		return "v4-mapped"
	}
	return "v6"
}

func checkC17() fw.Check {
	return fw.Check{
		Prop:  "C17",
		Level: "exploration",
		Rule: "three paths, each executed twice (skip-private-hops off/on) and compared hop by hop with a reference private-range predicate: (a) generated documents whose hop addresses sit on every private block boundary (first/last/first-1/last+1 of 10/8, 172.16/12, 192.168/16, fc00::/7, 4-byte and IPv4-mapped encodings, empty hops, private destination as last hop, names/RTT/flags attached) through Normalize+RemovePrivateHops; (b) RunTraceroute over the simulated wire whose routers have those addresses (v4 and v6) with a scripted reverse-DNS resolver answering for every address; (c) server.TracerouteHandler via httptest with skip-private-hops=true, decoding the emitted JSON independently; (d) the CLI binary built from the working tree (no verif tag) tracing chains of Linux kernel routers in network namespaces whose links are numbered partly from private (10.13/16, fd13::/16) and partly from public (198.18/15, 2001:db8::/32) blocks, icmp/udp/tcp syn/sack, IPv4 and IPv6, once without and once with --skip-private-hops: entries at private positions must be bare TTL placeholders, entries at public positions must be the un-flagged twin's (3 of up to 5 runs for a complaint at a public position, since a reply may be lost; a private address in a flagged output is judged at once). " +
			"distinct_nontrivial counts distinct (path, address, encoding) triples of private hops that went through redaction",
		Workers:       1,
		MinNontrivial: 30,
		Assumptions:   []string{"reference predicate: RFC 1918 blocks and fc00::/7 on the unmapped address", "Linux build"},
		Gen: func(tier string, seed int64) []fw.Case {
			nDocs, nRuns := 100, 6
			if tier == "thorough" {
				nDocs, nRuns = 40000, 150
			}
			var cases []fw.Case
			for i := 0; i < nDocs; i++ {
				i := i
				cases = append(cases, fw.Case{ID: fmt.Sprintf("C17/docs/%d", i), Run: func(c *fw.Ctx) {
					for k := 0; k < 50; k++ {
						runC17Doc(c, fmt.Sprintf("C17/docs/%d.%d", i, k), c.Rng, i*50+k)
					}
				}})
			}
			for _, vn := range []string{"icmp4", "udp4", "icmp6", "udp6", "syn"} {
				for _, rdns := range []bool{true, false} {
					for _, http := range []bool{false, true} {
						for n := 0; n < nRuns; n++ {
							vn, rdns, http, n := vn, rdns, http, n
							id := fmt.Sprintf("C17/run/%s/rdns%v/http%v/%d", vn, rdns, http, n)
							cases = append(cases, fw.Case{ID: id, Bubble: true, Run: func(c *fw.Ctx) { runC17Wire(c, id, refmatch.VariantByName(vn), rdns, http, n) }})
						}
					}
				}
			}
			// several requests at once on ONE server / one Traceroute instance, identical except for the flag: every
			// response is judged on its own flag, whatever the others asked for
			for _, vn := range []string{"icmp4", "udp4", "udp6"} {
				for n := 0; n < nRuns/2+1; n++ {
					vn, n := vn, n
					id := fmt.Sprintf("C17/concurrent/%s/%d", vn, n)
					cases = append(cases, fw.Case{ID: id, Bubble: true, Run: func(c *fw.Ctx) { runC17Concurrent(c, id, refmatch.VariantByName(vn), n) }})
					if n < 3 {
						id2 := fmt.Sprintf("C17/dropped-client/%s/%d", vn, n)
						cases = append(cases, fw.Case{ID: id2, Bubble: true, Run: func(c *fw.Ctx) { runC17DroppedClient(c, id2, refmatch.VariantByName(vn), n) }})
					}
				}
			}
			// the real command line over kernel routers (c17_cli_test.go): the labs are started first and collected last
			cli := c17cliCases(tier)
			if *fw.FlagCase == "" && len(cli) > 0 {
				starter := fw.Case{ID: "C17/cli-start", Run: func(c *fw.Ctx) { c17cliStart(tier) }}
				cases = append([]fw.Case{starter}, cases...)
			}
			return append(cases, cli...)
		},
	}
}

func runC17Doc(c *fw.Ctx, tag string, r *rand.Rand, n int) {
	mk := func() *result.Results {
		rr := rand.New(rand.NewSource(int64(n)*7 + 1))
		d := &result.Results{}
		nr := 1 + rr.Intn(3)
		for i := 0; i < nr; i++ {
			run := result.TracerouteRun{Destination: result.TracerouteDestination{IPAddress: boundaryIP(rr, rr.Intn(100))}}
			nh := 1 + rr.Intn(10)
			first := []int{1, 1, 2, 3, 9, 200}[rr.Intn(6)] // runs of library callers may start above TTL 1
			for h := 0; h < nh; h++ {
				hop := &result.TracerouteHop{TTL: first + h}
				if rr.Intn(5) != 0 {
					hop.IPAddress = boundaryIP(rr, n+i*7+h)
					hop.RTT = 1 + rr.Float64()*50
					if rr.Intn(2) == 0 {
						hop.ReverseDns = namesFor(hop.IPAddress.String())
					}
					if h == nh-1 {
						hop.IsDest = rr.Intn(2) == 0
					}
				}
				run.Hops = append(run.Hops, hop)
			}
			d.Traceroute.Runs = append(d.Traceroute.Runs, run)
		}
		return d
	}
	plain, red := mk(), mk()
	plain.Normalize()
	red.Normalize()
	red.RemovePrivateHops()
	checkRedaction(c, tag, plain, red)
	for _, run := range plain.Traceroute.Runs {
		for _, h := range run.Hops {
			if refPrivate(h.IPAddress) {
				c.Nontrivial("doc/" + h.IPAddress.String() + "/" + addrKind(h.IPAddress))
			}
		}
	}
	c.Count("documents", 1)
}

func runC17Wire(c *fw.Ctx, id string, v refmatch.Variant, rdns, viaHTTP bool, n int) {
	// router addresses of the family, rotated by n; the destination is public (variant 0) or private
	var addrs []netip.Addr
	for _, s := range boundaryAddrs {
		a := netip.MustParseAddr(s)
		if a.Is6() == v.V6 {
			addrs = append(addrs, a)
		}
	}
	for k := 0; k < n%len(addrs); k++ {
		addrs = append(addrs[1:], addrs[0])
	}
	target := netip.MustParseAddr("198.51.100.99")
	if v.V6 {
		target = netip.MustParseAddr("2001:db8:77::99")
	}
	if n%2 == 1 || v.Proto == "syn" {
		target = netip.AddrFrom4([4]byte{10, 204, byte(c.Worker), 99}) // private destination
		if v.V6 {
			target = netip.MustParseAddr("fd00:204::99")
		}
	}
	nhops := len(addrs)
	if v.Serial && nhops > 6 {
		nhops = 6
	}
	proto := map[string]string{"icmp": "icmp", "udp": "udp", "syn": "tcp"}[v.Proto]
	var docs [2]*result.Results
	for pass, skip := range []bool{false, true} {
		resetProcessState()
		minTTL := 1
		if !viaHTTP && n%3 == 2 {
			minTTL = 3 // a library caller's first TTL: redacted entries keep TTL and position
		}
		params := traceroute.TracerouteParams{Hostname: target.String(), Port: 33434, Protocol: proto, MinTTL: minTTL, MaxTTL: nhops + 1, Delay: 10,
			Timeout: 400 * time.Millisecond, TCPMethod: traceroute.TCPConfigSYN, TracerouteQueries: 2, E2eQueries: 1, ReverseDns: rdns, SkipPrivateHops: skip, WantV6: v.V6}
		if !viaHTTP && n%4 != 2 {
			// a library caller that leaves optional parameters at their zero value (port: the documented default applies;
			// method: none for non-TCP runs): the flag travels with the parameters it was given with
			params.Port = 0
			if proto != "tcp" {
				params.TCPMethod = ""
			}
			if n%4 == 0 {
				params.Delay = 0
			}
		}
		env, err := newReqEnv(c, params, target, 33434, false)
		if err != nil {
			c.Inconclusive(err.Error())
			return
		}
		env.modelFor = func(k int, e *simEnv) *pathModel {
			m := &pathModel{hops: map[int]*hopSpec{}, dist: nhops + 1, destDelay: 30 * time.Millisecond}
			for t := int(e.spec.MinTTL); t <= nhops && t <= int(e.spec.MaxTTL); t++ {
				if t%7 == 5 {
					continue // an unanswered hop
				}
				m.hops[t] = &hopSpec{addr: addrs[t-1], delay: time.Duration(3+t) * time.Millisecond}
			}
			return m
		}
		var rs *rdnsScript
		if rdns {
			slow := n%3 == 0 // a slow but successful resolver: 3 s per lookup, inside the 5 s lookup timeout
			rs = installResolver(func(addr string) ([]string, error, time.Duration) {
				if slow {
					return namesFor(addr), nil, 3 * time.Second
				}
				return namesFor(addr), nil, time.Millisecond
			})
			if slow {
				c.Count("requests_with_slow_resolver", 1)
			}
		}
		var out *result.Results
		var raw []byte
		if viaHTTP {
			srv := server.NewServer()
			q := url.Values{"target": {target.String()}, "protocol": {proto}, "port": {"33434"}, "max-ttl": {fmt.Sprint(nhops + 1)}, "timeout": {"400"},
				"traceroute-queries": {"2"}, "e2e-queries": {"1"}, "reverse-dns": {boolSpelling(rdns, n)}, "skip-private-hops": {boolSpelling(skip, n+1)}, "ipv6": {boolSpelling(v.V6, n+2)}}
			req := httptest.NewRequest("GET", "/traceroute?"+q.Encode(), nil)
			rec := httptest.NewRecorder()
			srv.TracerouteHandler(rec, req)
			if rec.Code != 200 {
				c.Violate("C17", "http-failed", fmt.Sprintf("%s: handler returned %d: %s", id, rec.Code, rec.Body.String()), nil)
				if rs != nil {
					rs.restore()
				}
				env.close()
				return
			}
			raw = rec.Body.Bytes()
			out = &result.Results{}
			if err := json.Unmarshal(raw, out); err != nil {
				c.Violate("C17", "http-json", fmt.Sprintf("%s: %v", id, err), nil)
			}
		} else {
			var rerr error
			ctx := context.Background()
			if v.Proto != "icmp" && n%2 == 1 {
				// the caller's context ends before or during the request (udp and tcp runs never look at it and complete):
				// what is returned is still a finished result, so it is still redacted when redaction was asked for
				cctx, cancel := context.WithCancel(ctx)
				defer cancel()
				if n%4 == 1 {
					cancel()
				} else {
					tm := time.AfterFunc(60*time.Millisecond, cancel)
					defer tm.Stop()
				}
				ctx = cctx
				c.Count("requests_with_ended_context", 1)
			}
			out, rerr = env.run(ctx)
			// the document is judged 6 virtual seconds after it was handed out: whatever the request left running (a
			// lookup that outlives it) has finished by then, and the caller's document must still be the redacted one
			time.Sleep(6 * time.Second)
			if rerr != nil {
				c.Violate("C17", "run-failed", fmt.Sprintf("%s: %v", id, rerr), nil)
				if rs != nil {
					rs.restore()
				}
				env.close()
				return
			}
		}
		if rs != nil {
			rs.restore()
		}
		env.close()
		// order runs deterministically (completion order is free): by source port then by first hop RTT
		docs[pass] = out
		if skip && viaHTTP {
			// independent decoder: no private address string, no name derived from one, anywhere under "hops"
			var g map[string]any
			json.Unmarshal(raw, &g)
			scanHopsJSON(c, id, g)
		}
	}
	plain, red := docs[0], docs[1]
	if plain == nil || red == nil {
		return
	}
	sortRuns(plain)
	sortRuns(red)
	if viaHTTP {
		// IsDest is not part of the JSON document
		for _, d := range []*result.Results{plain, red} {
			for i := range d.Traceroute.Runs {
				for _, h := range d.Traceroute.Runs[i].Hops {
					h.IsDest = false
				}
			}
		}
	}
	checkRedaction(c, id, plain, red)
	for _, run := range plain.Traceroute.Runs {
		for _, h := range run.Hops {
			if refPrivate(h.IPAddress) {
				c.Nontrivial(fmt.Sprintf("wire-http%v-rdns%v/%s/%s", viaHTTP, rdns, h.IPAddress, addrKind(h.IPAddress)))
			}
		}
	}
	c.Sample(map[string]any{"case": id, "plain": fmtHops(&plain.Traceroute.Runs[0]), "redacted": fmtHops(&red.Traceroute.Runs[0])})
}

// runC17Concurrent: K requests overlap on one server (HTTP) or one Traceroute value (library); they differ only in
// skip-private-hops and start within a millisecond of each other, un-flagged first.
func runC17Concurrent(c *fw.Ctx, id string, v refmatch.Variant, n int) {
	resetProcessState()
	var addrs []netip.Addr
	for _, s := range boundaryAddrs {
		a := netip.MustParseAddr(s)
		if a.Is6() == v.V6 {
			addrs = append(addrs, a)
		}
	}
	for k := 0; k < n%len(addrs); k++ {
		addrs = append(addrs[1:], addrs[0])
	}
	nhops := min(len(addrs), 6)
	target := netip.MustParseAddr("198.51.100.98")
	if v.V6 {
		target = netip.MustParseAddr("2001:db8:77::98")
	}
	proto := map[string]string{"icmp": "icmp", "udp": "udp"}[v.Proto]
	params := traceroute.TracerouteParams{Hostname: target.String(), Port: 33434, Protocol: proto, MinTTL: 1, MaxTTL: nhops + 1, Delay: 10,
		Timeout: 400 * time.Millisecond, TCPMethod: traceroute.TCPConfigSYN, TracerouteQueries: 1, E2eQueries: 0, WantV6: v.V6}
	env, err := newReqEnv(c, params, target, 33434, false)
	if err != nil {
		c.Inconclusive(err.Error())
		return
	}
	defer env.close()
	env.modelFor = func(k int, e *simEnv) *pathModel {
		m := &pathModel{hops: map[int]*hopSpec{}, dist: nhops + 1, destDelay: 30 * time.Millisecond}
		for t := 1; t <= nhops; t++ {
			m.hops[t] = &hopSpec{addr: addrs[t-1], delay: time.Duration(3+t) * time.Millisecond}
		}
		return m
	}
	viaHTTP := n%2 == 0
	flags := []bool{false, true, false, true, true}
	docs := make([]*result.Results, len(flags))
	raws := make([][]byte, len(flags))
	errs := make([]string, len(flags))
	srv := server.NewServer()
	tr := traceroute.NewTraceroute()
	var wg sync.WaitGroup
	allocMu.Lock()
	for i, skip := range flags {
		i, skip := i, skip
		wg.Add(1)
		go func() {
			defer wg.Done()
			time.Sleep(time.Duration(i) * 300 * time.Microsecond)
			if viaHTTP {
				q := url.Values{"target": {target.String()}, "protocol": {proto}, "port": {"33434"}, "max-ttl": {fmt.Sprint(nhops + 1)}, "timeout": {"400"},
					"traceroute-queries": {"1"}, "e2e-queries": {"0"}, "skip-private-hops": {fmt.Sprint(skip)}, "ipv6": {fmt.Sprint(v.V6)}}
				rec := httptest.NewRecorder()
				srv.TracerouteHandler(rec, httptest.NewRequest("GET", "/traceroute?"+q.Encode(), nil))
				if rec.Code != 200 {
					errs[i] = fmt.Sprintf("status %d: %s", rec.Code, rec.Body.String())
					return
				}
				raws[i] = rec.Body.Bytes()
				d := &result.Results{}
				if err := json.Unmarshal(raws[i], d); err != nil {
					errs[i] = err.Error()
					return
				}
				docs[i] = d
			} else {
				p := params
				p.SkipPrivateHops = skip
				d, err := tr.RunTraceroute(context.Background(), p)
				if err != nil {
					errs[i] = err.Error()
					return
				}
				docs[i] = d
			}
		}()
	}
	wg.Wait()
	allocMu.Unlock()
	for i, e := range errs {
		if e != "" {
			c.Violate("C17", "concurrent-request-failed", fmt.Sprintf("%s: request %d (skip=%v) failed: %s", id, i, flags[i], e), nil)
			return
		}
	}
	var plain *result.Results
	for i, skip := range flags {
		if !skip {
			plain = docs[i]
			break
		}
	}
	for i, skip := range flags {
		tag := fmt.Sprintf("%s request %d of %d overlapping ones (skip=%v, http=%v)", id, i, len(flags), skip, viaHTTP)
		if !skip {
			// an un-flagged request must not be redacted because a neighbour asked for it
			for _, h := range docs[i].Traceroute.Runs[0].Hops {
				if want := addrs[min(h.TTL, nhops)-1]; h.TTL <= nhops && !h.IPAddress.Equal(net.IP(want.AsSlice())) {
					c.Violate("C17", "unflagged-request-changed", fmt.Sprintf("%s: ttl %d reports %v, the path has %s", tag, h.TTL, h.IPAddress, want), nil)
				}
			}
			continue
		}
		if viaHTTP {
			var g map[string]any
			json.Unmarshal(raws[i], &g)
			scanHopsJSON(c, tag, g)
			for _, h := range docs[i].Traceroute.Runs[0].Hops {
				h.IsDest = false
			}
			for _, h := range plain.Traceroute.Runs[0].Hops {
				h.IsDest = false
			}
		}
		checkRedaction(c, tag, plain, docs[i])
		for _, h := range plain.Traceroute.Runs[0].Hops {
			if refPrivate(h.IPAddress) {
				c.Nontrivial(fmt.Sprintf("concurrent-http%v/%s/%s", viaHTTP, h.IPAddress, addrKind(h.IPAddress)))
			}
		}
	}
	c.Count("overlapping_requests", len(flags))
}

// failingWriter is a client that went away: the handler's writes fail (at once, or after `limit` bytes).
type failingWriter struct {
	h     http.Header
	limit int
	n     int
}

func (w *failingWriter) Header() http.Header { return w.h }
func (w *failingWriter) WriteHeader(int)     {}
func (w *failingWriter) Write(p []byte) (int, error) {
	if w.n+len(p) <= w.limit {
		w.n += len(p)
		return len(p), nil
	}
	k := w.limit - w.n
	w.n = w.limit
	return k, errors.New("write tcp: broken pipe")
}

// runC17DroppedClient: requests follow each other on one server; the un-flagged ones are sent by clients that are gone
// when the answer is written (the write fails at once / after 100 bytes). Whatever the handler kept from them must not
// show up in the answer to the next, flagged request: that answer is exactly one JSON document without a private address.
func runC17DroppedClient(c *fw.Ctx, id string, v refmatch.Variant, n int) {
	resetProcessState()
	var addrs []netip.Addr
	for _, s := range boundaryAddrs {
		a := netip.MustParseAddr(s)
		if a.Is6() == v.V6 {
			addrs = append(addrs, a)
		}
	}
	for k := 0; k < n%len(addrs); k++ {
		addrs = append(addrs[1:], addrs[0])
	}
	nhops := min(len(addrs), 6)
	target := netip.MustParseAddr("198.51.100.97")
	if v.V6 {
		target = netip.MustParseAddr("2001:db8:77::97")
	}
	proto := map[string]string{"icmp": "icmp", "udp": "udp"}[v.Proto]
	params := traceroute.TracerouteParams{Hostname: target.String(), Port: 33434, Protocol: proto, MinTTL: 1, MaxTTL: nhops + 1, Delay: 10,
		Timeout: 400 * time.Millisecond, TCPMethod: traceroute.TCPConfigSYN, TracerouteQueries: 1, E2eQueries: 0, WantV6: v.V6}
	env, err := newReqEnv(c, params, target, 33434, false)
	if err != nil {
		c.Inconclusive(err.Error())
		return
	}
	defer env.close()
	env.modelFor = func(k int, e *simEnv) *pathModel {
		m := &pathModel{hops: map[int]*hopSpec{}, dist: nhops + 1, destDelay: 30 * time.Millisecond}
		for t := 1; t <= nhops; t++ {
			m.hops[t] = &hopSpec{addr: addrs[t-1], delay: time.Duration(3+t) * time.Millisecond}
		}
		return m
	}
	srv := server.NewServer()
	allocMu.Lock()
	defer allocMu.Unlock()
	for step, limit := range []int{0, -1, 100, -1, 0, 0, -1} {
		skip := limit < 0
		q := url.Values{"target": {target.String()}, "protocol": {proto}, "port": {"33434"}, "max-ttl": {fmt.Sprint(nhops + 1)}, "timeout": {"400"},
			"traceroute-queries": {"1"}, "e2e-queries": {"0"}, "skip-private-hops": {fmt.Sprint(skip)}, "ipv6": {fmt.Sprint(v.V6)}}
		req := httptest.NewRequest("GET", "/traceroute?"+q.Encode(), nil)
		if !skip {
			srv.TracerouteHandler(&failingWriter{h: http.Header{}, limit: limit}, req)
			continue
		}
		rec := httptest.NewRecorder()
		srv.TracerouteHandler(rec, req)
		tag := fmt.Sprintf("%s step %d (flagged request after a dropped un-flagged one)", id, step)
		if rec.Code != 200 {
			c.Violate("C17", "http-failed", fmt.Sprintf("%s: status %d: %s", tag, rec.Code, rec.Body.String()), nil)
			return
		}
		raw := rec.Body.Bytes()
		dec := json.NewDecoder(bytes.NewReader(raw))
		var g map[string]any
		if err := dec.Decode(&g); err != nil {
			c.Violate("C17", "http-json", fmt.Sprintf("%s: %v", tag, err), nil)
			return
		}
		var extra any
		if err := dec.Decode(&extra); err != io.EOF {
			c.Violate("C17", "http-extra-output", fmt.Sprintf("%s: the answer holds more than one JSON document", tag), map[string]any{"body": string(raw)})
		}
		scanHopsJSON(c, tag, g)
		for _, a := range addrs[:nhops] {
			if refPrivate(net.IP(a.AsSlice())) && bytes.Contains(raw, []byte(`"`+a.String()+`"`)) {
				c.Violate("C17", "private-address-in-body", fmt.Sprintf("%s: the answer contains %s", tag, a), map[string]any{"body": string(raw)})
				return
			}
		}
		c.Count("requests_after_dropped_client", 1)
		c.Nontrivial(fmt.Sprintf("dropped-client/%s/step%d", v.Name, step))
	}
}

// boolSpelling: the spellings of a boolean query parameter that strconv.ParseBool (the documented parser) accepts
func boolSpelling(b bool, k int) string {
	if b {
		return []string{"true", "1", "t", "T", "TRUE", "True"}[k%6]
	}
	return []string{"false", "0", "f", "F", "FALSE", "False"}[k%6]
}

func sortRuns(d *result.Results) {
	runs := d.Traceroute.Runs
	for i := 1; i < len(runs); i++ {
		for j := i; j > 0 && runKey(&runs[j]) < runKey(&runs[j-1]); j-- {
			runs[j], runs[j-1] = runs[j-1], runs[j]
		}
	}
}

func runKey(r *result.TracerouteRun) string {
	// hop TTL structure + which hops are empty identifies a run shape; all runs of a request share the path here
	return fmt.Sprintf("%d/%d", len(r.Hops), r.Hops[0].TTL)
}

func scanHopsJSON(c *fw.Ctx, id string, g map[string]any) {
	tr, _ := g["traceroute"].(map[string]any)
	runs, _ := tr["runs"].([]any)
	for _, r := range runs {
		rm, _ := r.(map[string]any)
		hops, _ := rm["hops"].([]any)
		for _, h := range hops {
			hm, _ := h.(map[string]any)
			s, _ := hm["ip_address"].(string)
			if s != "" && refPrivate(net.ParseIP(s)) {
				c.Violate("C17", "json-private-address", fmt.Sprintf("%s: emitted JSON hop carries %s", id, s), hm)
			}
			if s == "" {
				if names, ok := hm["reverse_dns"]; ok && names != nil {
					c.Violate("C17", "json-names-on-redacted-hop", fmt.Sprintf("%s: emitted JSON hop without address has names %v", id, names), hm)
				}
				if rtt, _ := hm["rtt"].(float64); rtt != 0 {
					c.Violate("C17", "json-rtt-on-redacted-hop", fmt.Sprintf("%s: emitted JSON hop without address has rtt %v", id, rtt), hm)
				}
				if reach, _ := hm["reachable"].(bool); reach {
					c.Violate("C17", "json-reachable-on-redacted-hop", fmt.Sprintf("%s: emitted JSON hop without address is reachable", id), hm)
				}
			}
			c.Count("json_hops_scanned", 1)
		}
	}
}
