package checks

import (
	"fmt"
	"time"

	"verif/harness/fw"
	"verif/harness/refmatch"
)

func init() { register("SMOKE", checkSmoke) }

// checkSmoke is a development aid: one plain path per variant, judged by the reference fold.
func checkSmoke() fw.Check {
	return fw.Check{
		Prop: "SMOKE", Level: "exploration", Rule: "one plain path per variant", Workers: 4, MinNontrivial: 1,
		Gen: func(tier string, seed int64) []fw.Case {
			var cases []fw.Case
			for _, v := range refmatch.Variants {
				v := v
				cases = append(cases, fw.Case{ID: "SMOKE/" + v.Name, Bubble: true, Run: func(c *fw.Ctx) {
					spec := defaultSpec(v, c.Worker, 1, 8)
					e, err := newSimEnv(c, spec, 0x10000000)
					if err != nil {
						c.Inconclusive(err.Error())
						return
					}
					defer e.close()
					m := simplePath(v, 1, 4, true, 7*time.Millisecond)
					m.hops[2].silent = true
					t0 := time.Now()
					res := e.run(m)
					f, js := e.judge(res, "smoke/"+v.Name)
					e.checkCompleteness(res, f, js, "smoke/"+v.Name)
					fmt.Printf("SMOKE %s: virtual %v err=%v result=%v frames=%d lifecycle=%v\n", v.Name, time.Since(t0), res.Err, fmtRun(res), len(js), e.w.Lifecycle())
					if res.Err == nil {
						c.Nontrivial(v.Name)
					}
				}})
			}
			return cases
		},
	}
}
