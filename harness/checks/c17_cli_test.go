package checks

import (
	"encoding/json"
	"fmt"
	"net"
	"os"
	"strings"
	"sync"

	"verif/harness/fw"
)

// C17 through the real command line: the CLI binary built from the working tree (no verif tag) traces a path of
// kernel routers whose links are numbered partly from private and partly from public blocks, once without and once
// with --skip-private-hops. The flag has to travel cmd/root.go -> TracerouteParams -> RunTraceroute -> the printed JSON.

type c17cliCfg struct {
	name string
	n    int
	pub  map[int]bool
	v6   bool
	args []string
}

type c17cliHop struct {
	TTL       int      `json:"ttl"`
	IP        string   `json:"ip_address"`
	RTT       float64  `json:"rtt"`
	Reachable bool     `json:"reachable"`
	Names     []string `json:"reverse_dns"`
}

type c17cliOutcome struct {
	inconclusive string
	violations   [][3]string // sig, msg, raw
	nontrivial   []string
	sample       map[string]any
	invocations  int
}

func c17cliConfigs(tier string) []c17cliCfg {
	mixed := map[int]bool{2: true, 4: true} // R1 private, R2 public, R3 private, destination public
	tail := map[int]bool{1: true, 2: true}  // R1, R2 public, R3 and the destination private
	allpub := map[int]bool{1: true, 2: true, 3: true, 4: true}
	cfgs := []c17cliCfg{
		{"icmp4-mixed", 3, mixed, false, []string{"-P", "icmp"}},
		{"udp6-mixed", 3, mixed, true, []string{"-P", "udp"}},
		{"tcp-syn-tail", 3, tail, false, []string{"-P", "tcp", "-p", "8080", "--tcp-method", "syn"}},
		{"udp4-allprivate", 3, nil, false, []string{"-P", "udp"}},
	}
	if tier == "thorough" {
		cfgs = append(cfgs,
			c17cliCfg{"icmp6-tail", 3, tail, true, []string{"-P", "icmp"}},
			c17cliCfg{"udp4-mixed", 3, mixed, false, []string{"-P", "udp"}},
			c17cliCfg{"tcp-sack-mixed", 3, mixed, false, []string{"-P", "tcp", "-p", "8080", "--tcp-method", "sack"}},
			c17cliCfg{"tcp-prefer-sack-allprivate", 3, nil, false, []string{"-P", "tcp", "-p", "8080", "--tcp-method", "prefer_sack"}},
			c17cliCfg{"icmp4-allpublic", 3, allpub, false, []string{"-P", "icmp"}},
			c17cliCfg{"udp6-allprivate", 3, nil, true, []string{"-P", "udp"}},
			c17cliCfg{"icmp4-long-mixed", 5, map[int]bool{1: true, 3: true, 5: true}, false, []string{"-P", "icmp"}},
			c17cliCfg{"udp4-multi-mixed", 3, mixed, false, []string{"-P", "udp", "-q", "3", "-Q", "2"}},
		)
	}
	return cfgs
}

var (
	c17cliMu      sync.Mutex
	c17cliResults = map[string]chan c17cliOutcome{}
)

// c17cliStart builds and runs the labs of a tier concurrently (C17 has a single worker because its other stages
// install process-wide resolvers; the labs only run child processes).
func c17cliStart(tier string) {
	c17cliMu.Lock()
	defer c17cliMu.Unlock()
	if len(c17cliResults) > 0 {
		return
	}
	for j, g := range c17cliConfigs(tier) {
		ch := make(chan c17cliOutcome, 1)
		c17cliResults[g.name] = ch
		go func(j int, g c17cliCfg) { ch <- runC17CLI(fmt.Sprintf("r%d", j), g) }(j, g)
	}
}

// c17cliCases: one case per configuration, collecting the outcome of its lab.
func c17cliCases(tier string) []fw.Case {
	var cases []fw.Case
	for _, cfg := range c17cliConfigs(tier) {
		cfg := cfg
		id := "C17/cli/" + cfg.name
		cases = append(cases, fw.Case{ID: id, Run: func(c *fw.Ctx) {
			c17cliMu.Lock()
			ch := c17cliResults[cfg.name]
			if ch == nil { // a single-case replay: only this lab
				ch = make(chan c17cliOutcome, 1)
				c17cliResults[cfg.name] = ch
				go func() { ch <- runC17CLI("rp", cfg) }()
			}
			c17cliMu.Unlock()
			o := <-ch
			ch <- o
			c.Count("cli_invocations", o.invocations)
			if o.inconclusive != "" {
				c.Inconclusive(id + ": " + o.inconclusive)
				return
			}
			for _, v := range o.violations {
				c.Violate("C17", v[0], id+": "+v[1], map[string]any{"output": v[2]})
			}
			for _, n := range o.nontrivial {
				c.Nontrivial(n)
			}
			if o.sample != nil {
				c.Sample(o.sample)
			}
		}})
	}
	return cases
}

func parseC17CLI(raw string) ([][]c17cliHop, error) {
	var doc struct {
		Traceroute struct {
			Runs []struct {
				Hops []c17cliHop `json:"hops"`
			} `json:"runs"`
		} `json:"traceroute"`
	}
	if err := json.Unmarshal([]byte(raw), &doc); err != nil {
		return nil, err
	}
	var out [][]c17cliHop
	for _, r := range doc.Traceroute.Runs {
		out = append(out, r.Hops)
	}
	return out, nil
}

func runC17CLI(tag string, cfg c17cliCfg) (out c17cliOutcome) {
	if os.Getenv("VERIF_BUILD_DIR") == "" {
		out.inconclusive = "VERIF_BUILD_DIR not set (run through ./check)"
		return
	}
	if _, err := os.Stat(os.Getenv("VERIF_BUILD_DIR") + "/datadog-traceroute"); err != nil {
		out.inconclusive = "CLI binary not built"
		return
	}
	l, err := newLabPub("c17"+tag, cfg.n, cfg.pub)
	if err != nil {
		out.inconclusive = fmt.Sprintf("cannot build the namespace lab: %v", err)
		return
	}
	defer l.cleanup()
	if err := l.listen(8080); err != nil {
		out.inconclusive = fmt.Sprintf("listener: %v", err)
		return
	}
	target := l.dest(cfg.v6)
	base := append([]string{}, cfg.args...)
	if cfg.v6 {
		base = append(base, "--ipv6")
	}
	hasQ := false
	for _, a := range base {
		if a == "-q" {
			hasQ = true
		}
	}
	if !hasQ {
		base = append(base, "-q", "1", "-Q", "0")
	}
	base = append(base, "-m", fmt.Sprint(cfg.n+2), "--timeout", "800")
	// warm-up until the destination answers (neighbour discovery), not judged
	for try := 0; try < 5; try++ {
		o := l.cli(append(append([]string{}, base...), target)...)
		out.invocations++
		if len(o.runs) >= 1 && len(o.runs[0]) > 0 && o.runs[0][len(o.runs[0])-1].IP == target {
			break
		}
	}
	want := l.expectChain(1, cfg.v6)
	// the un-flagged twin must show the true chain (C13 owns that claim: a twin that does not is timing noise here)
	var plain [][]c17cliHop
	var plainRaw string
	for try := 0; try < 4 && plain == nil; try++ {
		o := l.cli(append(append([]string{}, base...), target)...)
		out.invocations++
		if o.err != "" {
			continue
		}
		runs, err := parseC17CLI(o.raw)
		if err != nil || len(runs) == 0 {
			continue
		}
		ok := true
		for _, r := range runs {
			if len(r) != len(want) {
				ok = false
				break
			}
			for i, h := range r {
				if h.IP != want[i] || h.TTL != i+1 {
					ok = false
				}
			}
		}
		if ok {
			plain, plainRaw = runs, o.raw
		}
	}
	if plain == nil {
		out.inconclusive = "the un-flagged run never showed the lab's chain"
		return
	}
	_ = plainRaw
	// the flagged run; a wrong entry at a PUBLIC position may be a lost reply, so public-position complaints need 3
	// of up to 5 runs; a private address, or data derived from one, in a flagged output is never noise
	publicComplaints := 0
	okRuns := 0
	var lastComplaint, lastRaw string
	for attempt := 0; attempt < 5; attempt++ {
		o := l.cli(append(append([]string{"--skip-private-hops"}, base...), target)...)
		out.invocations++
		if o.err == "WATCHDOG" {
			out.inconclusive = "CLI watchdog fired"
			return
		}
		if o.err != "" {
			out.violations = append(out.violations, [3]string{"cli-flag-fails", "the CLI failed with --skip-private-hops: " + o.err, o.raw})
			return
		}
		red, err := parseC17CLI(o.raw)
		if err != nil {
			out.violations = append(out.violations, [3]string{"cli-json", err.Error(), o.raw})
			return
		}
		if len(red) != len(plain) {
			out.violations = append(out.violations, [3]string{"cli-run-count", fmt.Sprintf("%d runs with the flag, %d without", len(red), len(plain)), o.raw})
			return
		}
		complaint := ""
		for ri, r := range red {
			if len(r) != len(want) {
				complaint = fmt.Sprintf("run %d has %d hops with the flag, %d without", ri, len(r), len(want))
				continue
			}
			for i, h := range r {
				priv := refPrivate(net.ParseIP(want[i]))
				if h.TTL != i+1 {
					out.violations = append(out.violations, [3]string{"cli-ttl-changed", fmt.Sprintf("entry %d has ttl %d", i, h.TTL), o.raw})
				}
				if h.IP != "" && refPrivate(net.ParseIP(h.IP)) {
					out.violations = append(out.violations, [3]string{"cli-private-address", fmt.Sprintf("ttl %d carries %s although --skip-private-hops was given", h.TTL, h.IP), o.raw})
					continue
				}
				if priv {
					if h.IP != "" || h.RTT != 0 || h.Reachable || len(h.Names) > 0 {
						out.violations = append(out.violations, [3]string{"cli-derived-data-left", fmt.Sprintf("ttl %d (private %s on the path) is printed as %+v", h.TTL, want[i], h), o.raw})
					} else {
						fam := "v4"
						if cfg.v6 {
							fam = "v6"
						}
						out.nontrivial = append(out.nontrivial, fmt.Sprintf("cli/%s/%s/ttl%d/%s", strings.SplitN(cfg.name, "-", 2)[0], fam, h.TTL, want[i]))
					}
					continue
				}
				if h.IP != want[i] || !h.Reachable || h.RTT <= 0 {
					complaint = fmt.Sprintf("public ttl %d (%s) is printed as %+v with the flag", h.TTL, want[i], h)
				}
			}
		}
		if len(out.violations) > 0 {
			return
		}
		if complaint == "" {
			okRuns++
			if attempt == 0 || okRuns >= 3 {
				out.sample = map[string]any{"case": "C17/cli/" + cfg.name, "chain": want, "flagged_output_hops": red[0]}
				return
			}
			continue
		}
		publicComplaints++
		lastComplaint, lastRaw = complaint, o.raw
		fmt.Printf("C17-CLI-MISMATCH %s attempt %d: %s\n", cfg.name, attempt, complaint)
		if publicComplaints >= 3 {
			out.violations = append(out.violations, [3]string{"cli-public-hop-changed", fmt.Sprintf("%s (%d of %d flagged runs)", lastComplaint, publicComplaints, publicComplaints+okRuns), lastRaw})
			return
		}
	}
	out.inconclusive = fmt.Sprintf("%d mismatching and %d matching flagged runs", publicComplaints, okRuns)
	return
}
