package checks

import (
	"context"
	"fmt"
	"math/rand"
	"net/netip"
	"sync"
	"sync/atomic"
	"time"

	"github.com/DataDog/datadog-traceroute/icmp"
	"github.com/DataDog/datadog-traceroute/packets"
	"github.com/DataDog/datadog-traceroute/result"
	"github.com/DataDog/datadog-traceroute/traceroute"

	"verif/harness/drive"
	"verif/harness/fw"
	"verif/harness/refmatch"
	"verif/harness/simnet"
)

func init() { register("C11", checkC11) }

// newMultiEnv builds one shared wire for runs started directly through drive.Run.
func newMultiEnv(c *fw.Ctx, specs []drive.Spec) (*reqEnv, error) {
	r := &reqEnv{c: c, w: simnet.NewWire(), flows: map[int]*simEnv{}, isnBase: 0x30000000, specs: specs, claimed: make([]bool, len(specs)),
		peers: map[netip.AddrPort]*drive.SackPeer{}, unreg: func() {}}
	r.w.Loopback = true
	for _, sp := range specs {
		r.unregs = append(r.unregs, simnet.Register(r.w, sp.Target))
		if sp.V.Proto == "sack" {
			ap := netip.AddrPortFrom(sp.Target, sp.Port)
			if r.peers[ap] == nil {
				p, err := drive.ListenPeer(ap)
				if err != nil {
					r.close()
					return nil, err
				}
				p.ServerISN = 0x51000000
				base := r.isnBase + uint32(len(r.peers))*0x08000000
				p.ISNForPort = func(port uint16) uint32 { return base + uint32(port)*0x400 }
				r.peers[ap] = p
			}
		}
	}
	r.w.OnFilter = func(h *simnet.Handle, s packets.PacketFilterSpec) {
		for _, p := range r.peers {
			p.OnFilter(h, s)
		}
	}
	r.w.OnReadStart = func(h *simnet.Handle) {
		for _, p := range r.peers {
			p.OnReadStart(r.w, h)
		}
	}
	r.w.OnBeforeFilter = func(h *simnet.Handle, s packets.PacketFilterSpec) {
		for _, p := range r.peers {
			p.OnBeforeFilter(r.w, h, s)
		}
	}
	r.w.OnEmit = r.onEmit
	return r, nil
}

func (r *reqEnv) closePeers() {
	for _, p := range r.peers {
		p.Close()
	}
}

// checkWireIdentifiers: identifier ranges of concurrently live runs never overlap (echo ids, IP-ID blocks).
func checkWireIdentifiers(c *fw.Ctx, r *reqEnv, tag string) {
	flows := r.flowList()
	type idset struct {
		f   *simEnv
		ids map[uint32]bool
	}
	var icmps, syns, paris []idset
	for _, f := range flows {
		fl := f.flow()
		s := idset{f: f, ids: map[uint32]bool{}}
		switch f.spec.V.Proto {
		case "icmp":
			s.ids[uint32(fl.EchoID)] = true
			icmps = append(icmps, s)
		case "syn":
			if f.spec.V.Paris {
				// Paris mode: the per-probe identifier is a random 32-bit sequence number
				for _, p := range fl.Probes {
					s.ids[p.Seq] = true
				}
				paris = append(paris, s)
				continue
			}
			for _, p := range fl.Probes {
				s.ids[uint32(p.IPID)] = true
			}
			syns = append(syns, s)
		}
	}
	cmp := func(kind string, sets []idset) {
		for i := 0; i < len(sets); i++ {
			for j := i + 1; j < len(sets); j++ {
				// same target only matters for isolation, but the property speaks about all concurrent runs
				for id := range sets[i].ids {
					if sets[j].ids[id] {
						c.Violate("C11", "identifier-overlap/"+kind, fmt.Sprintf("%s: flows %d and %d (live at the same time) both use %s %d", tag, sets[i].f.handle.Idx, sets[j].f.handle.Idx, kind, id), nil)
						return
					}
				}
				c.Count("identifier_pairs_checked", 1)
			}
		}
	}
	cmp("echo-id", icmps)
	cmp("ip-id", syns)
	// the RANGES handed to the runs, not only the identifiers that happened to be emitted: a default-mode SYN run owns
	// (base, base+MaxTTL] where base = IP-ID - TTL of any of its probes; two runs of one request are live together
	type blk struct {
		f     *simEnv
		start uint16
		n     int
	}
	var blks []blk
	for _, s := range syns {
		fl := s.f.flow()
		if len(fl.Probes) == 0 || s.f.spec.MaxTTL == 0 {
			continue
		}
		base := fl.Probes[0].IPID - uint16(fl.Probes[0].TTL)
		same := true
		for _, p := range fl.Probes {
			if p.IPID-uint16(p.TTL) != base {
				same = false
			}
		}
		if !same {
			continue // not the base+ttl scheme: the per-identifier comparison above is what applies
		}
		blks = append(blks, blk{s.f, base + 1, int(s.f.spec.MaxTTL)})
	}
	for i := 0; i < len(blks); i++ {
		for j := i + 1; j < len(blks); j++ {
			d1 := int(uint16(blks[j].start - blks[i].start))
			d2 := int(uint16(blks[i].start - blks[j].start))
			c.Count("identifier_range_pairs_checked", 1)
			if d1 < blks[i].n || d2 < blks[j].n {
				c.Violate("C11", "identifier-range-overlap/ip-id", fmt.Sprintf("%s: flows %d and %d of one request own overlapping IP-ID ranges [%d,+%d) and [%d,+%d)", tag, blks[i].f.handle.Idx, blks[j].f.handle.Idx, blks[i].start, blks[i].n, blks[j].start, blks[j].n), nil)
				return
			}
		}
	}
	// random identifiers: one shared value in ~10^3 pairs has probability ~2e-7, two shared values are not chance
	for i := 0; i < len(paris); i++ {
		for j := i + 1; j < len(paris); j++ {
			shared := 0
			for id := range paris[i].ids {
				if paris[j].ids[id] {
					shared++
				}
			}
			c.Count("identifier_pairs_checked", 1)
			if shared >= 2 {
				c.Violate("C11", "identifier-overlap/paris-seq", fmt.Sprintf("%s: Paris-mode flows %d and %d (live at the same time) share %d of their per-probe sequence numbers", tag, paris[i].f.handle.Idx, paris[j].f.handle.Idx, shared), nil)
				return
			}
		}
	}
}

func checkC11() fw.Check {
	return fw.Check{
		Prop:  "C11",
		Level: "exploration",
		Rule: "(a) K in {2,3,5,8} runs started at staggered virtual instants over ONE simulated wire on which every handle sees every inbound frame and every outgoing probe (protocol mixes incl. all-same, same and different targets, different first TTLs, each flow with its own router addresses and delays, allocator bases at the 16-bit wrap), and whole RunTraceroute requests (3 runs + N end-to-end probes); oracle: every run equals the reference fold of its own flow's ledger, no hop carries another flow's router, identifiers seen on the wire for live runs are pairwise distinct and the IP-ID ranges (base, base+MaxTTL] owned by the default-mode SYN flows of one request (incl. the command line's default shape: 3 runs + 50 end-to-end probes x 30 TTLs) are pairwise disjoint modulo 65536; bubble + race detector. (b) allocator stress with real goroutines: 16 callers x N AllocPacketID(mixed maxTTL) / echo-id draws, each allocation kept live for a few iterations; a monitor with its own lock checks every new range (start, start+maxTTL] modulo 65536 against all live ranges (< 65536 identifiers live), across the 2^16 and 2^32 wraps. " +
			"distinct_nontrivial counts distinct (K, protocol mix, same-target, stagger class) scenario signatures in which at least two runs received replies, plus allocator phases",
		Workers:       1,
		MinNontrivial: 30,
		Assumptions:   []string{"relaxed UDP/TCP source checking is not part of the isolation claim (no entry point enables it; SACK's relaxed mode is separated by the connection's sequence space)", "Linux build"},
		Gen: func(tier string, seed int64) []fw.Case {
			n := 100
			nreq := 18
			allocN := 200000
			if tier == "thorough" {
				n, nreq, allocN = 2000, 180, 4400000
			}
			var cases []fw.Case
			for i := 0; i < n; i++ {
				cases = append(cases, fw.Case{ID: fmt.Sprintf("C11/multi/%d", i), Bubble: true, Run: func(c *fw.Ctx) { runC11Multi(c, c.ID) }})
			}
			for i := 0; i < 6; i++ {
				i := i
				cases = append(cases, fw.Case{ID: fmt.Sprintf("C11/ipid-blocks/%d", i), Bubble: true, Run: func(c *fw.Ctx) { runC11Blocks(c, c.ID, i) }})
			}
			for i := 0; i < nreq; i++ {
				i := i
				cases = append(cases, fw.Case{ID: fmt.Sprintf("C11/request/%d", i), Bubble: true, Run: func(c *fw.Ctx) { runC11Request(c, c.ID, i) }})
				if i%6 == 0 {
					j := 1000 + i/6
					cases = append(cases, fw.Case{ID: fmt.Sprintf("C11/request-default-shape/%d", j), Bubble: true, Run: func(c *fw.Ctx) { runC11Request(c, c.ID, j) }})
				}
			}
			for i := 0; i < max(2, nreq/4); i++ {
				i := i
				cases = append(cases, fw.Case{ID: fmt.Sprintf("C11/foreign-reply-burst/%d", i), Bubble: true, Run: func(c *fw.Ctx) { runC11ForeignBurst(c, c.ID, i) }})
			}
			for _, base := range []uint32{0, 0xfff0, 0xffffff00, 0x7fffff00} {
				base := base
				cases = append(cases, fw.Case{ID: fmt.Sprintf("C11/alloc/ipid/%#x", base), Run: func(c *fw.Ctx) { runC11AllocIPID(c, c.ID, base, allocN) }})
				cases = append(cases, fw.Case{ID: fmt.Sprintf("C11/alloc/echoid/%#x", base), Run: func(c *fw.Ctx) { runC11AllocEcho(c, c.ID, base, allocN) }})
			}
			return cases
		},
	}
}

var c11Mu sync.RWMutex // allocator stress cases own the process-wide counters exclusively; simulated cases share them

func runC11Multi(c *fw.Ctx, id string) {
	c11Mu.RLock()
	defer c11Mu.RUnlock()
	r := c.Rng
	k := []int{2, 3, 5, 8}[r.Intn(4)]
	mix := []string{"all-icmp", "all-udp", "all-syn", "all-sack", "mixed", "mixed46"}[r.Intn(6)]
	sameTarget := r.Intn(3) != 0
	stagger := []time.Duration{0, 3 * time.Millisecond, 170 * time.Millisecond, 1300 * time.Millisecond}[r.Intn(4)]
	// allocator bases near the 16-bit wrap
	if r.Intn(2) == 0 {
		icmp.VerifSetEchoIDBase(0xfffe - uint32(r.Intn(3)))
		packets.VerifSetPacketIDBase(0xffff - uint32(r.Intn(40)))
	}
	var specs []drive.Spec
	groupWin := map[string]window{}
	groupParis := map[string]bool{}
	for i := 0; i < k; i++ {
		var vn string
		switch mix {
		case "all-icmp":
			vn = "icmp4"
		case "all-udp":
			vn = "udp4"
		case "all-syn":
			vn = []string{"syn", "syn", "synP"}[r.Intn(3)]
		case "all-sack":
			vn = "sackR"
		case "mixed":
			vn = []string{"icmp4", "udp4", "syn", "sackR", "sackS"}[r.Intn(5)]
		default:
			vn = []string{"icmp4", "udp4", "icmp6", "udp6", "syn"}[r.Intn(5)]
		}
		v := refmatch.VariantByName(vn)
		tw := c.Worker*8 + 0
		if !sameTarget {
			tw = c.Worker*8 + i%8
		}
		// all runs of one (protocol, family, target) group share a TTL window, like the runs of one request;
		// a run is either the full window or an end-to-end style single probe at its last TTL
		gk := fmt.Sprintf("%s/%v/%d", v.Proto, v.V6, tw)
		if v.Proto == "syn" {
			// one TCP SYN mode per target group (a handle cannot be told apart by its first probe): the first flow of
			// the group decides whether the whole group runs in Paris mode
			if _, ok := groupParis[gk]; !ok {
				groupParis[gk] = v.Paris
			}
			if groupParis[gk] {
				v = refmatch.VariantByName("synP")
			} else {
				v = refmatch.VariantByName("syn")
			}
		}
		gw, ok := groupWin[gk]
		if !ok {
			f := 1 + r.Intn(3)
			gw = window{f, f + 2 + r.Intn(5)}
			groupWin[gk] = gw
		}
		first, last := gw.first, gw.last
		if r.Intn(5) == 0 {
			first = last
		}
		sp := defaultSpec(v, tw, first, last)
		sp.Timeout = 900 * time.Millisecond
		if v.Serial {
			sp.Timeout = 400 * time.Millisecond
		}
		if v.Proto == "sack" {
			sp.Port = uint16(22000 + c.Worker)
		}
		if v.Proto == "syn" {
			sp.Port = 443
		}
		specs = append(specs, sp)
	}
	env, err := newMultiEnv(c, specs)
	if err != nil {
		c.Inconclusive(err.Error())
		return
	}
	defer env.close()
	defer env.closePeers()
	env.modelFor = func(kf int, e *simEnv) *pathModel {
		dist := int(e.spec.MinTTL) + 1 + (kf % 4)
		reach := kf%5 != 4
		return flowPath(kf, e, dist, reach, time.Duration(2+kf*3)*time.Millisecond)
	}
	results := make([]drive.Result, k)
	var wg sync.WaitGroup
	for i := range specs {
		wg.Add(1)
		i := i
		go func() {
			defer wg.Done()
			time.Sleep(time.Duration(i) * stagger)
			results[i] = drive.Run(specs[i])
		}()
	}
	wg.Wait()
	tag := fmt.Sprintf("%s K=%d mix=%s sameTarget=%v stagger=%v", id, k, mix, sameTarget, stagger)
	doc := &result.Results{}
	answered := 0
	for i, res := range results {
		if res.Err != nil {
			c.Violate("C11", "run-failed/"+specs[i].V.Name, fmt.Sprintf("%s: run %d (%s) failed next to the others: %v", tag, i, specs[i].V.Name, res.Err), nil)
			continue
		}
		doc.Traceroute.Runs = append(doc.Traceroute.Runs, *res.Run)
		for _, h := range res.Run.Hops {
			if len(h.IPAddress) > 0 {
				answered++
				break
			}
		}
	}
	env.judgeRuns(doc, tag)
	checkWireIdentifiers(c, env, tag)
	if lc := env.w.Lifecycle(); len(lc) > 0 {
		c.Violate("C10", "lifecycle/multi", fmt.Sprintf("%s: %v", tag, lc), nil)
	}
	if answered >= 2 {
		c.Nontrivial(fmt.Sprintf("multi/K%d/%s/same%v/stagger%v", k, mix, sameTarget, stagger))
	}
	c.Count("concurrent_runs", k)
	c.Sample(map[string]any{"case": tag, "runs": len(doc.Traceroute.Runs), "first_run": fmtHops(&doc.Traceroute.Runs[0])})
}

// runC11ForeignBurst: one short run that listens for its whole timeout (its path never reaches the target) next to
// six or seven long runs of the same protocol to the same target whose answers all arrive, back to back, while the
// short run is still listening: dozens of well-formed replies that belong to other runs in a row, none of its own in
// between. Each run must still succeed and report exactly its own flow.
func runC11ForeignBurst(c *fw.Ctx, id string, i int) {
	c11Mu.RLock()
	defer c11Mu.RUnlock()
	r := c.Rng
	vn := []string{"icmp4", "sackR", "icmp6", "udp4"}[i%4]
	v := refmatch.VariantByName(vn)
	k := 7 + r.Intn(2)
	longLast := 7 + r.Intn(3)
	var specs []drive.Spec
	for j := 0; j < k; j++ {
		first, last := 1, longLast
		if j == 0 {
			first, last = 2, 3 // a handle is told apart by the TTL of its first probe
		}
		sp := defaultSpec(v, c.Worker*8, first, last)
		sp.Timeout = 900 * time.Millisecond
		if v.Proto == "sack" {
			sp.Port = uint16(22000 + c.Worker)
		}
		specs = append(specs, sp)
	}
	env, err := newMultiEnv(c, specs)
	if err != nil {
		c.Inconclusive(err.Error())
		return
	}
	defer env.close()
	defer env.closePeers()
	env.modelFor = func(kf int, e *simEnv) *pathModel {
		if int(e.spec.MinTTL) == 2 {
			return flowPath(kf, e, 12, false, 2*time.Millisecond)
		}
		return flowPath(kf, e, int(e.spec.MaxTTL), true, time.Duration(40+kf*4)*time.Millisecond)
	}
	results := make([]drive.Result, k)
	var wg sync.WaitGroup
	for j := range specs {
		wg.Add(1)
		j := j
		go func() {
			defer wg.Done()
			results[j] = drive.Run(specs[j])
		}()
	}
	wg.Wait()
	tag := fmt.Sprintf("%s %s K=%d long=1..%d", id, vn, k, longLast)
	doc := &result.Results{}
	answered := 0
	for j, res := range results {
		if res.Err != nil {
			c.Violate("C11", "run-failed/"+vn, fmt.Sprintf("%s: run %d (TTL %d..%d) failed next to the others: %v", tag, j, specs[j].MinTTL, specs[j].MaxTTL, res.Err), nil)
			continue
		}
		doc.Traceroute.Runs = append(doc.Traceroute.Runs, *res.Run)
		for _, h := range res.Run.Hops {
			if len(h.IPAddress) > 0 {
				answered++
				break
			}
		}
	}
	env.judgeRuns(doc, tag)
	checkWireIdentifiers(c, env, tag)
	if answered == k {
		c.Nontrivial("foreign-reply-burst/" + vn)
	}
	c.Count("concurrent_runs", k)
	c.Count("foreign_replies_in_a_row", (k-1)*longLast)
	if len(doc.Traceroute.Runs) > 0 {
		c.Sample(map[string]any{"case": tag, "runs": len(doc.Traceroute.Runs), "first_run": fmtHops(&doc.Traceroute.Runs[0])})
	}
}

// runC11Blocks: TCP SYN runs with different first TTLs (full windows, windows starting above 1, single-probe
// runs) started in an interleaved order: the IP-IDs each run puts on the wire must stay inside what it reserved,
// i.e. be pairwise disjoint between the live runs.
func runC11Blocks(c *fw.Ctx, id string, i int) {
	c11Mu.RLock()
	defer c11Mu.RUnlock()
	if i%2 == 1 {
		packets.VerifSetPacketIDBase(0xffff - uint32(3*i))
	}
	v := refmatch.VariantByName("syn")
	shapes := [][2]int{{6, 6}, {1, 6}, {6, 6}, {1, 6}, {3, 8}, {8, 8}, {2, 5}, {1, 8}}
	var specs []drive.Spec
	for k := 0; k < 4+i%4; k++ {
		sh := shapes[(k+i)%len(shapes)]
		sp := defaultSpec(v, c.Worker*8+k, sh[0], sh[1]) // distinct targets: binding by target is unambiguous
		sp.Timeout = 300 * time.Millisecond
		specs = append(specs, sp)
	}
	env, err := newMultiEnv(c, specs)
	if err != nil {
		c.Inconclusive(err.Error())
		return
	}
	defer env.close()
	env.modelFor = func(kf int, e *simEnv) *pathModel { return flowPath(kf, e, 0, false, 5*time.Millisecond) }
	var wg sync.WaitGroup
	for k := range specs {
		wg.Add(1)
		k := k
		go func() {
			defer wg.Done()
			time.Sleep(time.Duration(k) * 2 * time.Millisecond)
			drive.Run(specs[k])
		}()
	}
	wg.Wait()
	checkWireIdentifiers(c, env, id)
	c.Nontrivial(fmt.Sprintf("ipid-blocks/%d", i))
	c.Count("concurrent_runs", len(specs))
}

func runC11Request(c *fw.Ctx, id string, i int) {
	c11Mu.RLock()
	defer c11Mu.RUnlock()
	proto := []string{"udp", "icmp", "tcp"}[i%3]
	method := []traceroute.TCPMethod{traceroute.TCPConfigSYN, traceroute.TCPConfigSACK, traceroute.TCPConfigPreferSACK}[(i/3)%3]
	v := map[string]refmatch.Variant{"udp": refmatch.VariantByName("udp4"), "icmp": refmatch.VariantByName("icmp4"), "tcp": refmatch.VariantByName("syn")}[proto]
	target := drive.TargetFor(v, c.Worker*8+1)
	port := 23000 + c.Worker
	if i%2 == 0 {
		icmp.VerifSetEchoIDBase(0xfffd)
		packets.VerifSetPacketIDBase(0xfffa)
	}
	params := traceroute.TracerouteParams{Hostname: target.String(), Port: port, Protocol: proto, MinTTL: 1, MaxTTL: 6, Delay: 20, Timeout: 700 * time.Millisecond,
		TCPMethod: method, TracerouteQueries: 3, E2eQueries: 2 + i%4}
	if i >= 1000 {
		// the command line's default shape: 3 path runs + 50 end-to-end probes, 30 TTLs each; 53 ranges of 30 identifiers
		// out of 65536 live at once
		proto, method = "tcp", traceroute.TCPConfigSYN
		params.Protocol, params.TCPMethod, params.MaxTTL, params.E2eQueries = proto, method, 30, 50
		if i%2 == 1 {
			params.E2eQueries = 20
		}
	}
	env, err := newReqEnv(c, params, target, uint16(port), proto == "tcp" && method != traceroute.TCPConfigSYN)
	if err != nil {
		c.Inconclusive(err.Error())
		return
	}
	defer env.close()
	if proto == "tcp" {
		// every flow generates and installs its own capture filter while the others do the same (the race detector
		// watches the generators; an installed program that is later changed under its owner hides that owner's replies)
		env.w.Mode = simnet.FilterEnforce
	}
	env.modelFor = func(k int, e *simEnv) *pathModel {
		return flowPath(k, e, 4, true, time.Duration(2+k*2)*time.Millisecond)
	}
	out, rerr := env.run(context.Background())
	tag := fmt.Sprintf("%s proto=%s method=%s e2e=%d", id, proto, method, params.E2eQueries)
	if rerr != nil {
		c.Violate("C11", "request-failed/"+proto, fmt.Sprintf("%s: %v", tag, rerr), nil)
		return
	}
	env.judgeRuns(out, tag)
	checkWireIdentifiers(c, env, tag)
	c.Nontrivial(fmt.Sprintf("request/%s/%s/e%d", proto, method, params.E2eQueries))
	c.Count("concurrent_runs", len(env.flowList()))
}

type liveRange struct {
	start uint16
	n     uint16
	owner int
	// idx0 / idx1: a process-wide counter read just before and just after the allocator call. The call took effect
	// somewhere in between; a goroutine that was descheduled around the call has a wide interval.
	idx0, idx1 int64
}

// allocWindow: two blocks are compared only when fewer than 65536 identifiers can have been handed out
// between them (at most 240 allocations of at most 255 identifiers, in-flight callers included); beyond that a
// 16-bit allocator must reuse values. The number of allocations between two calls is bounded by the counter
// interval spanning both plus the G callers that may have drawn the counter earlier and allocated later.
const allocWindow = 240

func allocSpan(a, b liveRange, g int) int64 {
	lo, hi := min(a.idx0, b.idx0), max(a.idx1, b.idx1)
	return hi - lo + int64(g)
}

func rangesOverlap(a, b liveRange) bool {
	// ids used by a run: start+1 .. start+n (the TCP driver emits base+ttl), modulo 65536
	for i := uint16(1); i <= a.n; i++ {
		id := a.start + i
		d := id - (b.start + 1)
		if d < b.n {
			return true
		}
	}
	return false
}

func runC11AllocIPID(c *fw.Ctx, id string, base uint32, total int) {
	c11Mu.Lock()
	defer c11Mu.Unlock()
	packets.VerifSetPacketIDBase(base)
	const G = 16
	var mu sync.Mutex
	live := map[int]liveRange{}
	next := 0
	var viol atomic.Int64
	var seq atomic.Int64
	var wg sync.WaitGroup
	per := total / G
	for g := 0; g < G; g++ {
		wg.Add(1)
		g := g
		go func() {
			defer wg.Done()
			r := rand.New(rand.NewSource(int64(g)*977 + int64(base)))
			var held []int
			for i := 0; i < per; i++ {
				n := uint8([]int{1, 2, 30, 64, 255, 255, 7}[r.Intn(7)])
				idx0 := seq.Add(1)
				start := packets.AllocPacketID(n)
				idx1 := seq.Load()
				nr := liveRange{start: start, n: uint16(n), owner: g, idx0: idx0, idx1: idx1}
				mu.Lock()
				for k, o := range live {
					if idx0-o.idx1 > 4*allocWindow {
						delete(live, k)
						continue
					}
					if allocSpan(nr, o, G) > allocWindow {
						continue // too far apart (or one of the two callers was descheduled around its call): reuse is legitimate
					}
					if rangesOverlap(nr, o) && viol.Add(1) == 1 {
						c.Violate("C11", "alloc-overlap/ip-id", fmt.Sprintf("%s: block (%d,+%d] handed to caller %d overlaps live block (%d,+%d] of caller %d (at most %d allocations apart)", id, nr.start, nr.n, g, o.start, o.n, o.owner, allocSpan(nr, o, G)), nil)
					}
				}
				k := next
				next++
				live[k] = nr
				held = append(held, k)
				if len(held) > 3 {
					delete(live, held[0])
					held = held[1:]
				}
				mu.Unlock()
			}
			mu.Lock()
			for _, k := range held {
				delete(live, k)
			}
			mu.Unlock()
		}()
	}
	wg.Wait()
	c.Count("ipid_allocations", per*G)
	c.Nontrivial(fmt.Sprintf("alloc/ipid/%#x", base))
	c.Sample(map[string]any{"case": id, "allocations": per * G, "live_blocks_max": G * 4, "overlaps": viol.Load()})
}

func runC11AllocEcho(c *fw.Ctx, id string, base uint32, total int) {
	c11Mu.Lock()
	defer c11Mu.Unlock()
	icmp.VerifSetEchoIDBase(base)
	const G = 16
	var mu sync.Mutex
	live := map[uint16]int{}
	liveIdx := map[uint16]int64{}
	var seq atomic.Int64
	var viol atomic.Int64
	var wg sync.WaitGroup
	per := total / G
	for g := 0; g < G; g++ {
		wg.Add(1)
		g := g
		go func() {
			defer wg.Done()
			var held []uint16
			for i := 0; i < per; i++ {
				idx := seq.Add(1)
				e := icmp.VerifNextEchoID()
				idx1 := seq.Load()
				mu.Lock()
				// an id may legitimately recur once 65536 identifiers were drawn since it was handed out; the number of
				// draws between the two calls is at most (counter after this call) - (counter before that call) + G
				if o, dup := live[e]; dup && idx1-liveIdx[e]+G < 60000 && viol.Add(1) == 1 {
					c.Violate("C11", "alloc-overlap/echo-id", fmt.Sprintf("%s: echo id %d handed to caller %d while still live at caller %d", id, e, g, o), nil)
				}
				live[e] = g
				liveIdx[e] = idx
				held = append(held, e)
				if len(held) > 8 {
					delete(live, held[0])
					held = held[1:]
				}
				mu.Unlock()
			}
			mu.Lock()
			for _, e := range held {
				delete(live, e)
			}
			mu.Unlock()
		}()
	}
	wg.Wait()
	c.Count("echoid_allocations", per*G)
	c.Nontrivial(fmt.Sprintf("alloc/echoid/%#x", base))
}
