package checks

import (
	stdlog "log"

	"encoding/binary"
	"fmt"
	ddlog "github.com/DataDog/datadog-traceroute/log"
	"math/rand"
	"net/netip"
	"path/filepath"
	"time"

	"github.com/DataDog/datadog-traceroute/packets"

	"verif/harness/drive"
	"verif/harness/fw"
	"verif/harness/gen"
	"verif/harness/refmatch"
	"verif/harness/simnet"
	"verif/harness/wirefmt"
)

func init() { register("C09", checkC09) }

// seedFrames builds the genuine reply forms for probe p (seeds of truncation/mutation).
func seedFrames(e *simEnv, p *refmatch.Probe) [][]byte {
	v := e.spec.V
	var out [][]byte
	router := routerAddr(v.V6, 1, p.TTL)
	for _, fm := range catalogue() {
		if !fm.applies(v) {
			continue
		}
		if fm.hop != nil {
			out = append(out, fm.hop(e, p, router))
		}
		if fm.dest != nil {
			out = append(out, fm.dest(e, p))
		}
	}
	out = append(out, e.destReply(p))
	out = append(out, append([]byte(nil), p.Raw...))
	return out
}

// mutate applies one structure-aware mutation to a copy of b.
func mutate(r *rand.Rand, b []byte) ([]byte, string) {
	m := append([]byte(nil), b...)
	if len(m) == 0 {
		return m, "empty"
	}
	v6 := m[0]>>4 == 6
	hl := 20
	if v6 {
		hl = 40
	}
	switch r.Intn(16) {
	case 0:
		i := r.Intn(len(m))
		m[i] ^= 1 << uint(r.Intn(8))
		return m, "bitflip"
	case 1:
		i := r.Intn(len(m))
		m[i] = []byte{0, 0xff, 0x80, 0x7f}[r.Intn(4)]
		return m, "byteset"
	case 2:
		m[0] = m[0]&0xf0 | byte(r.Intn(16))
		return m, "ihl"
	case 3:
		m[0] = m[0]&0x0f | byte(r.Intn(16))<<4
		return m, "version"
	case 4:
		if !v6 && len(m) >= 4 {
			binary.BigEndian.PutUint16(m[2:], uint16([]int{0, 1, 19, 20, len(m) - 1, len(m) + 1, 0xffff, r.Intn(65536)}[r.Intn(8)]))
			return m, "totallen"
		}
		if v6 && len(m) >= 6 {
			binary.BigEndian.PutUint16(m[4:], uint16([]int{0, 1, 7, len(m) - 41, len(m) - 39, 0xffff, r.Intn(65536)}[r.Intn(7)]))
			return m, "payloadlen"
		}
	case 5:
		protos := []byte{0, 1, 2, 4, 6, 17, 41, 43, 44, 47, 50, 51, 58, 59, 60, 132, 255}
		if !v6 && len(m) > 9 {
			m[9] = protos[r.Intn(len(protos))]
		} else if v6 && len(m) > 6 {
			m[6] = protos[r.Intn(len(protos))]
		}
		return m, "proto"
	case 6:
		if len(m) > hl+12 {
			m[hl+12] = byte(r.Intn(16))<<4 | m[hl+12]&0xf
			return m, "tcp-dataoff-or-l4byte12"
		}
	case 7:
		// option length bytes / rfc4884 length byte / inner header bytes
		if len(m) > hl+8 {
			i := hl + r.Intn(min(len(m)-hl, 48))
			m[i] = []byte{0, 1, 2, 255, 64, 5, 6}[r.Intn(7)]
			return m, "l4-structural"
		}
	case 8:
		// oversize: beyond the 1024-byte read buffer (the kernel would deliver it truncated)
		m = append(m, make([]byte, 1100+r.Intn(900))...)
		for i := len(b); i < len(m); i++ {
			m[i] = byte(r.Intn(256))
		}
		return m, "oversize"
	case 9:
		if !v6 && len(m) >= 8 {
			binary.BigEndian.PutUint16(m[6:], uint16([]int{0x2000, 0x0001, 0x1fff, 0x3fff, 0x4000 | 7}[r.Intn(5)]))
			return m, "fragment"
		}
	case 10:
		// ipv6 extension header chain in front of the payload
		if v6 && len(m) > 40 {
			ext := []byte{m[6], 0, 0, 0, 0, 0, 0, 0}
			m[6] = []byte{0, 43, 44, 60}[r.Intn(4)]
			m2 := append(append(append([]byte(nil), m[:40]...), ext...), m[40:]...)
			binary.BigEndian.PutUint16(m2[4:], uint16(len(m2)-40))
			return m2, "v6-ext-chain"
		}
	case 11:
		n := r.Intn(len(m) + 1)
		return m[:n], "truncate"
	case 12:
		// garbage payload behind valid headers
		for i := hl; i < len(m); i++ {
			m[i] = byte(r.Intn(256))
		}
		return m, "garbage-payload"
	case 13:
		// several byte edits
		for k := 0; k < 1+r.Intn(6); k++ {
			m[r.Intn(len(m))] = byte(r.Intn(256))
		}
		return m, "multi-byte"
	case 14:
		// zero a window
		i := r.Intn(len(m))
		for j := i; j < len(m) && j < i+8; j++ {
			m[j] = 0
		}
		return m, "zero-window"
	}
	n := r.Intn(2049)
	rb := make([]byte, n)
	r.Read(rb)
	if n > 0 && r.Intn(2) == 0 {
		rb[0] = []byte{0x45, 0x46, 0x4f, 0x60}[r.Intn(4)]
	}
	return rb, "random-bytes"
}

type c09Workload struct {
	name string
	// frames returns the noise frames to inject around probe p
	frames func(e *simEnv, p *refmatch.Probe, r *rand.Rand) [][]byte
}

func c09Workloads(perProbe int) []c09Workload {
	return []c09Workload{
		{"truncation", func(e *simEnv, p *refmatch.Probe, r *rand.Rand) [][]byte {
			// every prefix length of every genuine reply form of this probe
			var out [][]byte
			for _, s := range seedFrames(e, p) {
				for n := 0; n < len(s); n++ {
					out = append(out, s[:n])
				}
			}
			return out
		}},
		{"truncation-fixlen", func(e *simEnv, p *refmatch.Probe, r *rand.Rand) [][]byte {
			// every prefix length with the outer length field (IPv4 total length + header checksum / IPv6 payload
			// length) rewritten to match: short but self-consistent packets, e.g. an echo reply or a quote cut
			// inside the identifying bytes
			var out [][]byte
			for _, s := range seedFrames(e, p) {
				for n := 1; n < len(s); n++ {
					m := append([]byte(nil), s[:n]...)
					if m[0]>>4 == 4 && n >= 20 {
						binary.BigEndian.PutUint16(m[2:], uint16(n))
						gen.FixIPv4Checksum(m, "fix")
					} else if m[0]>>4 == 6 && n >= 40 {
						binary.BigEndian.PutUint16(m[4:], uint16(n-40))
					}
					out = append(out, m)
				}
			}
			return out
		}},
		{"mutation", func(e *simEnv, p *refmatch.Probe, r *rand.Rand) [][]byte {
			seeds := seedFrames(e, p)
			var out [][]byte
			for i := 0; i < perProbe; i++ {
				m, _ := mutate(r, seeds[r.Intn(len(seeds))])
				if r.Intn(4) == 0 {
					m, _ = mutate(r, m)
				}
				out = append(out, m)
			}
			return out
		}},
		{"near-miss", func(e *simEnv, p *refmatch.Probe, r *rand.Rand) [][]byte {
			// well-formed frames that are almost a reply on the probed flow: direct TCP segments with and
			// without SACK blocks / with various flags where exactly one of (address, source port,
			// destination port) is wrong; ICMP errors of other types quoting the probe
			var out [][]byte
			v := e.spec.V
			if !v.V6 {
				tgt, other := e.spec.Target, uniqueAddr(false, 4242)
				blk := append([]byte{1, 1}, wirefmt.OptSack([][2]uint32{{e.isn + uint32(p.TTL), e.isn + uint32(p.TTL) + 1}})...)
				for _, flags := range []uint8{wirefmt.TCPAck, wirefmt.TCPAck | wirefmt.TCPPsh, wirefmt.TCPSyn | wirefmt.TCPAck, wirefmt.TCPRst, wirefmt.TCPRst | wirefmt.TCPAck, wirefmt.TCPFin | wirefmt.TCPAck} {
					for _, opts := range [][]byte{nil, blk, wirefmt.OptTS(1, 2)} {
						out = append(out,
							gen.TCPReply(other, e.local, e.spec.Port, e.lport, 5, p.Seq+1, flags, opts, nil, nil),
							gen.TCPReply(tgt, e.local, e.spec.Port+1, e.lport, 5, p.Seq+1, flags, opts, nil, nil),
							gen.TCPReply(tgt, e.local, e.spec.Port, e.lport+1, 5, p.Seq+1, flags, opts, nil, nil),
							gen.TCPReply(tgt, e.local, e.lport, e.spec.Port, 5, p.Seq+1, flags, opts, nil, nil),
							gen.TCPReply(tgt, other, e.spec.Port, e.lport, 5, p.Seq+1, flags, opts, nil, nil))
					}
				}
			}
			if !v.V6 && (v.Proto == "sack" || v.Proto == "syn") {
				// cross-family: IPv6 datagrams whose addresses are the IPv4-mapped spellings (::ffff:a.b.c.d) of the
				// probed connection's addresses, carrying what would be a reply on it: an ACK without SACK blocks (on a
				// SACK run that would end the run), an ACK with a block for this TTL, a SYN-ACK and an RST for this probe
				m := func(a netip.Addr) netip.Addr { return netip.AddrFrom16(a.As16()) }
				src6, dst6 := m(e.spec.Target), m(e.local)
				blk := append([]byte{1, 1}, wirefmt.OptSack([][2]uint32{{e.isn + uint32(p.TTL), e.isn + uint32(p.TTL) + 1}})...)
				for _, sg := range []wirefmt.TCP{
					{Flags: wirefmt.TCPAck, Ack: e.isn},
					{Flags: wirefmt.TCPAck, Ack: e.isn, Options: blk},
					{Flags: wirefmt.TCPSyn | wirefmt.TCPAck, Ack: p.Seq + 1},
					{Flags: wirefmt.TCPRst | wirefmt.TCPAck, Ack: p.Seq + 1},
					{Flags: wirefmt.TCPRst},
				} {
					sg.SrcPort, sg.DstPort, sg.Seq, sg.Window = e.spec.Port, e.lport, 0x51000001, 1024
					out = append(out, wirefmt.IPv6{NextHeader: wirefmt.ProtoTCP, HopLimit: 60, Src: src6, Dst: dst6}.Marshal(sg.Marshal(src6, dst6)))
				}
			}
			q := gen.QuoteBytes(p, 1, "fix")
			from := routerAddr(v.V6, 1, p.TTL)
			for _, typ := range []uint8{4, 5, 12, 13, 2} {
				var rest [4]byte
				if v.V6 {
					out = append(out, wirefmt.IPv6{NextHeader: wirefmt.ProtoICMPv6, HopLimit: 9, Src: from, Dst: e.local}.Marshal(wirefmt.ICMPv6(from, e.local, typ, 0, rest, q)))
				} else {
					out = append(out, wirefmt.IPv4{TTL: 9, Proto: wirefmt.ProtoICMP, Src: from, Dst: e.local}.Marshal(wirefmt.ICMPv4(typ, 0, rest, q)))
				}
			}
			return out
		}},
		{"tcp-options", func(e *simEnv, p *refmatch.Probe, r *rand.Rand) [][]byte {
			// segments ON the probed connection (right addresses and ports, so they get as far as option parsing) whose
			// TCP options are hostile: SACK options whose data is not a whole number of 8-byte blocks (0..17 and
			// 8k+1..8k+7 bytes), several SACK options, timestamp options of every length, unknown kinds, length bytes
			// 0/1/beyond the header. Each comes (a) behind a well-formed SACK block whose left edge lies far outside the
			// TTL window - the frame can then never be a reply, whatever the parser makes of the rest - and (b) alone.
			v := e.spec.V
			if v.V6 || (v.Proto != "sack" && v.Proto != "syn") {
				return nil
			}
			var hostile [][]byte
			for n := 0; n <= 35; n++ { // SACK option with n data bytes
				o := make([]byte, 2+n)
				o[0], o[1] = 5, byte(2+n)
				for i := 2; i < len(o); i++ {
					o[i] = byte(r.Intn(256))
				}
				if n >= 4 && r.Intn(2) == 0 {
					binary.BigEndian.PutUint32(o[2:], e.isn+uint32(p.TTL)+700) // first edge outside the window too
				}
				hostile = append(hostile, o)
			}
			for l := 0; l <= 12; l++ { // timestamp option with every length byte
				o := make([]byte, 12)
				o[0], o[1] = 8, byte(l)
				hostile = append(hostile, o[:max(2, min(l, 12))])
			}
			for _, k := range []byte{2, 3, 4, 5, 8, 30, 34, 253, 254} {
				for _, l := range []byte{0, 1, 2, 3, 39, 255} {
					hostile = append(hostile, []byte{k, l, 0xaa, 0xbb})
				}
			}
			anchor := wirefmt.OptSack([][2]uint32{{e.isn + 600, e.isn + 601}})
			flags := uint8(wirefmt.TCPAck)
			var out [][]byte
			mk := func(lead, h []byte) []byte {
				opts := append(append([]byte(nil), lead...), h...)
				if len(opts) > 40 {
					opts = opts[:40]
				}
				return gen.TCPReply(e.spec.Target, e.local, e.spec.Port, e.lport, 5, p.Seq+1, flags, opts, nil, nil)
			}
			for _, h := range hostile {
				out = append(out, mk(anchor, h))
			}
			// (b) alone: on a SACK run the first such segment without a whole block legitimately ends the run (the
			// one allowed exception), so only a few, chosen by the case's PRNG, and last
			for k := 0; k < 3; k++ {
				out = append(out, mk([]byte{1, 1}, hostile[r.Intn(len(hostile))]))
			}
			return out
		}},
		{"random", func(e *simEnv, p *refmatch.Probe, r *rand.Rand) [][]byte {
			var out [][]byte
			for i := 0; i < perProbe; i++ {
				n := r.Intn(2049)
				if r.Intn(3) == 0 {
					n = r.Intn(64)
				}
				b := make([]byte, n)
				r.Read(b)
				if n > 0 && r.Intn(2) == 0 {
					b[0] = []byte{0x45, 0x46, 0x4f, 0x60, 0x40, 0x65}[r.Intn(6)]
				}
				out = append(out, b)
			}
			return out
		}},
	}
}

func hopsKey(res drive.Result) string { return fmt.Sprint(fmtRun(res)) }

// nullWriter swallows log output without being io.Discard (for which the log package skips the formatting work): with
// trace logging on, every log statement of the code under test really evaluates its arguments and closures.
type nullWriter struct{}

func (nullWriter) Write(b []byte) (int, error) { return len(b), nil }

func checkC09() fw.Check {
	// the whole check runs at the most verbose log level (the CLI's -v): diagnostics code is code, and it sees the
	// hostile bytes first
	stdlog.SetOutput(nullWriter{})
	ddlog.SetLogLevel(ddlog.LevelTrace)
	return fw.Check{
		Prop:  "C09",
		Level: "exploration",
		Rule: "one case = (variant, workload in {every truncation length of every genuine reply form, segments on the probed connection with hostile TCP options (SACK options that are not whole blocks, timestamp options of every length, unknown kinds, lying length bytes), structure-aware mutation (bit/byte flips, IHL/version nibbles, total/payload length lies, protocol sweep, TCP data offset, option/RFC4884 length bytes, fragments, IPv6 extension chains, oversize frames, garbage payloads), random byte strings 0..2048}, window, chunk): the frames are injected before the first send, around every probe, during the SACK handshake and after the destination answered; oracle = the run must not abort or crash, every hop must stay justified by the reference matcher, and when the reference matcher classifies every injected frame as non-matching the result must equal the noise-free twin run exactly (addresses, destination flag, RTT). " +
			"Real-kernel stage: the CLI binary built from the working tree (no verif tag) traces a chain of Linux kernel routers through the AF_PACKET source while a neighbouring namespace floods the source host with ICMP echo requests larger than the tool's 1024-byte read buffer, fragmented datagrams, ICMP errors quoting garbage, buffer-sized unsolicited echo replies and datagrams to closed ports; the chain must equal the undisturbed one (3 of up to 5 runs for a verdict). " +
			"distinct_nontrivial counts distinct (variant, workload, ref-kind) with injected frames read by the tool; counters give frames injected/read and twin-equal runs",
		Workers:       16,
		MinNontrivial: 30,
		Assumptions:   []string{"trace-level logging is switched on for the whole check (output discarded after formatting)", "refmatch decides which injected frames are legitimate replies (matching mutants only get crash/abort freedom and per-hop soundness)", "frames larger than the tool's 1024-byte buffer are delivered truncated, as the kernel does", "Linux build"},
		Gen: func(tier string, seed int64) []fw.Case {
			wins := []window{{1, 6}, {250, 255}}
			perProbe, chunks := 800, 3
			if tier == "thorough" {
				wins = append([]window{{1, 6}, {250, 255}, {3, 12}, {1, 3}}, thoroughWindows(seed, 4)[len(windowsThorough):]...)
				perProbe, chunks = 2500, 160
			}
			var cases []fw.Case
			for _, v := range refmatch.Variants {
				for _, wl := range c09Workloads(perProbe) {
					for _, w := range wins {
						nch := chunks
						if wl.name == "truncation" || wl.name == "truncation-fixlen" || wl.name == "near-miss" {
							nch = 1
						}
						for ch := 0; ch < nch; ch++ {
							v, wl, w, ch := v, wl, w, ch
							id := fmt.Sprintf("C09/%s/%s/%d-%d/chunk%d", v.Name, wl.name, w.first, w.last, ch)
							cases = append(cases, fw.Case{ID: id, Bubble: true, Run: func(c *fw.Ctx) { runC09Case(c, id, v, wl, w) }})
						}
					}
				}
			}
			// regression corpus of the coverage-guided target (/verif/corpus/FuzzC09: seeds and inputs the fuzzer found interesting)
			cases = append(cases, fw.Case{ID: "C09/fuzz-corpus", Run: func(c *fw.Ctx) {
				sels, datas, names := loadFuzzCorpus(filepath.Join(*fw.FlagVerif, "corpus", "FuzzC09"))
				for i := range sels {
					for _, v := range fuzzOne(c.T, sels[i], datas[i]) {
						c.Violate(v.Property, v.Sig+"/corpus", fmt.Sprintf("corpus entry %s: %s", names[i], v.Msg), map[string]any{"selector": sels[i], "input": fmt.Sprintf("%x", datas[i])})
					}
					c.Count("fuzz_corpus_entries", 1)
				}
				if len(sels) > 0 {
					c.Nontrivial("fuzz-corpus")
				}
			}})
			// the real capture socket under a flood of hostile frames (kernel_stage_test.go)
			return withKernelStage("C09", tier, cases)
		},
	}
}

func runC09Case(c *fw.Ctx, id string, v refmatch.Variant, wl c09Workload, w window) {
	dist := w.first + 3
	var results [2]drive.Result
	var nonReject int
	var lportSeen uint16
	for twin := 0; twin < 2; twin++ {
		noisy := twin == 0
		r := rand.New(rand.NewSource(int64(fw.Hash32(id)) + c.Seed*7919))
		injected := 0
		sc := scenario{tag: fmt.Sprintf("%s noisy=%v", id, noisy), v: v, win: w, b: basesQuick[0],
			model: func(e *simEnv) *pathModel {
				m := simplePathWin(v, w, dist, true, 11*time.Millisecond)
				if !noisy {
					return m
				}
				// phase: before the first send / during the SACK handshake
				prev := e.w.OnFilter
				e.w.OnFilter = func(h *simnet.Handle, spec packets.PacketFilterSpec) {
					if prev != nil {
						prev(h, spec)
					}
					for i := 0; i < 40; i++ {
						b := make([]byte, 1+r.Intn(80))
						r.Read(b)
						if len(b) > 0 {
							b[0] = []byte{0x45, 0x60, 0x4f, 0x00}[r.Intn(4)]
						}
						e.inject(b, "noise:pre-send", nil, 0)
						injected++
					}
					if spec.FilterType == packets.FilterTypeSYNACK {
						// mutated handshake segments that are not on the probed connection (wrong port)
						for i := 0; i < 20; i++ {
							// (ports below the kernel's range for local ports, 32768..60999: not the one this connection gets)
							sa := e.peer.SynAckBytes(drive.Local4, uint16(1024+r.Intn(31000)))
							mm, _ := mutate(r, sa)
							if len(mm) == 0 {
								continue // a zero-length read is a capture-layer failure class (C10), not a packet
							}
							e.inject(mm, "noise:handshake", nil, 0)
							injected++
						}
						// well-formed SYN-ACKs of OTHER connections of the same target (the SYN-ACK filter lets every SYN-ACK
						// through) whose options are hostile: truncated or over-long timestamps, SACK-permitted / MSS with a
						// wrong length, length 0 and 1, no options at all. Nothing about them concerns the probed connection.
						for i, opts := range [][]byte{
							{8, 6, 1, 2, 3, 4, 1, 1}, {8, 2, 1, 1}, {8, 9, 1, 2, 3, 4, 5, 6, 7, 1, 1, 1}, {4, 3, 0, 1}, {2, 3, 5, 1},
							{8, 0, 1, 1}, {8, 1, 1, 1}, {4, 2, 8, 4, 1, 2}, nil, {1, 1, 1, 8}} {
							b := gen.TCPReply(e.spec.Target, drive.Local4, e.spec.Port, uint16(2000+i*7+r.Intn(5)), 0x51000000, uint32(r.Int63()), wirefmt.TCPSyn|wirefmt.TCPAck, opts, nil, nil)
							e.inject(b, "noise:handshake-foreign-options", nil, 0)
							injected++
						}
					}
				}
				m.extra = func(e *simEnv, p *refmatch.Probe) {
					fr := wl.frames(e, p, r)
					for i, b := range fr {
						if len(b) == 0 {
							continue // a zero-length read is a capture-layer failure class (C10), not a packet
						}
						// spread over the interval up to well after the destination answered
						d := time.Duration(100+13*i) * time.Microsecond
						if i%5 == 0 {
							d += 60 * time.Millisecond
						}
						e.inject(b, "noise:"+wl.name, p, oddUS(d))
						injected++
					}
				}
				return m
			}}
		out := runScenario(c, sc)
		if out == nil {
			return
		}
		results[twin] = out.res
		if noisy {
			kinds := map[string]int{}
			for i := range out.js {
				cl := out.js[i].d.Frame.Class
				if len(cl) > 6 && cl[:6] == "noise:" {
					k := out.js[i].out.Kind
					kinds[k.String()]++
					if k != refmatch.Reject {
						nonReject++
					}
				}
			}
			for k, n := range kinds {
				c.Count("noise_read_"+k, n)
				c.Nontrivial(fmt.Sprintf("%s/%s/%s", v.Name, wl.name, k))
			}
			c.Count("noise_injected", injected)
			lportSeen = out.flow.LocalPort
			c.Sample(map[string]any{"case": id, "injected": injected, "read_by_kind": kinds, "result": fmtRun(out.res)})
		}
		out.e.close()
	}
	_ = lportSeen
	if results[0].Err == nil && results[1].Err == nil && nonReject == 0 {
		if a, b := hopsKey(results[0]), hopsKey(results[1]); a != b {
			c.Violate("C09", "twin-differs/"+v.Name+"/"+wl.name, fmt.Sprintf("%s: result with %s noise differs from the noise-free twin although every injected frame is non-matching", id, wl.name),
				map[string]any{"noisy": fmtRun(results[0]), "twin": fmtRun(results[1])})
		} else {
			c.Count("twin_equal_runs", 1)
		}
	} else if nonReject > 0 {
		c.Count("runs_with_matching_mutants", 1)
	}
}

var _ = netip.Addr{}
var _ = gen.TimeExceeded
var _ = wirefmt.ProtoTCP
