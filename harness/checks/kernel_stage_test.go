package checks

import (
	"fmt"
	"os"
	"os/exec"
	"strconv"
	"strings"
	"sync"
	"sync/atomic"
	"time"

	"verif/harness/fw"
)

// Real-kernel stages of C09 and C10: the CLI binary built from the working tree (no verif tag) runs over the AF_PACKET
// source and the raw sink - the only code the simulated wire replaces - in a chain of kernel routers.
//   C10: the kernel refuses a send (iptables DROP in the OUTPUT chain makes sendto() fail with EPERM), either every
//        probe or only the probe with one TTL: the CLI must fail and its message must still name the cause.
//   C09: while the CLI traces, a neighbour floods the source host with frames the capture socket hands to the tool:
//        ICMP echo requests larger than the tool's 1024-byte read buffer, fragmented datagrams, ICMP errors quoting
//        nonsense, UDP to random ports: the chain must be the one reported without the flood.

type kernelCfg struct {
	prop  string
	name  string
	args  []string
	v6    bool
	rule  []string // iptables/ip6tables arguments appended after -A OUTPUT (C10)
	flood bool     // C09
	// sysctl (C10): set in the source host before the judged run; cause = the text the error must still contain
	sysctl string
	cause  string
}

func kernelConfigs(prop, tier string) []kernelCfg {
	var cfgs []kernelCfg
	if prop == "C10" {
		cfgs = []kernelCfg{
			{prop, "icmp-every-send", []string{"-P", "icmp"}, false, []string{"-p", "icmp", "--icmp-type", "echo-request", "-j", "DROP"}, false, "", ""},
			{prop, "udp-ttl3-send", []string{"-P", "udp"}, false, []string{"-p", "udp", "-m", "ttl", "--ttl-eq", "3", "-j", "DROP"}, false, "", ""},
			{prop, "tcp-syn-ttl2-send", []string{"-P", "tcp", "-p", "8080", "--tcp-method", "syn"}, false, []string{"-p", "tcp", "--dport", "8080", "-m", "ttl", "--ttl-eq", "2", "-j", "DROP"}, false, "", ""},
		}
		// the kernel refuses SO_ATTACH_FILTER on the capture socket (socket option memory exhausted): installing the
		// capture filter fails inside the real attach path
		cfgs = append(cfgs,
			kernelCfg{prop: prop, name: "udp-filter-attach-refused", args: []string{"-P", "udp"}, sysctl: "net.core.optmem_max=1", cause: "cannot allocate memory"},
			kernelCfg{prop: prop, name: "tcp-sack-filter-attach-refused", args: []string{"-P", "tcp", "-p", "8080", "--tcp-method", "sack"}, sysctl: "net.core.optmem_max=1", cause: "cannot allocate memory"})
		if tier == "thorough" {
			cfgs = append(cfgs,
				kernelCfg{prop, "icmp-ttl2-send", []string{"-P", "icmp"}, false, []string{"-p", "icmp", "-m", "ttl", "--ttl-eq", "2", "-j", "DROP"}, false, "", ""},
				kernelCfg{prop, "udp-every-send", []string{"-P", "udp"}, false, []string{"-p", "udp", "--dport", "33434", "-j", "DROP"}, false, "", ""},
				kernelCfg{prop, "udp6-hl3-send", []string{"-P", "udp"}, true, []string{"-p", "udp", "-m", "hl", "--hl-eq", "3", "-j", "DROP"}, false, "", ""},
				kernelCfg{prop, "icmp6-every-send", []string{"-P", "icmp"}, true, []string{"-p", "ipv6-icmp", "--icmpv6-type", "echo-request", "-j", "DROP"}, false, "", ""},
				kernelCfg{prop, "tcp-syn-every-send", []string{"-P", "tcp", "-p", "8080", "--tcp-method", "syn"}, false, []string{"-p", "tcp", "--dport", "8080", "-j", "DROP"}, false, "", ""},
				kernelCfg{prop, "udp-multi-ttl3-send", []string{"-P", "udp", "-q", "3", "-Q", "2"}, false, []string{"-p", "udp", "-m", "ttl", "--ttl-eq", "3", "-j", "DROP"}, false, "", ""},
			)
		}
		return cfgs
	}
	if prop == "C20" {
		// the method policy through the real command line against a kernel listener: the destination host counts the TCP
		// connections that were actually established (Tcp PassiveOpens). cause = "0": none may be; ">=1": the SACK
		// connection must be
		cfgs = []kernelCfg{
			{prop, "cli-syn-opens-no-connection", []string{"-P", "tcp", "-p", "8080", "--tcp-method", "syn", "-q", "2", "-Q", "3"}, false, nil, false, "", "0"},
			{prop, "cli-syn-verbose-opens-no-connection", []string{"-P", "tcp", "-p", "8080", "--tcp-method", "syn", "-v", "-q", "1", "-Q", "2"}, false, nil, false, "", "0"},
			{prop, "cli-sack-connects", []string{"-P", "tcp", "-p", "8080", "--tcp-method", "sack", "-q", "1", "-Q", "2"}, false, nil, false, "", ">=1"},
		}
		if tier == "thorough" {
			cfgs = append(cfgs,
				kernelCfg{prop, "cli-default-method-verbose", []string{"-P", "tcp", "-p", "8080", "-v", "-q", "1", "-Q", "1"}, false, nil, false, "", "0"},
				kernelCfg{prop, "cli-prefer-sack-connects", []string{"-P", "tcp", "-p", "8080", "--tcp-method", "prefer_sack", "-q", "1", "-Q", "2"}, false, nil, false, "", ">=1"},
				kernelCfg{prop, "cli-syn-e2e-only", []string{"-P", "tcp", "-p", "8080", "--tcp-method", "syn", "-q", "0", "-Q", "5"}, false, nil, false, "", "0"},
			)
		}
		return cfgs
	}
	if prop == "C14" {
		// the CLI built with the race detector, on real sockets: sender, receiver and the closing of the AF_PACKET source
		// and the raw sink run on the real scheduler, several runs and end-to-end probes per process
		cfgs = []kernelCfg{
			{prop, "race-cli-icmp", []string{"-P", "icmp", "-q", "4", "-Q", "3"}, false, nil, false, "", ""},
			{prop, "race-cli-udp", []string{"-P", "udp", "-q", "3", "-Q", "3"}, false, nil, false, "", ""},
			{prop, "race-cli-tcp-sack", []string{"-P", "tcp", "-p", "8080", "--tcp-method", "sack", "-q", "3", "-Q", "2"}, false, nil, false, "", ""},
			// every process start is a "first use": what is initialised lazily by the first run is initialised by three at once
			{prop, "race-cli-tcp-syn", []string{"-P", "tcp", "-p", "8080", "--tcp-method", "syn", "-q", "3", "-Q", "3"}, false, nil, false, "", ""},
			{prop, "race-cli-tcp-prefer-sack-closed", []string{"-P", "tcp", "-p", "8099", "--tcp-method", "prefer_sack", "-q", "3", "-Q", "2"}, false, nil, false, "", ""},
		}
		if tier == "thorough" {
			cfgs = append(cfgs,
				kernelCfg{prop, "race-cli-icmp6", []string{"-P", "icmp", "-q", "4", "-Q", "3"}, true, nil, false, "", ""},
				kernelCfg{prop, "race-cli-udp6", []string{"-P", "udp", "-q", "3", "-Q", "3"}, true, nil, false, "", ""},
			)
		}
		return cfgs
	}
	cfgs = []kernelCfg{
		{prop, "icmp-flood", []string{"-P", "icmp"}, false, nil, true, "", ""},
		{prop, "udp-flood", []string{"-P", "udp", "-v"}, false, nil, true, "", ""}, // -v: trace logging sees the flood too
		{prop, "tcp-sack-flood", []string{"-P", "tcp", "-p", "8080", "--tcp-method", "sack"}, false, nil, true, "", ""},
	}
	if tier == "thorough" {
		cfgs = append(cfgs,
			kernelCfg{prop, "tcp-syn-flood", []string{"-P", "tcp", "-p", "8080", "--tcp-method", "syn"}, false, nil, true, "", ""},
			kernelCfg{prop, "icmp6-flood", []string{"-P", "icmp"}, true, nil, true, "", ""},
			kernelCfg{prop, "udp6-flood", []string{"-P", "udp"}, true, nil, true, "", ""},
			kernelCfg{prop, "icmp-multi-flood", []string{"-P", "icmp", "-q", "3", "-Q", "2"}, false, nil, true, "", ""},
		)
	}
	return cfgs
}

type kernelOutcome struct {
	inconclusive string
	violations   [][3]string
	nontrivial   []string
	counters     map[string]int
	sample       map[string]any
}

var (
	kernelMu      sync.Mutex
	kernelResults = map[string]chan kernelOutcome{}
)

func kernelStart(prop, tier string) {
	kernelMu.Lock()
	defer kernelMu.Unlock()
	for j, g := range kernelConfigs(prop, tier) {
		key := prop + "/" + g.name
		if kernelResults[key] != nil {
			continue
		}
		ch := make(chan kernelOutcome, 1)
		kernelResults[key] = ch
		go func(j int, g kernelCfg) { ch <- runKernelCfg(fmt.Sprintf("k%s%d", strings.ToLower(prop[1:]), j), g) }(j, g)
	}
}

// withKernelStage appends the real-kernel stage to a check's simulated cases. The labs fork many child processes; a
// child between fork and exec briefly holds a copy of every descriptor of this process (a just-closed SACK listener
// stays bound for that moment, the open-descriptor count of C10's leak monitor moves), so the labs start only after
// every simulated case has finished, then run concurrently with each other.
func withKernelStage(prop, tier string, sim []fw.Case, late ...fw.Case) []fw.Case {
	if *fw.FlagCase != "" {
		_, kc := kernelCases(prop, tier, nil)
		return append(append(sim, late...), kc...)
	}
	// (an atomic counter, not a WaitGroup: most simulated cases run inside synctest bubbles)
	pending := &atomic.Int64{}
	pending.Store(int64(len(sim)))
	for i := range sim {
		orig := sim[i].Run
		sim[i].Run = func(c *fw.Ctx) {
			defer pending.Add(-1)
			orig(c)
		}
	}
	st, kc := kernelCases(prop, tier, pending)
	// late cases: other cases that start child processes; they, too, wait for the simulated cases
	for i := range late {
		orig := late[i].Run
		late[i].Run = func(c *fw.Ctx) {
			for pending.Load() > 0 {
				time.Sleep(5 * time.Millisecond)
			}
			orig(c)
		}
	}
	return append(append(append(sim, st), late...), kc...)
}

// kernelCases: a starter plus one collecting case per configuration.
func kernelCases(prop, tier string, pending *atomic.Int64) (fw.Case, []fw.Case) {
	starter := fw.Case{ID: prop + "/kernel-start", Run: func(c *fw.Ctx) {
		for pending != nil && pending.Load() > 0 {
			time.Sleep(5 * time.Millisecond)
		}
		kernelStart(prop, tier)
	}}
	var cases []fw.Case
	for _, cfg := range kernelConfigs(prop, tier) {
		cfg := cfg
		id := prop + "/kernel/" + cfg.name
		cases = append(cases, fw.Case{ID: id, Run: func(c *fw.Ctx) {
			key := prop + "/" + cfg.name
			kernelMu.Lock()
			ch := kernelResults[key]
			for ch == nil && pending != nil {
				// a full run: the starter (which waits for the simulated cases) launches the labs
				kernelMu.Unlock()
				time.Sleep(5 * time.Millisecond)
				kernelMu.Lock()
				ch = kernelResults[key]
			}
			if ch == nil {
				ch = make(chan kernelOutcome, 1)
				kernelResults[key] = ch
				go func() { ch <- runKernelCfg("krp"+cfg.name[:3], cfg) }()
			}
			kernelMu.Unlock()
			o := <-ch
			ch <- o
			for k, v := range o.counters {
				c.Count(k, v)
			}
			if o.inconclusive != "" {
				c.Inconclusive(id + ": " + o.inconclusive)
				return
			}
			for _, v := range o.violations {
				c.Violate(prop, v[0], id+": "+v[1], map[string]any{"output": v[2]})
			}
			for _, n := range o.nontrivial {
				c.Nontrivial(n)
			}
			if o.sample != nil {
				c.Sample(o.sample)
			}
		}})
	}
	return starter, cases
}

const floodScript = `
import socket, struct, sys, time, os, random
dst, v6 = sys.argv[1], sys.argv[2] == "6"
random.seed(7)
def csum(b):
    if len(b) % 2: b += b"\0"
    s = sum(struct.unpack("!%dH" % (len(b)//2), b))
    while s >> 16: s = (s & 0xffff) + (s >> 16)
    return (~s) & 0xffff
fam = socket.AF_INET6 if v6 else socket.AF_INET
icmp = socket.socket(fam, socket.SOCK_RAW, socket.IPPROTO_ICMPV6 if v6 else socket.IPPROTO_ICMP)
udp = socket.socket(fam, socket.SOCK_DGRAM)
# frames no IP stack would emit or deliver, put on the link below the IP layer: the source host's kernel discards them, its
# capture sockets see them first
pk, eth = None, b""
if len(sys.argv) > 6:
    pk = socket.socket(socket.AF_PACKET, socket.SOCK_RAW)
    pk.bind((sys.argv[4], 0))
    eth = bytes.fromhex(sys.argv[5].replace(":", "")) + bytes.fromhex(sys.argv[6].replace(":", ""))
def ip4(totlen, ihl, proto, body, src="10.13.1.2", ver=4, frag=0):
    h = struct.pack("!BBHHHBBH4s4s", (ver << 4) | ihl, 0, totlen & 0xffff, 7, frag, 64, proto, 0, socket.inet_aton(src), socket.inet_aton(dst if not v6 else "10.13.1.1"))
    return h + body
def l2_frames(n):
    body = os.urandom(8 + n % 40)
    return [
        eth + b"\x08\x00" + ip4(0, 5, 1, body),                 # total length 0, protocol ICMP
        eth + b"\x08\x00" + ip4(19, 5, 1, body),                # total length below the header length
        eth + b"\x08\x00" + ip4(20 + len(body) + 400, 5, 1, body), # total length beyond the frame
        eth + b"\x08\x00" + ip4(20 + len(body), 15, 1, body),   # header length beyond the frame
        eth + b"\x08\x00" + ip4(20 + len(body), 0, 6, body),    # header length 0, protocol TCP
        eth + b"\x08\x00" + ip4(20 + len(body), 5, 1, body, ver=7),
        eth + b"\x08\x00" + ip4(20 + len(body), 5, 6, body, frag=0x2000 | 3),
        eth + b"\x08\x00" + ip4(20, 5, 1, b""),                 # header only
        eth + b"\x08\x00",                                     # no network layer at all
        eth + b"\x86\xdd" + struct.pack("!IHBB", 0x60000000, 0, 58, 64) + os.urandom(32),           # IPv6, payload length 0, ICMPv6
        eth + b"\x86\xdd" + struct.pack("!IHBB", 0x60000000, 900, 58, 64) + os.urandom(32 + 8),     # payload length beyond the frame
        eth + b"\x86\xdd" + struct.pack("!IHBB", 0x60000000, 8, 44, 64) + os.urandom(32) + bytes([58, 0, 0, 1]) + os.urandom(4), # fragment header, nothing behind
        eth + b"\x08\x06" + os.urandom(28),                    # ARP-typed garbage
        eth[:12] + b"\x81\x00\x00\x05\x08\x00" + ip4(20 + len(body), 5, 1, body),                  # 802.1Q tag in front of IPv4
    ]
sys.stdout.write("ready\n"); sys.stdout.flush()
n = 0
end = time.time() + float(sys.argv[3])
while time.time() < end:
    n += 1
    k = n % 6
    try:
        if k == 0:   # echo request far larger than the tool's read buffer (answered by the kernel, seen by the capture socket)
            body = os.urandom(1400)
            if v6:
                icmp.sendto(struct.pack("!BBHHH", 128, 0, 0, 77, n & 0xffff) + body, (dst, 0))
            else:
                h = struct.pack("!BBHHH", 8, 0, 0, 77, n & 0xffff)
                c = csum(h + body)
                icmp.sendto(struct.pack("!BBHHH", 8, 0, c, 77, n & 0xffff) + body, (dst, 0))
        elif k == 1: # a datagram that leaves fragmented (MTU 1500)
            udp.sendto(os.urandom(3000), (dst, 40000 + n % 1000))
        elif k == 2 and not v6: # ICMP error quoting garbage
            q = os.urandom(random.choice([0, 1, 7, 19, 20, 27, 28, 60]))
            h = struct.pack("!BBHI", random.choice([3, 11, 12, 5, 4]), random.randrange(16), 0, 0)
            c = csum(h + q)
            icmp.sendto(struct.pack("!BBHI", h[0], h[1], c, 0) + q, (dst, 0))
        elif k == 3: # echo reply nobody asked for, exactly buffer sized
            body = os.urandom(1024 - 28)
            if v6:
                icmp.sendto(struct.pack("!BBHHH", 129, 0, 0, random.randrange(65536), random.randrange(65536)) + body, (dst, 0))
            else:
                h = struct.pack("!BBHHH", 0, 0, 0, 1, n & 0xffff)
                c = csum(h + body)
                icmp.sendto(struct.pack("!BBHHH", 0, 0, c, 1, n & 0xffff) + body, (dst, 0))
        elif k == 4 and pk is not None:
            fr = l2_frames(n)
            pk.send(fr[(n // 6) % len(fr)])
        else:        # small datagrams to closed ports
            udp.sendto(os.urandom(random.randrange(0, 64)), (dst, 30000 + n % 5000))
    except OSError:
        pass
    if n % 4 == 0:
        time.sleep(0.004)
`

// floodSem: at most two flood labs at a time. The flood is meant to exercise the tool's handling of frames it does not
// expect, not to overrun the capture socket's receive buffer (about 200 kB): at most 1000 frames (about 1 MB) per second,
// so that a tool that is descheduled for 100 ms on a loaded machine still finds its replies queued. (Thorough seed 3 on a
// machine at load 30 lost replies with 8000 frames/s and seven labs at once: the kernel drops what the socket cannot hold.)
var floodSem = make(chan struct{}, 2)

func runKernelCfg(tag string, cfg kernelCfg) (out kernelOutcome) {
	out.counters = map[string]int{}
	if _, err := os.Stat(os.Getenv("VERIF_BUILD_DIR") + "/datadog-traceroute"); err != nil {
		out.inconclusive = "CLI binary not built (run through ./check)"
		return
	}
	l, err := newLab(tag, 3)
	if err != nil {
		out.inconclusive = fmt.Sprintf("cannot build the namespace lab: %v", err)
		return
	}
	defer l.cleanup()
	if err := l.listen(8080); err != nil {
		out.inconclusive = fmt.Sprintf("listener: %v", err)
		return
	}
	target := l.dest(cfg.v6)
	base := append([]string{}, cfg.args...)
	if cfg.v6 {
		base = append(base, "--ipv6")
	}
	hasQ := false
	for _, a := range base {
		if a == "-q" {
			hasQ = true
		}
	}
	if !hasQ {
		base = append(base, "-q", "1", "-Q", "0")
	}
	base = append(base, "-m", fmt.Sprint(l.n+2), "--timeout", "800", target)
	want := l.expectChain(1, cfg.v6)
	matches := func(o c13Out) string {
		if o.err != "" {
			return "CLI failed: " + o.err
		}
		if len(o.runs) == 0 {
			return "no runs"
		}
		for _, r := range o.runs {
			if p := judgeRun(r, want, 1, false); p != "" {
				return p
			}
		}
		return ""
	}
	// warm-up + fault-free baseline: the lab must show its chain before anything is judged
	ok := false
	warm := append([]string{}, base...)
	for i := 0; i+1 < len(warm); i++ {
		if warm[i] == "-q" && warm[i+1] == "0" {
			warm[i+1] = "1" // a configuration without path runs still needs a path run to show that the lab works
		}
	}
	for try := 0; try < 6 && !ok; try++ {
		o := l.cli(warm...)
		out.counters["cli_invocations"]++
		ok = matches(o) == ""
	}
	if !ok {
		out.inconclusive = "the undisturbed run never showed the lab's chain"
		return
	}
	if cfg.prop == "C20" {
		passiveOpens := func() int {
			o, err := run("ip", "netns", "exec", l.ns[l.n+1], "cat", "/proc/net/snmp")
			if err != nil {
				return -1
			}
			var names, vals []string
			for _, ln := range strings.Split(o, "\n") {
				if strings.HasPrefix(ln, "Tcp:") {
					if names == nil {
						names = strings.Fields(ln)
					} else {
						vals = strings.Fields(ln)
					}
				}
			}
			for i, n := range names {
				if n == "PassiveOpens" && i < len(vals) {
					v, _ := strconv.Atoi(vals[i])
					return v
				}
			}
			return -1
		}
		bad, good := 0, 0
		var last, lastRaw string
		for attempt := 0; attempt < 5; attempt++ {
			before := passiveOpens()
			o := l.cli(base...)
			after := passiveOpens()
			out.counters["cli_invocations"]++
			if o.err == "WATCHDOG" || before < 0 || after < 0 {
				out.inconclusive = "CLI watchdog fired / counter unreadable"
				return
			}
			delta := after - before
			problem := ""
			switch {
			case matches(o) != "":
				problem = "" // the chain is C13's business; only connections are judged here
				if o.err != "" {
					problem = "CLI failed: " + o.err
				}
			}
			if problem == "" && cfg.cause == "0" && delta != 0 {
				problem = fmt.Sprintf("the target's kernel established %d TCP connection(s) during a run with %v", delta, cfg.args)
			}
			if problem == "" && cfg.cause == ">=1" && delta < 1 {
				problem = fmt.Sprintf("no TCP connection was established at the target during a run with %v", cfg.args)
			}
			if problem == "" {
				good++
				if attempt == 0 || good >= 3 {
					out.nontrivial = append(out.nontrivial, "kernel/"+cfg.name)
					out.sample = map[string]any{"case": "C20/kernel/" + cfg.name, "connections_established_at_target": delta}
					return
				}
				continue
			}
			bad++
			last, lastRaw = problem, o.raw
			if bad >= 3 {
				out.violations = append(out.violations, [3]string{"cli-connections/" + cfg.name, fmt.Sprintf("%s (%d of %d runs)", last, bad, bad+good), lastRaw})
				return
			}
		}
		out.inconclusive = fmt.Sprintf("%d mismatching and %d matching runs", bad, good)
		return
	}
	if cfg.prop == "C14" {
		// the verdict is the race detector's: its reports land next to this process's own (same GORACE log_path) and are
		// judged by the check's Finish step; here only "the race-built CLI ran and showed the chain" is recorded
		l.bin = "datadog-traceroute.race"
		if _, err := os.Stat(os.Getenv("VERIF_BUILD_DIR") + "/" + l.bin); err != nil {
			out.inconclusive = "race-built CLI binary not built"
			return
		}
		reps := 3
		good := 0
		for i := 0; i < reps; i++ {
			o := l.cli(base...)
			out.counters["race_cli_invocations"]++
			if o.err == "WATCHDOG" {
				out.inconclusive = "CLI watchdog fired"
				return
			}
			if matches(o) == "" {
				good++
			}
		}
		if good == 0 {
			out.inconclusive = "the race-built CLI never showed the lab's chain"
			return
		}
		out.nontrivial = append(out.nontrivial, "kernel/"+cfg.name)
		out.sample = map[string]any{"case": "C14/kernel/" + cfg.name, "runs": reps, "runs_with_the_chain": good}
		return
	}
	if cfg.prop == "C10" {
		ipt := "iptables"
		if cfg.v6 {
			ipt = "ip6tables"
		}
		cause := "operation not permitted"
		if cfg.sysctl != "" {
			cause = cfg.cause
			if _, err := run("ip", "netns", "exec", l.ns[0], "sysctl", "-qw", cfg.sysctl); err != nil {
				out.inconclusive = "cannot set " + cfg.sysctl + ": " + err.Error()
				return
			}
		} else if _, err := run(append([]string{"ip", "netns", "exec", l.ns[0], ipt, "-A", "OUTPUT"}, cfg.rule...)...); err != nil {
			out.inconclusive = "cannot install the packet filter rule: " + err.Error()
			return
		}
		o := l.cli(base...)
		out.counters["cli_invocations"]++
		out.counters["kernel_refused_sends"]++
		switch {
		case o.err == "WATCHDOG":
			out.inconclusive = "CLI watchdog fired"
		case o.err == "":
			out.violations = append(out.violations, [3]string{"fault-swallowed/kernel/" + cfg.name, "the kernel refused the operation (" + cause + ") but the command succeeded and printed a path", o.raw})
		case strings.Contains(o.raw, "\"hops\""):
			out.violations = append(out.violations, [3]string{"result-and-error/kernel/" + cfg.name, "the command failed and still printed a result", o.raw})
		case !strings.Contains(o.err, cause):
			out.violations = append(out.violations, [3]string{"cause-lost/kernel/" + cfg.name, "the error message no longer names the cause (" + cause + "): " + o.err, o.raw})
		default:
			out.nontrivial = append(out.nontrivial, "kernel/"+cfg.name+"/fatal")
			out.sample = map[string]any{"case": cfg.prop + "/kernel/" + cfg.name, "rule": strings.Join(cfg.rule, " ") + cfg.sysctl, "cli_error": o.err}
		}
		return
	}
	// C09: flood from router 1 towards the source host for the whole judged phase
	floodSem <- struct{}{}
	defer func() { <-floodSem }()
	fam, src := "4", l.addr4(1, false)
	if cfg.v6 {
		fam, src = "6", l.addr6(1, false)
	}
	// link-layer addresses of the first link (router 1's side l1, the source host's side r1) for the frames built below IP
	mac := func(ns, dev string) string {
		o, _ := run("ip", "-n", ns, "-o", "link", "show", dev)
		if i := strings.Index(o, "link/ether "); i >= 0 && len(o) >= i+28 {
			return o[i+11 : i+28]
		}
		return ""
	}
	floodArgs := []string{"ip", "netns", "exec", l.ns[1], "python3", "-c", floodScript, src, fam, "30"}
	if dm, sm := mac(l.ns[0], "r1"), mac(l.ns[1], "l1"); dm != "" && sm != "" {
		floodArgs = append(floodArgs, "l1", dm, sm)
		out.counters["flood_with_link_layer_frames"]++
	}
	la := labArgs(floodArgs)
	fl := exec.Command(la[0], la[1:]...)
	stdout, _ := fl.StdoutPipe()
	if err := fl.Start(); err != nil {
		out.inconclusive = "cannot start the flood: " + err.Error()
		return
	}
	l.procs = append(l.procs, fl)
	ready := make(chan struct{})
	go func() { b := make([]byte, 8); stdout.Read(b); close(ready) }()
	select {
	case <-ready:
	case <-time.After(90 * time.Second):
		out.inconclusive = "the flood did not start"
		return
	}
	bad, good := 0, 0
	var last string
	var lastRaw string
	for attempt := 0; attempt < 5; attempt++ {
		o := l.cli(base...)
		out.counters["cli_invocations"]++
		out.counters["runs_under_flood"]++
		if o.err == "WATCHDOG" {
			out.inconclusive = "CLI watchdog fired"
			return
		}
		p := matches(o)
		if p == "" {
			good++
			if attempt == 0 || good >= 3 {
				out.nontrivial = append(out.nontrivial, "kernel/"+cfg.name+"/same-chain")
				out.sample = map[string]any{"case": cfg.prop + "/kernel/" + cfg.name, "chain_under_flood": want}
				return
			}
			continue
		}
		bad++
		last, lastRaw = p, o.raw
		fmt.Printf("C09-KERNEL-MISMATCH %s attempt %d: %s\n", cfg.name, attempt, p)
		if bad >= 3 {
			sig := "kernel-noise-changes-result/"
			if strings.HasPrefix(p, "CLI failed") {
				sig = "abort/kernel/"
			}
			out.violations = append(out.violations, [3]string{sig + cfg.name, fmt.Sprintf("under a flood of oversized / fragmented / nonsense frames: %s (%d of %d runs; the undisturbed run showed the chain)", last, bad, bad+good), lastRaw})
			return
		}
	}
	out.inconclusive = fmt.Sprintf("%d mismatching and %d matching runs under the flood", bad, good)
	return
}
