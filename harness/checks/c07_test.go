package checks

import (
	"context"
	"fmt"
	"math/rand"
	"net/netip"
	"strings"
	"time"

	"github.com/DataDog/datadog-traceroute/common"

	"verif/harness/fw"
	"verif/harness/gen"
	"verif/harness/refmatch"
	"verif/harness/scripted"
)

func init() { register("C07", checkC07) }

type c07opt struct {
	slot, ttl int
	dest      bool
}

const (
	c07Delay   = 50 * time.Millisecond
	c07Timeout = 300 * time.Millisecond
	c07Poll    = 100 * time.Millisecond
)

// c07Slots are the delivery slots for n TTLs: just after the first send, between consecutive sends,
// exactly at a send instant (declared tie), after the last send, mid-wait, inside the last poll and
// 1 µs before the deadline.
func c07Slots(n int) []time.Duration {
	deadline := c07Timeout + time.Duration(n)*c07Delay
	s := []time.Duration{time.Microsecond}
	for k := 1; k < n; k++ {
		s = append(s, time.Duration(k)*c07Delay-c07Delay/2, time.Duration(k)*c07Delay)
	}
	s = append(s, time.Duration(n-1)*c07Delay+c07Delay/2, time.Duration(n)*c07Delay+c07Timeout/2, deadline-c07Poll/2, deadline-time.Microsecond)
	return s
}

// enumerate all reply tuples of length <= k with non-decreasing slot.
func c07Enumerate(n, k int, emit func([]c07opt)) {
	slots := len(c07Slots(n))
	var cur []c07opt
	var rec func(minSlot int)
	rec = func(minSlot int) {
		emit(cur)
		if len(cur) == k {
			return
		}
		for s := minSlot; s < slots; s++ {
			for t := 1; t <= n; t++ {
				for _, d := range []bool{false, true} {
					cur = append(cur, c07opt{s, t, d})
					rec(s)
					cur = cur[:len(cur)-1]
				}
			}
		}
	}
	rec(0)
}

func c07Script(n int, sched []c07opt) []scripted.Reply {
	slots := c07Slots(n)
	var script []scripted.Reply
	for i, o := range sched {
		script = append(script, scripted.Reply{At: slots[o.slot], TTL: uint8(o.ttl), Dest: o.dest, RTT: time.Duration((i*7919+o.ttl*31)%47+1) * time.Millisecond,
			Addr: netip.AddrFrom4([4]byte{10, byte(i + 1), byte(o.slot), byte(o.ttl)})})
	}
	return script
}

func interleaving(ev []scripted.Event) string {
	var sb strings.Builder
	for _, e := range ev {
		switch e.Kind {
		case "send":
			fmt.Fprintf(&sb, "S%d ", e.TTL)
		case "reply":
			k := "h"
			if e.Dest {
				k = "d"
			}
			fmt.Fprintf(&sb, "R%d%s ", e.TTL, k)
		}
	}
	return sb.String()
}

// checkMerge is the C07 oracle: result == clip(fold(replies in the order ReceiveProbe handed them out)).
func checkMerge(c *fw.Ctx, tag string, first, last uint8, ev []scripted.Event, res []*common.ProbeResponse, err error) bool {
	if err != nil {
		c.Violate("C07", "engine-error", fmt.Sprintf("%s: %v", tag, err), ev)
		return false
	}
	want := scripted.Fold(ev, first, last, false)
	detail := map[string]any{"events": ev, "result": fmtProbes(res), "first": first, "last": last}
	if len(want) != len(res) {
		c.Violate("C07", "length", fmt.Sprintf("%s: result has %d entries, reference fold %d", tag, len(res), len(want)), detail)
		return false
	}
	ok := true
	for i := range want {
		w, g := want[i], res[i]
		switch {
		case w == nil && g == nil:
		case w == nil && g != nil:
			c.Violate("C07", "phantom", fmt.Sprintf("%s: TTL %d filled (%s) but the fold has no reply for it", tag, int(first)+i, g.IP), detail)
			ok = false
		case w != nil && g == nil:
			c.Violate("C07", "lost-reply", fmt.Sprintf("%s: reply for TTL %d handed to the engine at %v is not in the result", tag, w.TTL, w.At), detail)
			ok = false
		default:
			if g.IP != w.Addr || g.IsDest != w.Dest || g.TTL != w.TTL {
				sig := "wrong-winner"
				if w.Dest && !g.IsDest {
					sig = "dest-not-overriding"
				} else if g.IsDest == w.Dest {
					sig = "not-first"
				}
				c.Violate("C07", sig, fmt.Sprintf("%s: TTL %d kept %s dest=%v, rules keep %s dest=%v", tag, w.TTL, g.IP, g.IsDest, w.Addr, w.Dest), detail)
				ok = false
			} else if g.RTT != w.RTT {
				c.Violate("C07", "rtt-changed", fmt.Sprintf("%s: TTL %d RTT %v, driver reported %v", tag, w.TTL, g.RTT, w.RTT), detail)
				ok = false
			}
		}
	}
	return ok
}

func checkC07() fw.Check {
	return fw.Check{
		Prop:  "C07",
		Level: "exploration",
		Rule: "exhaustive tier: every tuple of <=K scripted replies (TTL x hop/dest x delivery slot, slots = after first send / between sends / exactly at a send instant / after last send / mid-wait / last poll / 1us before deadline) for n TTLs, run through the real TracerouteParallel in a virtual-time bubble; random tier: n<=255, <=4 replies per TTL; stress tier: real goroutines under the race detector with Gosched/us sleeps injected at the two driver boundaries. Oracle: result == clip(fold(replies in hand-out order)).  plus every parallel REAL variant over the simulated wire with a second-path router and the destination answering the same TTL in both orders, and duplicated router replies, judged by the reference fold; " +
			"distinct_nontrivial = number of distinct send/reply interleaving strings observed at the driver boundary with at least one reply handed out",
		Workers:       16,
		MinNontrivial: 50,
		Assumptions:   []string{"the engine's only suspension points are the two driver calls, time.Sleep and contexts", "scripted driver log is the ground truth of hand-out order"},
		Gen: func(tier string, seed int64) []fw.Case {
			var cases []fw.Case
			type bound struct{ n, k, sample int }
			bounds := []bound{{1, 4, 1}, {2, 3, 1}, {3, 3, 2}}
			if tier == "thorough" {
				bounds = []bound{{1, 6, 1}, {2, 5, 1}, {3, 4, 1}, {4, 3, 1}, {5, 3, 2}}
			}
			const chunk = 400
			for _, b := range bounds {
				b := b
				total := 0
				c07Enumerate(b.n, b.k, func([]c07opt) { total++ })
				nchunks := (total + chunk - 1) / chunk
				for ci := 0; ci < nchunks; ci++ {
					ci := ci
					if b.sample > 1 && (ci+int(seed))%b.sample != 0 {
						continue
					}
					id := fmt.Sprintf("C07/exh/n%d-k%d/chunk%d", b.n, b.k, ci)
					cases = append(cases, fw.Case{ID: id, Bubble: true, Run: func(c *fw.Ctx) {
						idx := 0
						c07Enumerate(b.n, b.k, func(s []c07opt) {
							if idx/chunk == ci {
								sched := append([]c07opt(nil), s...)
								p := engParams{first: 1, last: uint8(b.n), timeout: c07Timeout, poll: c07Poll, delay: c07Delay}
								d := scripted.New(true, c07Script(b.n, sched))
								res, err := runEngine(context.Background(), true, d, p)
								ev := d.Snapshot()
								checkMerge(c, fmt.Sprintf("%s sched %v", id, sched), 1, uint8(b.n), ev, res, err)
								// every reply that became available before the engine's deadline must have been read: polls follow each
								// other without a gap and each one starts before the deadline, so one of them is waiting when the reply
								// comes in - also during the last poll interval (virtual time: exact; the deadline instant itself is a tie)
								deadline := c07Timeout + time.Duration(b.n)*c07Delay
								if un := d.Unused(deadline - time.Microsecond); len(un) > 0 && err == nil {
									c.Violate("C07", "reply-never-read", fmt.Sprintf("%s sched %v: %d reply(ies) available before the deadline (%v) were never read by the engine (first: ttl %d due at %v)", id, sched, len(un), deadline, un[0].TTL, un[0].At), ev)
								}
								c.Count("schedules", 1)
								il := interleaving(ev)
								if strings.Contains(il, "R") {
									c.Nontrivial(il)
								}
								if idx%chunk == 7 {
									c.Sample(map[string]any{"schedule": fmt.Sprint(sched), "interleaving": il, "result": fmtProbes(res)})
								}
							}
							idx++
						})
					}})
				}
			}
			// random tier (bubble)
			nrand := 1000
			if tier == "thorough" {
				nrand = 30000
			}
			for i := 0; i < nrand; i++ {
				id := fmt.Sprintf("C07/rand/%d", i)
				cases = append(cases, fw.Case{ID: id, Bubble: true, Run: func(c *fw.Ctx) {
					r := c.Rng
					first := 1 + r.Intn(3)
					last := first + r.Intn(40)
					switch r.Intn(8) {
					case 0:
						last = first + r.Intn(256-first)
					case 1:
						last = 255 // the largest legal TTL
					case 2:
						first, last = 250+r.Intn(6), 255
					}
					p := engParams{first: uint8(first), last: uint8(last), timeout: 200 * time.Millisecond, poll: 40 * time.Millisecond, delay: 10 * time.Millisecond}
					script := c07RandomScript(r, p)
					if i%5 == 4 {
						// a burst of polls that end at once with a retryable error (unrelated / malformed packets queued ahead
						// of the replies): twice as many as poll intervals fit into the listening window
						n := int(p.last) - int(p.first) + 1
						burst := 2 * int((p.timeout+time.Duration(n)*p.delay)/p.poll)
						for k := 0; k < burst; k++ {
							script = append(script, scripted.Reply{At: time.Duration(k) * time.Microsecond, Bad: 1 + r.Intn(4)})
						}
					}
					if i%10 == 9 {
						// a busy host: several hundred malformed / foreign packets (other pings and traceroutes) spread over the
						// listening window, among the replies. Each is skipped; however many there are, they are no reason to
						// give up the replies
						total := p.timeout + time.Duration(int(p.last)-int(p.first)+1)*p.delay
						for k := 0; k < 300+r.Intn(300); k++ {
							script = append(script, scripted.Reply{At: time.Duration(r.Int63n(int64(total)-1)) | 1, Bad: 1 + 2*r.Intn(2)})
						}
					}
					d := scripted.New(true, script)
					if i%7 == 3 {
						// every send blocks for a third of the listening timeout: the deadline passes while the sender is still
						// working through the TTLs. What was accepted until then is the result - a slow sender is not an error.
						d.SendCost = p.timeout / 3
					}
					res, err := runEngine(context.Background(), true, d, p)
					ev := d.Snapshot()
					checkMerge(c, id, p.first, p.last, ev, res, err)
					// every reply that became available before the deadline was read (see the exhaustive tier)
					n := int(p.last) - int(p.first) + 1
					if un := d.Unused(p.timeout + time.Duration(n)*p.delay - time.Microsecond); len(un) > 0 && err == nil {
						c.Violate("C07", "reply-never-read", fmt.Sprintf("%s: %d reply(ies) available before the deadline were never read by the engine (first: ttl %d due at %v)", id, len(un), un[0].TTL, un[0].At), ev)
					}
					c.Count("schedules", 1)
					il := interleaving(ev)
					if strings.Contains(il, "R") {
						c.Nontrivial(fmt.Sprintf("rand:%x", fw.Hash32(il)))
					}
				}})
			}
			// stress tier: real goroutines, real clock, jitter at driver boundaries (race detector on in this binary)
			nstress := 120
			if tier == "thorough" {
				nstress = 4000
			}
			for i := 0; i < nstress; i++ {
				id := fmt.Sprintf("C07/stress/%d", i)
				cases = append(cases, fw.Case{ID: id, Bubble: false, Run: func(c *fw.Ctx) {
					r := c.Rng
					n := 2 + r.Intn(12)
					p := engParams{first: 1, last: uint8(n), timeout: 30 * time.Millisecond, poll: 2 * time.Millisecond, delay: 500 * time.Microsecond}
					var script []scripted.Reply
					total := p.timeout + time.Duration(n)*p.delay
					for t := 1; t <= n; t++ {
						for k := r.Intn(4); k > 0; k-- {
							script = append(script, scripted.Reply{At: time.Duration(r.Int63n(int64(total * 3 / 4))), TTL: uint8(t), Dest: r.Intn(5) == 0, RTT: time.Duration(r.Intn(3)*r.Intn(40)) * time.Millisecond,
								Addr: netip.AddrFrom4([4]byte{10, byte(k), byte(i), byte(t)})})
						}
					}
					d := scripted.New(true, script)
					jr := rand.New(rand.NewSource(r.Int63()))
					var jmu = make(chan struct{}, 1)
					jmu <- struct{}{}
					d.Jitter = func() time.Duration {
						<-jmu
						v, w := jr.Intn(4), jr.Intn(50)
						jmu <- struct{}{}
						if v == 0 {
							return time.Duration(1+w) * time.Microsecond
						}
						return 0
					}
					res, err := runEngine(context.Background(), true, d, p)
					ev := d.Snapshot()
					checkMerge(c, id, p.first, p.last, ev, res, err)
					c.Count("stress_runs", 1)
					il := interleaving(ev)
					if strings.Contains(il, "R") {
						c.Nontrivial(fmt.Sprintf("stress:%x", fw.Hash32(il)))
					}
				}})
			}
			// the merge rules behind the REAL drivers of the parallel variants (simulated wire): for the destination's TTL a
			// router on a second path answers first and the destination afterwards (destination overrides), or the
			// destination first and the router afterwards (first accepted reply of equal rank stays); a duplicate of a
			// router's reply with another delay (first wins). A driver that filters "second replies" on its own never shows
			// them to the engine's merge. Judged by the reference fold over the frames the handle read.
			for _, v := range refmatch.Variants {
				if v.Serial {
					continue
				}
				for _, order := range []string{"router-then-dest", "dest-then-router", "router-twice"} {
					for _, w := range []window{{1, 8}, {3, 12}} {
						v, order, w := v, order, w
						id := fmt.Sprintf("C07/real/%s/%s/%d-%d", v.Name, order, w.first, w.last)
						cases = append(cases, fw.Case{ID: id, Bubble: true, Run: func(c *fw.Ctx) {
							dist := w.first + (w.last-w.first)/2
							sc := scenario{tag: id, v: v, win: w, b: basesQuick[0], model: func(e *simEnv) *pathModel {
								m := &pathModel{hops: map[int]*hopSpec{}, dist: dist, destDelay: 30 * time.Millisecond}
								for t := w.first; t < dist; t++ {
									m.hops[t] = &hopSpec{addr: routerAddr(v.V6, 1, t), delay: time.Duration(5+t) * time.Millisecond}
									if order == "router-twice" {
										m.hops[t].dups = []time.Duration{time.Duration(25+t) * time.Millisecond}
									}
								}
								// an ICMP error of someone else's probe (same addresses, an identifier this run never used) arrives among
								// the replies: it is skipped, it neither enters the merge nor ends the run
								prevExtra := m.extra
								m.extra = func(e *simEnv, p *refmatch.Probe) {
									if prevExtra != nil {
										prevExtra(e, p)
									}
									if p.TTL == w.first+1 {
										q := gen.QuoteBytes(p, 1, "fix")
										if len(q) >= 8 {
											q[4], q[5] = q[4]^0x5a, q[5]^0xa5 // IPv4 identification / IPv6 payload length
											gen.FixIPv4Checksum(q, "fix")
										}
										e.inject(gen.WrapError(routerAddr(v.V6, 3, p.TTL), e.local, gen.TimeExceeded, 0, q, "min", nil, 0), "foreign-identifier", p, oddUS(2*time.Millisecond))
									}
								}
								if order != "router-twice" {
									other := 3 * time.Millisecond
									if order == "dest-then-router" {
										other = 70 * time.Millisecond
									}
									foreign := m.extra
									m.extra = func(e *simEnv, p *refmatch.Probe) {
										foreign(e, p)
										if p.TTL == dist {
											e.inject(gen.WrapError(routerAddr(v.V6, 2, p.TTL), e.local, gen.TimeExceeded, 0, gen.QuoteBytes(p, 1, "fix"), "min", nil, 0),
												"second-path-router-same-ttl", p, oddUS(other))
										}
									}
								}
								return m
							}}
							out := runScenario(c, sc)
							if out == nil {
								return
							}
							defer out.e.close()
							if out.res.Err == nil && out.res.Run != nil {
								c.Nontrivial(fmt.Sprintf("real/%s/%s", v.Name, order))
								c.Count("real_variant_runs", 1)
							}
						}})
					}
				}
			}
			return cases
		},
	}
}

func c07RandomScript(r *rand.Rand, p engParams) []scripted.Reply {
	n := int(p.last) - int(p.first) + 1
	total := p.timeout + time.Duration(n)*p.delay
	var script []scripted.Reply
	ndest := r.Intn(4)
	dests := map[int]bool{}
	for i := 0; i < ndest; i++ {
		dests[int(p.first)+r.Intn(n)] = true
	}
	for t := int(p.first); t <= int(p.last); t++ {
		for k := r.Intn(5); k > 0; k-- {
			dest := dests[t] && r.Intn(3) > 0
			script = append(script, scripted.Reply{At: time.Duration(r.Int63n(int64(total+p.poll))) | 1, TTL: uint8(t), Dest: dest, RTT: time.Duration(r.Intn(3)*r.Intn(40)) * time.Millisecond,
				Addr: netip.AddrFrom4([4]byte{10, byte(k), byte(len(script)), byte(t)})})
		}
	}
	// polls that end with a retryable error (malformed or unrelated packet), bare and wrapped with context: which polls
	// fall between the replies must not change the merge, and none of them may end the run
	for k := r.Intn(4); k > 0; k-- {
		script = append(script, scripted.Reply{At: time.Duration(r.Int63n(int64(total))) | 1, Bad: 1 + r.Intn(4)})
	}
	return script
}
