package checks

import (
	"context"
	"fmt"
	"math/rand"
	"net/http/httptest"
	"net/netip"
	"net/url"
	"sort"
	"strings"
	"time"

	"github.com/DataDog/datadog-traceroute/result"
	"github.com/DataDog/datadog-traceroute/server"
	"github.com/DataDog/datadog-traceroute/traceroute"

	"verif/harness/fw"
	"verif/harness/simnet"
)

func init() { register("C19", checkC19) }

type c19Req struct {
	minTTL, maxTTL int
	port           int
	proto          string
	method         string
	targetForm     string // v4 v4port v6 v6br v6brport
	viaHTTP        bool
	// e2eOnly: the request consists of end-to-end probes only (0 traceroute runs, 1 probe): the TTL window is [max,max]
	e2eOnly bool
}

func (r c19Req) String() string {
	return fmt.Sprintf("ttl=[%d,%d] port=%d proto=%q method=%q target=%s http=%v e2eOnly=%v", r.minTTL, r.maxTTL, r.port, r.proto, r.method, r.targetForm, r.viaHTTP, r.e2eOnly)
}

var (
	c19TTLs    = []int{-300, -1, 0, 1, 2, 30, 254, 255, 256, 257, 258, 300, 511, 65536, 65537, 1<<31 - 1}
	c19Ports   = []int{-1, 0, 1, 80, 65535, 65536, 65537, 70000}
	c19Protos  = []string{"udp", "tcp", "icmp", "", "UDP", "sctp"}
	c19Methods = []string{"", "syn", "sack", "prefer_sack", "syn_socket", "bogus", "SYN"}
	c19Targets = []string{"v4", "v4port", "v6", "v6br", "v6brport", "v4name", "v6name", "v4dual", "v6dual", "v4nameport", "v4port0", "v6brport0", "v4port65536"}
)

func checkC19() fw.Check {
	return fw.Check{
		Prop:  "C19",
		Level: "exploration",
		Rule: "grid over (MinTTL, MaxTTL) in {-300,-1,0,1,2,30,254..258,300,511,65536,65537,2^31-1}^2, ports {-1,0,1,80,65535,65536,65537,70000}, protocols {udp,tcp,icmp,\"\",UDP,sctp}, TCP methods {\"\",syn,sack,prefer_sack,syn_socket,bogus,SYN}, target forms {IPv4, IPv4:port, IPv6, [IPv6], [IPv6]:port, host names answered from a private hosts file (v4-only, v6-only, dual with either family wanted, name:port), literals with port 0 / 65536}, through RunTraceroute and through server.TracerouteHandler, on a silent simulated network; oracle: a request carrying a value that cannot be on the wire must be rejected; a request that succeeds must have emitted exactly one probe for every TTL of [Min,Max] and nothing else, all to the requested address and port (default 33434 when 0, the literal's port when given) and of the requested kind; a process crash is attributed to the journaled case. " +
			"distinct_nontrivial counts distinct (protocol, method, ttl-class pair, port-class, target form, entry point, outcome) tuples executed",
		Workers:       8,
		MinNontrivial: 100,
		Assumptions:   []string{"network silent: the set of TTLs on the wire is decided by the parameters alone", "a port parameter next to a literal that carries its own port is not judged (the literal's port must be used)", "Linux build"},
		Gen: func(tier string, seed int64) []fw.Case {
			var reqs []c19Req
			add := func(r c19Req) { reqs = append(reqs, r) }
			// TTL grid per protocol/method through both entry points (HTTP pins MinTTL=1)
			for _, pm := range [][2]string{{"udp", ""}, {"icmp", ""}, {"tcp", "syn"}, {"tcp", "sack"}, {"tcp", "prefer_sack"}} {
				for _, mn := range c19TTLs {
					for _, mx := range c19TTLs {
						if tier != "thorough" && pm[0] == "tcp" && pm[1] != "syn" && !(mn == 1 || mn == mx) {
							continue
						}
						add(c19Req{minTTL: mn, maxTTL: mx, port: 443, proto: pm[0], method: pm[1], targetForm: "v4"})
					}
				}
				for _, mx := range c19TTLs {
					add(c19Req{minTTL: 1, maxTTL: mx, port: 443, proto: pm[0], method: pm[1], targetForm: "v4", viaHTTP: true})
				}
			}
			// ports x target forms x protocols
			for _, proto := range []string{"udp", "tcp", "icmp"} {
				for _, port := range c19Ports {
					for _, tf := range c19Targets {
						for _, http := range []bool{false, true} {
							add(c19Req{minTTL: 1, maxTTL: 3, port: port, proto: proto, method: "syn", targetForm: tf, viaHTTP: http})
						}
					}
				}
			}
			// protocol and method strings, as a traceroute request and as an end-to-end-only request
			for _, proto := range c19Protos {
				for _, m := range c19Methods {
					for _, http := range []bool{false, true} {
						for _, e2eOnly := range []bool{false, true} {
							add(c19Req{minTTL: 1, maxTTL: 3, port: 8080, proto: proto, method: m, targetForm: "v4", viaHTTP: http, e2eOnly: e2eOnly})
						}
					}
				}
			}
			for _, mx := range c19TTLs {
				for _, proto := range []string{"udp", "icmp", "tcp"} {
					add(c19Req{minTTL: 1, maxTTL: mx, port: 443, proto: proto, method: "syn", targetForm: "v4", e2eOnly: true})
				}
			}
			// IPv6 targets with the TTL extremes (quick tier too): every legal TTL must be probeable in both families,
			// as a path run and as an end-to-end-only request (a single probe at the last TTL)
			for _, proto := range []string{"udp", "icmp"} {
				for _, w := range [][2]int{{1, 255}, {250, 255}, {255, 255}, {1, 1}, {128, 129}, {251, 251}} {
					add(c19Req{minTTL: w[0], maxTTL: w[1], port: 33434, proto: proto, targetForm: "v6"})
					add(c19Req{minTTL: 1, maxTTL: w[1], port: 33434, proto: proto, targetForm: "v6brport", e2eOnly: true})
				}
			}
			if tier == "thorough" {
				// the full product of the grid (2.2 million requests), plus a seeded quarter of it as end-to-end-only requests
				rr := rand.New(rand.NewSource(seed*31 + 7))
				for _, mn := range c19TTLs {
					for _, mx := range c19TTLs {
						for _, port := range c19Ports {
							for _, proto := range c19Protos {
								for _, m := range c19Methods {
									for _, tf := range c19Targets {
										for _, http := range []bool{false, true} {
											add(c19Req{minTTL: mn, maxTTL: mx, port: port, proto: proto, method: m, targetForm: tf, viaHTTP: http})
											if rr.Intn(4) == 0 {
												add(c19Req{minTTL: mn, maxTTL: mx, port: port, proto: proto, method: m, targetForm: tf, viaHTTP: http, e2eOnly: true})
											}
										}
									}
								}
							}
						}
					}
				}
				for _, proto := range []string{"udp", "icmp"} {
					for _, tf := range []string{"v6", "v6brport"} {
						for _, mn := range c19TTLs {
							for _, mx := range c19TTLs {
								add(c19Req{minTTL: mn, maxTTL: mx, port: 33434, proto: proto, targetForm: tf})
							}
						}
					}
				}
			}
			batch := 12
			if tier == "thorough" {
				batch = 400
			}
			var cases []fw.Case
			// combinations: a SACK-capable target, path runs AND end-to-end probes in one request - the runs use the
			// requested method, only the end-to-end probes are SYN
			for _, m := range []string{"sack", "prefer_sack"} {
				for _, qe := range [][2]int{{2, 2}, {1, 3}, {3, 1}} {
					m, qe := m, qe
					cases = append(cases, fw.Case{ID: fmt.Sprintf("C19/sack-mixed/%s/q%d-e%d", m, qe[0], qe[1]), Bubble: true, Run: func(c *fw.Ctx) { runC19SackMixed(c, c.ID, m, qe[0], qe[1], 1, 4) }})
				}
				// first TTL above 1 (library callers) and windows at the top of the range, with the SACK method
				for _, w := range [][2]int{{2, 4}, {3, 9}, {5, 5}, {250, 255}, {255, 255}, {30, 64}} {
					m, w := m, w
					cases = append(cases, fw.Case{ID: fmt.Sprintf("C19/sack-mixed/%s/ttl%d-%d", m, w[0], w[1]), Bubble: true, Run: func(c *fw.Ctx) { runC19SackMixed(c, c.ID, m, 1, 1, w[0], w[1]) }})
				}
			}
			for i := 0; i < len(reqs); i += batch {
				j := i + batch
				if j > len(reqs) {
					j = len(reqs)
				}
				rs := reqs[i:j]
				id := fmt.Sprintf("C19/batch%d", i/batch)
				cases = append(cases, fw.Case{ID: id, Bubble: true, Run: func(c *fw.Ctx) {
					for k, rq := range rs {
						runC19(c, fmt.Sprintf("%s.%d", id, k), rq)
					}
				}})
			}
			return cases
		},
	}
}

func ttlClass(v int) string {
	switch {
	case v < 0:
		return "neg"
	case v == 0:
		return "0"
	case v == 1:
		return "1"
	case v < 255:
		return "mid"
	case v == 255:
		return "255"
	case v < 512:
		return "256..511"
	}
	return "huge"
}

func portClass(p int) string {
	switch {
	case p < 0:
		return "neg"
	case p == 0:
		return "0"
	case p <= 65535:
		return "ok"
	}
	return "over"
}

func runC19(c *fw.Ctx, id string, rq c19Req) {
	v6 := strings.HasPrefix(rq.targetForm, "v6")
	addr := netip.AddrFrom4([4]byte{10, 204, byte(100 + c.Worker), 9})
	if v6 {
		addr = netip.MustParseAddr(fmt.Sprintf("fd00:204:%x::9", 100+c.Worker))
	}
	literalPort := 0
	badLiteralPort := ""
	host := addr.String()
	switch rq.targetForm {
	case "v4port":
		literalPort = 8081
		host = fmt.Sprintf("%s:%d", addr, literalPort)
	case "v6br":
		host = "[" + addr.String() + "]"
	case "v6brport":
		literalPort = 8082
		host = fmt.Sprintf("[%s]:%d", addr, literalPort)
	case "v4name", "v6name", "v4dual", "v6dual":
		// a host name answered from the hosts file (see setupNS): must behave exactly like the literal
		host = fmt.Sprintf("verif-w%d-%s", 100+c.Worker, rq.targetForm[:2])
		if strings.HasSuffix(rq.targetForm, "dual") {
			host = fmt.Sprintf("verif-w%d", 100+c.Worker)
		}
	case "v4nameport":
		literalPort = 8083
		host = fmt.Sprintf("verif-w%d-v4:%d", 100+c.Worker, literalPort)
	case "v4port0":
		badLiteralPort = "0"
		host = fmt.Sprintf("%s:0", addr)
	case "v6brport0":
		badLiteralPort = "0"
		host = fmt.Sprintf("[%s]:0", addr)
	case "v4port65536":
		badLiteralPort = "65536"
		host = fmt.Sprintf("%s:65536", addr)
	}
	params := traceroute.TracerouteParams{Hostname: host, Port: rq.port, Protocol: rq.proto, MinTTL: rq.minTTL, MaxTTL: rq.maxTTL, Delay: 1,
		Timeout: 40 * time.Millisecond, TCPMethod: traceroute.TCPMethod(rq.method), WantV6: v6, TracerouteQueries: 1, E2eQueries: 0}
	if rq.e2eOnly {
		params.TracerouteQueries, params.E2eQueries = 0, 1
	}
	if (rq.minTTL+rq.maxTTL+rq.port)%3 == 0 {
		params.Delay = 0 // the zero value a library caller gets when it does not set a pause between probes
		c.Count("requests_with_zero_delay", 1)
	}
	env, err := newReqEnv(c, params, addr, 0, false)
	if err != nil {
		c.Inconclusive(err.Error())
		return
	}
	defer env.close()
	var out *result.Results
	var rerr error
	if rq.viaHTTP {
		q := url.Values{"target": {host}, "protocol": {rq.proto}, "port": {fmt.Sprint(rq.port)}, "max-ttl": {fmt.Sprint(rq.maxTTL)}, "timeout": {"40"},
			"traceroute-queries": {fmt.Sprint(params.TracerouteQueries)}, "e2e-queries": {fmt.Sprint(params.E2eQueries)}, "tcp-method": {rq.method}, "ipv6": {fmt.Sprint(v6)}}
		if rq.proto == "" {
			q.Del("protocol") // absent parameter: the documented default applies
			q.Set("protocol", "")
		}
		srv := server.NewServer()
		rec := httptest.NewRecorder()
		srv.TracerouteHandler(rec, httptest.NewRequest("GET", "/traceroute?"+q.Encode(), nil))
		if rec.Code != 200 {
			rerr = fmt.Errorf("http %d: %s", rec.Code, strings.TrimSpace(rec.Body.String()))
		} else {
			out = &result.Results{}
		}
	} else {
		out, rerr = env.run(context.Background())
	}
	// what was on the wire
	env.w.Lock()
	ems := append([]*simnet.Emission(nil), env.w.Emissions...)
	env.w.Unlock()
	minTTL := rq.minTTL
	if rq.viaHTTP {
		minTTL = 1
	}
	if rq.e2eOnly {
		if minTTL > rq.maxTTL {
			// the runs' window is inverted; the end-to-end probe alone ([max,max]) may or may not be considered valid
			return
		}
		// an end-to-end probe covers exactly the last TTL; with no path run in the request the first TTL is never put
		// on the wire (nor wrapped or truncated), so its value is not judged
		minTTL = rq.maxTTL
	}
	method := rq.method
	if method == "" {
		method = "syn"
	}
	proto := rq.proto
	// representability
	var unrep []string
	if minTTL < 1 || minTTL > 255 {
		unrep = append(unrep, fmt.Sprintf("MinTTL=%d", minTTL))
	}
	if rq.maxTTL < 1 || rq.maxTTL > 255 {
		unrep = append(unrep, fmt.Sprintf("MaxTTL=%d", rq.maxTTL))
	}
	if lp := strings.ToLower(proto); lp == "udp" || lp == "tcp" || lp == "icmp" {
		// a spelling variant of a known protocol (the package itself defines "UDP"/"TCP"/"ICMP" constants): it may be
		// rejected or run as that protocol, it is not an unknown protocol
		proto = lp
	} else {
		unrep = append(unrep, fmt.Sprintf("protocol=%q", proto))
	}
	if proto == "tcp" && method != "syn" && method != "sack" && method != "prefer_sack" && method != "syn_socket" {
		unrep = append(unrep, fmt.Sprintf("tcp method=%q", rq.method))
	}
	if proto != "icmp" && literalPort == 0 && badLiteralPort == "" && rq.port != 0 && (rq.port < 1 || rq.port > 65535) {
		unrep = append(unrep, fmt.Sprintf("port=%d", rq.port))
	}
	if badLiteralPort != "" {
		// only an omitted port PARAMETER means "default"; a literal that spells port 0 / 65536 cannot be honoured
		unrep = append(unrep, "literal-port="+badLiteralPort)
	}
	outcome := "rejected"
	if rerr == nil {
		outcome = "accepted"
	}
	env.monitors(id)
	c.Count("requests_"+outcome, 1)
	c.Count(outcome+"_target_"+rq.targetForm, 1)
	c.Nontrivial(fmt.Sprintf("%s/%s/%s-%s/port-%s/%s/http%v/%s", proto, rq.method, ttlClass(minTTL), ttlClass(rq.maxTTL), portClass(rq.port), rq.targetForm, rq.viaHTTP, outcome))
	detail := map[string]any{"request": rq.String(), "error": fmt.Sprint(rerr), "probes_on_wire": len(ems)}
	if rerr != nil {
		return // rejected: always acceptable
	}
	if out == nil {
		c.Violate("C19", "nil-nil", id+": nil result and nil error for "+rq.String(), detail)
		return
	}
	if len(unrep) > 0 {
		c.Violate("C19", "unrepresentable-accepted/"+strings.SplitN(unrep[0], "=", 2)[0], fmt.Sprintf("%s: request %s was executed although %v cannot be on the wire", id, rq, unrep), detail)
		// keep going: show what was really sent
	}
	wantPort := rq.port
	if literalPort != 0 {
		wantPort = literalPort
	} else if wantPort == 0 {
		wantPort = 33434
	}
	seen := map[int]int{}
	for _, em := range ems {
		if em.Pkt == nil {
			c.Violate("C19", "malformed-probe", fmt.Sprintf("%s: %s emitted an undecodable packet: %v", id, rq, em.ParseErr), detail)
			continue
		}
		p := em.Pkt
		seen[int(p.TTL)]++
		if p.Dst != addr {
			c.Violate("C19", "wrong-address", fmt.Sprintf("%s: %s sent a probe to %s", id, rq, p.Dst), detail)
		}
		kind := ""
		switch {
		case p.Proto == 17:
			kind = "udp"
		case p.Proto == 1 || p.Proto == 58:
			kind = "icmp"
		case p.Proto == 6 && p.TCPFlags&0x02 != 0:
			kind = "tcp/syn"
		case p.Proto == 6:
			kind = "tcp/sack"
		}
		wantKind := proto
		if proto == "tcp" {
			wantKind = "tcp/" + method
			if method == "prefer_sack" || method == "syn_socket" {
				wantKind = kind // decided by C20 / platform
			}
			if rq.e2eOnly && (method == "sack" || method == "prefer_sack") {
				wantKind = "tcp/syn" // end-to-end probes use SYN whatever the (valid) method
			}
		}
		if kind != wantKind {
			c.Violate("C19", "wrong-kind/"+proto, fmt.Sprintf("%s: %s emitted a %s probe", id, rq, kind), detail)
		}
		if proto != "icmp" && int(p.DstPort) != wantPort {
			c.Violate("C19", "wrong-port/"+portClass(rq.port)+"/"+rq.targetForm, fmt.Sprintf("%s: %s sent a probe to port %d, expected %d", id, rq, p.DstPort, wantPort), detail)
		}
	}
	var got []int
	for t := range seen {
		got = append(got, t)
	}
	sort.Ints(got)
	ok := len(got) == rq.maxTTL-minTTL+1
	for t := minTTL; ok && t <= rq.maxTTL; t++ {
		if seen[t] != 1 {
			ok = false
		}
	}
	if !ok {
		lo, hi := 0, 0
		if len(got) > 0 {
			lo, hi = got[0], got[len(got)-1]
		}
		c.Violate("C19", fmt.Sprintf("ttl-range-not-honoured/%s-%s", ttlClass(minTTL), ttlClass(rq.maxTTL)), fmt.Sprintf("%s: %s succeeded but probed %d TTLs spanning [%d,%d] instead of exactly [%d,%d]", id, rq, len(got), lo, hi, minTTL, rq.maxTTL), detail)
	}
	c.Sample(map[string]any{"request": rq.String(), "ttls_on_wire": len(got), "outcome": outcome})
}

func runC19SackMixed(c *fw.Ctx, id, method string, q, e2e, minTTL, maxTTL int) {
	resetProcessState()
	target := netip.AddrFrom4([4]byte{10, 204, byte(160 + c.Worker), 9})
	port := uint16(23000 + c.Worker)
	params := traceroute.TracerouteParams{Hostname: target.String(), Port: int(port), Protocol: "tcp", MinTTL: minTTL, MaxTTL: maxTTL, Delay: 5,
		Timeout: 300 * time.Millisecond, TCPMethod: traceroute.TCPMethod(method), TracerouteQueries: q, E2eQueries: e2e}
	env, err := newReqEnv(c, params, target, port, true)
	if err != nil {
		c.Inconclusive(err.Error())
		return
	}
	defer env.close()
	env.peer.SackPerm = true
	env.modelFor = func(k int, e *simEnv) *pathModel { return flowPath(k, e, 0, false, 2*time.Millisecond) } // routers only: all TTLs probed
	_, rerr := env.run(context.Background())
	env.monitors(id)
	if rerr != nil {
		c.Count("sack_mixed_rejected", 1)
		return
	}
	env.w.Lock()
	byHandle := map[int][]*simnet.Emission{}
	for _, em := range env.w.Emissions {
		byHandle[em.Handle] = append(byHandle[em.Handle], em)
	}
	env.w.Unlock()
	sackRuns, synE2e, other := 0, 0, 0
	for _, ems := range byHandle {
		syn, seg := 0, 0
		ttls := map[int]int{}
		for _, em := range ems {
			if em.Pkt == nil || em.Pkt.Proto != 6 {
				other++
				continue
			}
			ttls[int(em.Pkt.TTL)]++
			if em.Pkt.TCPFlags&0x02 != 0 {
				syn++
			} else {
				seg++
			}
		}
		full := len(ttls) == maxTTL-minTTL+1
		for t := minTTL; t <= maxTTL && full; t++ {
			full = ttls[t] == 1
		}
		switch {
		case seg > 0 && syn == 0 && full:
			sackRuns++
		case syn > 0 && seg == 0 && len(ttls) == 1 && ttls[maxTTL] == 1:
			synE2e++
		default:
			other++
		}
	}
	c.Nontrivial(fmt.Sprintf("sack-mixed/%s/q%d-e%d/ttl%d-%d", method, q, e2e, minTTL, maxTTL))
	if sackRuns != q || synE2e != e2e || other != 0 {
		c.Violate("C19", "wrong-kind/tcp-mixed/"+method, fmt.Sprintf("%s: tcp method %q with %d runs and %d end-to-end probes against a SACK-capable target put on the wire: %d SACK runs over TTL %d..%d, %d single SYN probes at TTL %d, %d other senders", id, method, q, e2e, sackRuns, minTTL, maxTTL, synE2e, maxTTL, other), nil)
	}
}
